(* driver.ml -- runs the extracted Coq engines on case lines.
   usage: driver run <engine-number>            cases on stdin -> observations on stdout
          driver oracle <engine-number>         lines "case | observation" -> oracle verdict lines
   line syntax: fields separated by ';', decimal numbers separated by ','. *)
open Model

let rec pos_of_int (n : int) : positive =
  if n = 1 then XH
  else if n land 1 = 0 then XO (pos_of_int (n lsr 1))
  else XI (pos_of_int (n lsr 1))

let n_of_int (n : int) : n = if n = 0 then N0 else Npos (pos_of_int n)

let rec int_of_pos (p : positive) : int =
  match p with XH -> 1 | XO q -> 2 * int_of_pos q | XI q -> 2 * int_of_pos q + 1

let int_of_n (x : n) : int = match x with N0 -> 0 | Npos p -> int_of_pos p

let parse_field (s : string) : n list =
  let s = String.trim s in
  if s = "" then []
  else List.map (fun x -> n_of_int (int_of_string (String.trim x))) (String.split_on_char ',' s)

let parse_line (l : string) : n list list = List.map parse_field (String.split_on_char ';' l)

let show_line (o : n list list) : string =
  String.concat ";"
    (List.map (fun f -> String.concat "," (List.map (fun x -> string_of_int (int_of_n x)) f)) o)

let () =
  let mode = Sys.argv.(1) in
  let e = n_of_int (int_of_string Sys.argv.(2)) in
  let out = Buffer.create 65536 in
  (try
     while true do
       let line = input_line stdin in
       if String.length line > 0 && line.[0] = '#' then ()
       else begin
         (match mode with
          | "run" -> Buffer.add_string out (show_line (run e (parse_line line)))
          | "oracle" ->
            (match String.index_opt line '|' with
             | Some i ->
               let c = String.sub line 0 i and o = String.sub line (i + 1) (String.length line - i - 1) in
               Buffer.add_string out (show_line (oracle e (parse_line c) (parse_line o)))
             | None -> Buffer.add_string out "97")
          | _ -> failwith "mode");
         Buffer.add_char out '\n';
         if Buffer.length out > 60000 then (print_string (Buffer.contents out); Buffer.clear out)
       end
     done
   with End_of_file -> ());
  print_string (Buffer.contents out)
