"""Case generators for the inbound engines inb3 (33) / inb5 (34).

Case syntax: see harness/src/engines/inbound.rs.  Everything is drawn from one random.Random.
Families (each returns a list of case lines):
  alphabet    all packet sequences up to length 3 over a template alphabet (ids 1..2), with the
              placements of handler / protocol-service completions (all placements for length <= 2,
              sampled for length 3)
  histories   id reuse over ids {1,2,3}: PUBLISH QoS1/2, SUBSCRIBE, UNSUBSCRIBE, PUBREL mixed with
              completions before / after the reuse attempt
  aliases     (v5) 3 topics x 3 aliases: bind, rebind, use, use unbound, exceed the maximum
  bursts      receive-maximum (v5) / in-flight limiter (v3) bursts
  outcomes    handler outcomes ok / error / negative ack for every QoS
  random      longer random sequences over everything
  qos2_flows  (mode 1) complete QoS 2 exchanges, id reuse at every stage, stray / repeated PUBREL
  shutdown    (mode 1) waiting protocol-service calls and handlers, then a stop of every kind, then the
              remaining completions (flush of buffered control messages during shutdown)
  ctl_stress  long runs that keep the connection alive: control packets through the
              BufferService(16)+InFlightService(1) pipeline, completions in / out of order
"""
import itertools
import random


ROLE = "server"     # "client": the configuration field is [max_receive, route]


def fmt(cfg, ops):
    if ROLE == "client" and len(cfg) == 5:
        cfg = (cfg[1] or cfg[3], cfg[4])
    return ";".join(",".join(str(x) for x in f) for f in [cfg] + ops)


def pub(qos, pid, topic=1, alias=0, retain=0, plen=0):
    return (1, 1, qos, pid if qos else 0, topic, alias, retain, plen)


def alphabet(v):
    a = [
        pub(0, 0, 1), pub(0, 0, 2, plen=2), pub(1, 1, 1), pub(1, 2, 2, retain=1), pub(2, 1, 1), pub(2, 2, 3, plen=1),
        pub(1, 1, 4), pub(1, 2, 0),
        (1, 2, 1), (1, 3, 1), (1, 4, 1), (1, 4, 2), (1, 5, 1),
        (1, 6, 1, 1), (1, 6, 2, 2), (1, 6, 1, 3), (1, 7, 1, 1), (1, 7, 2, 2),
        (1, 6, 1, 4), (1, 6, 2, 5), (1, 7, 1, 6),
        (1, 8), (1, 9, 0, 0),
        (1, 11, 1), (1, 12, 1), (1, 13), (1, 14), (1, 15),
    ]
    if v == 5:
        a += [(1, 9, 4, 0), (1, 9, 0, 5), (1, 10), pub(1, 1, 1, alias=1), pub(0, 0, 0, alias=1)]
    else:
        a += [(1, 10)]
    return a


def is_pub(op):
    if ROLE == "client":
        return op[0] == 1 and op[1] == 1 and op[4] in (1, 2)
    return op[0] == 1 and op[1] == 1


def is_ctl(op, v):
    if ROLE == "client":
        return op[0] == 1 and ((op[1] == 1 and op[4] not in (1, 2)) or op[1] == 4 or (op[1] == 9 and v == 5))
    return op[0] == 1 and op[1] in ((4, 6, 7, 8, 9, 10) if v == 5 else (4, 6, 7, 8, 9))


CFGS3 = [(2, 0, 0, 0, 0), (1, 0, 0, 0, 0), (2, 0, 0, 2, 0), (2, 0, 0, 1, 0), (0, 0, 0, 0, 0)]
CFGS5 = [(2, 0, 3, 0, 0), (1, 0, 3, 0, 0), (2, 2, 2, 0, 0), (2, 1, 0, 0, 0), (0, 0, 1, 0, 0)]


def cfgs(v):
    return CFGS5 if v == 5 else CFGS3


def with_mode(cfg, mode):
    return cfg[:4] + (mode,)


def hres_choices(v, rng):
    if v == 5:
        return rng.choice([0, 0, 0, 1, 135, 128, 145, 16, 200])
    return rng.choice([0, 0, 0, 1])


def place_completions(seq, v, mode, rng, exhaustive):
    """yield op lists: seq with completion ops inserted.  Handler h is assumed to belong to the
    h-th PUBLISH, protocol invocation c to the c-th control packet (the gates remember early opens,
    so a wrong guess is still a legal case)."""
    pubs = [i for i, o in enumerate(seq) if is_pub(o)]
    ctls = [i for i, o in enumerate(seq) if is_ctl(o, v)] if mode == 1 else []
    events = [("h", n + 1, i) for n, i in enumerate(pubs)] + [("c", n + 1, i) for n, i in enumerate(ctls)]
    n = len(seq)
    if not events:
        yield list(seq)
        return
    # slot s in 0..n : completion happens after packet index s-1 ... we use positions pos in (i+1 .. n) or never
    choices = []
    for kind, num, i in events:
        choices.append([None] + list(range(i + 1, n + 1)))
    combos = itertools.product(*choices)
    if not exhaustive:
        combos = [tuple(rng.choice(ch) for ch in choices) for _ in range(2)]
    for combo in combos:
        ins = {}
        for (kind, num, i), pos in zip(events, combo):
            if pos is None:
                continue
            if kind == "h":
                op = (2, num, hres_choices(v, rng))
            else:
                op = (3, num, rng.choice([0, 0, 2, 1]))
            ins.setdefault(pos, []).append(op)
        out = []
        for idx in range(n + 1):
            for op in ins.get(idx, []):
                out.append(op)
            if idx < n:
                out.append(seq[idx])
        yield out


def gen_alphabet(v, rng, full=True):
    a = alphabet(v)
    cases = []
    cs = cfgs(v)
    for n in (1, 2):
        for seq in itertools.product(a, repeat=n):
            for mode in (0, 1):
                cfg = with_mode(cs[0] if rng.random() < 0.6 else rng.choice(cs), mode)
                for ops in place_completions(seq, v, mode, rng, True):
                    cases.append(fmt(cfg, ops))
    seqs3 = list(itertools.product(a, repeat=3))
    if not full:
        seqs3 = rng.sample(seqs3, 3000)
    for seq in seqs3:
        mode = 1 if rng.random() < 0.35 else 0
        cfg = with_mode(cs[0] if rng.random() < 0.5 else rng.choice(cs), mode)
        ops = next(iter(place_completions(seq, v, mode, rng, False)))
        cases.append(fmt(cfg, ops))
    return cases


def gen_histories(v, rng, n=5000):
    cases = []
    cs = cfgs(v)
    for _ in range(n):
        mode = rng.choice([0, 1, 1])
        cfg = with_mode(rng.choice(cs[:3]), mode)
        ops = []
        nh = 0
        nc = 0
        pend_h = []
        pend_c = []
        for _ in range(rng.randint(3, 10)):
            r = rng.random()
            pid = rng.randint(1, 3)
            if r < 0.35:
                ops.append(pub(rng.choice([1, 2]), pid, rng.randint(1, 3)))
                nh += 1
                pend_h.append(nh)
            elif r < 0.45:
                ops.append((1, 6, pid, rng.choice([1, 2])))
                nc += 1
                pend_c.append(nc)
            elif r < 0.55:
                ops.append((1, 7, pid, 1))
                nc += 1
                pend_c.append(nc)
            elif r < 0.70:
                ops.append((1, 4, pid))
                nc += 1
                pend_c.append(nc)
            elif r < 0.88 and pend_h:
                h = pend_h.pop(rng.randrange(len(pend_h)))
                ops.append((2, h, hres_choices(v, rng) if rng.random() < 0.3 else 0))
            elif pend_c and mode == 1:
                c = pend_c.pop(0) if rng.random() < 0.8 else pend_c.pop(rng.randrange(len(pend_c)))
                ops.append((3, c, rng.choice([0, 0, 2, 2, 1])))
            else:
                ops.append((1, 8))
                nc += 1
                pend_c.append(nc)
        cases.append(fmt(cfg, ops))
    return cases


def gen_aliases(v, rng, n=3000):
    if v != 5:
        return []
    cases = []
    for _ in range(n):
        amax = rng.choice([0, 1, 2, 3, 3])
        cfg = (rng.choice([1, 2]), 0, amax, 0, 0)
        ops = []
        nh = 0
        for _ in range(rng.randint(2, 8)):
            r = rng.random()
            qos = rng.choice([0, 0, 1])
            pid = rng.randint(1, 3)
            al = rng.randint(1, 4) if rng.random() < 0.15 else rng.randint(1, 3)
            if r < 0.45:
                ops.append(pub(qos, pid, rng.randint(1, 3), alias=al))
            elif r < 0.85:
                ops.append(pub(qos, pid, 0, alias=al))
            else:
                ops.append(pub(qos, pid, rng.randint(0, 3), alias=0))
            nh += 1
            if rng.random() < 0.8:
                ops.append((2, nh, 0))
        cases.append(fmt(cfg, ops))
    return cases


def gen_bursts(v, rng, n=3000):
    cases = []
    for _ in range(n):
        mode = 1 if rng.random() < 0.25 else 0
        if v == 5:
            cfg = (2, rng.choice([1, 2, 3]), 3, 0, mode)
        else:
            cfg = (2, 0, 0, rng.choice([1, 2, 3]), mode)
        ops = []
        nh = 0
        nc = 0
        pend = []
        pid = 0
        for _ in range(rng.randint(3, 9)):
            r = rng.random()
            if r < 0.55:
                pid += 1
                q = rng.choice([0, 1, 1, 2])
                ops.append(pub(q, pid if rng.random() < 0.9 else rng.randint(1, max(1, pid)), rng.randint(1, 3)))
                nh += 1
                pend.append(nh)
            elif r < 0.65:
                pid += 1
                ops.append((1, rng.choice([6, 7]), pid, 1))
                nc += 1
            elif r < 0.72:
                ops.append((1, 8))
                nc += 1
            elif r < 0.78 and pid:
                ops.append((1, 4, rng.randint(1, pid)))
                nc += 1
            elif pend:
                h = pend.pop(rng.randrange(len(pend)))
                ops.append((2, h, 0 if rng.random() < 0.85 else hres_choices(v, rng)))
            if mode == 1 and nc and rng.random() < 0.3:
                ops.append((3, rng.randint(1, nc), rng.choice([0, 2])))
        cases.append(fmt(cfg, ops))
    return cases


def gen_held_bursts(v, rng, n=2000):
    """engines inb3b / inb5b: runs of packets written back to back (operation 4,1,.. = written, nothing runs before
    the next operation) so that several frames reach the server in ONE read; gated handlers complete in every order.
    Three flavours: clean (distinct ids, plain topics, everything completes: `every packet is eventually handled`
    can be read off), mixed (control packets in the bursts, failing handlers), and fixed hand-written shapes."""
    cases = []
    for m in (1, 2, 3):
        for k in (2, 3, 4, 6, 9):
            for q in (0, 1, 2):
                cfg = (2, m, 3, 0, 0) if v == 5 else (2, 0, 0, m, 0)
                ops = [(4,) + pub(q, i + 1, 1 + i % 3) for i in range(k - 1)] + [pub(q, k, 1)]
                cases.append(fmt(cfg, ops + [(2, h + 1, 0) for h in range(k)]))
                cases.append(fmt(cfg, ops + [(2, h, 0) for h in range(k, 0, -1)]))
                cases.append(fmt(cfg, [(2, 1, 0)] + ops + [(2, h + 1, 0) for h in range(1, k)]))
    for _ in range(n):
        clean = rng.random() < 0.6
        mode = 0 if clean or rng.random() < 0.7 else 1
        lim = rng.choice([1, 2, 2, 3, 4])
        if v == 5:
            cfg = (2, lim if rng.random() < 0.7 else 0, 3, 0, mode)
        else:
            cfg = (2, 0, 0, lim if rng.random() < 0.85 else 0, mode)
        ops, pend = [], []
        nh = nc = pid = 0
        for _b in range(rng.randint(1, 4)):
            k = rng.choice([1, 2, 2, 3, 3, 4, 5, 7])
            for j in range(k):
                r = rng.random()
                if clean or r < 0.7:
                    pid += 1
                    q = rng.choice([0, 1, 1, 2])
                    o = pub(q, pid, rng.randint(1, 3), plen=rng.choice([0, 0, 1, 5]))
                    nh += 1
                    pend.append(nh)
                elif r < 0.8:
                    pid += 1
                    o = (1, rng.choice([6, 7]), pid, 1)
                    nc += 1
                elif r < 0.9:
                    o = (1, 8)
                    nc += 1
                else:
                    o = (1, 4, rng.randint(1, max(1, pid)))
                    nc += 1
                ops.append(o if j == k - 1 else (4,) + o)
            # some completions between the bursts
            for _c in range(rng.randint(0, len(pend))):
                h = pend.pop(rng.randrange(len(pend)))
                ops.append((2, h, 0 if clean or rng.random() < 0.85 else hres_choices(v, rng)))
                if mode == 1 and nc and rng.random() < 0.4:
                    ops.append((3, rng.randint(1, nc), rng.choice([0, 2])))
        rng.shuffle(pend)
        for h in pend:
            ops.append((2, h, 0))
        if mode == 1:
            for c in range(1, nc + 1):
                ops.append((3, c, 0))
        # idle rounds: whatever is still buffered must come out
        ops += [(1, 8)] if not clean else []
        cases.append(fmt(cfg, ops))
    cases += gen_after_disconnect(v, rng, max(60, n // 5))
    return cases


def gen_after_disconnect(v, rng, n=400):
    """MQTT 5 servers with handle_qos_after_disconnect (configuration field 6: 0 = None, q + 1 = Some(q)): frames that
    sit behind the peer's DISCONNECT in the same read are still dispatched; publishes above q are dropped -- but a
    dropped PUBLISH that carries topic and alias still (re)binds the alias for the ones that are delivered"""
    if v != 5:
        return []
    cases = []
    # systematic: alias 1 bound to t1 by a delivered publish, DISCONNECT, a publish of QoS qd that re-binds alias 1 to
    # t2 (dropped when qd is above the limit), then an alias-only publish of QoS qa
    for hq in (0, 1, 2, 3):
        for qd in (0, 1, 2):
            for qa in (0, 1, 2):
                for pre in (True, False):
                    cfg = (2, 0, 3, 0, 0, 0, hq)
                    ops = ([(4,) + pub(0, 0, 1, alias=1)] if pre else []) + [(4, 1, 9, 0, 0)]
                    ops.append((4,) + pub(qd, 1, 2, alias=1))
                    ops.append(pub(qa, 2, 0, alias=1))
                    cases.append(fmt(cfg, ops + [(2, 1, 0), (2, 2, 0), (2, 3, 0)]))
    for _ in range(n):
        hq = rng.choice([0, 1, 1, 2, 3])
        cfg = (2, 0, 3, 0, 0, 0, hq)
        ops = []
        pid = 0
        npub = 0

        def mk(q, topic, alias):
            nonlocal pid, npub
            if q:
                pid += 1
            npub += 1
            return pub(q, pid, topic, alias=alias)
        for _b in range(rng.randint(0, 2)):
            ops.append((4,) + mk(rng.choice([0, 0, 1]), rng.randint(1, 3), rng.choice([0, 1, 2])))
        ops.append((4, 1, 9, 0, 0))
        for _a in range(rng.randint(1, 4)):
            r = rng.random()
            if r < 0.5:
                ops.append((4,) + mk(rng.choice([0, 1, 2]), rng.randint(1, 3), rng.choice([1, 2])))
            else:
                ops.append((4,) + mk(rng.choice([0, 0, 1]), 0, rng.choice([1, 2])))
        ops[-1] = ops[-1][1:]                      # the last one is not held: everything is read in one go
        hs = list(range(1, npub + 1))
        rng.shuffle(hs)
        ops += [(2, h, 0) for h in hs]
        cases.append(fmt(cfg, ops))
    return cases


def gen_session_expiry(v, rng):
    """MQTT 5 servers: DISCONNECT with / without a Session Expiry Interval on sessions whose CONNECT asked for expiry
    0 or 60 s (configuration field 5) [MQTT-3.14.2-22], alone and behind running handlers / control calls"""
    if v != 5:
        return []
    cases = []
    for sexp in (0, 1):
        for mode in (0, 1):
            cfg = (2, 0, 3, 0, mode, sexp)
            for reason in (0, 4, 128):
                for se in (0, 7, 30):
                    d = (1, 9, reason, se)
                    cases.append(fmt(cfg, [d]))
                    cases.append(fmt(cfg, [d, (1, 8)]))
                    cases.append(fmt(cfg, [pub(1, 1, 1), d, (2, 1, 0)]))
                    cases.append(fmt(cfg, [pub(2, 1, 1), (2, 1, 0), d, (1, 4, 1)]))
                    cases.append(fmt(cfg, [(1, 8), d, (3, 1, 0), (3, 2, 0)]))
                    cases.append(fmt(cfg, [d, d]))
    return cases


def gen_outcomes(v, rng):
    cases = []
    results = [0, 1, 2, 16, 128, 131, 135, 144, 145, 151, 153, 129, 255] if v == 5 else [0, 1, 7]
    for qos in (0, 1, 2):
        for res in results:
            for maxq in (1, 2):
                base = [pub(qos, 1, 1)]
                for tail in ([(2, 1, res)], [(1, 8), (2, 1, res)], [(2, 1, res), pub(qos, 1, 2), (2, 2, 0)],
                             [(2, 1, res), (1, 4, 1)], [(2, 1, res), (1, 4, 1), pub(qos, 1, 1), (2, 2, 0)],
                             [pub(qos, 1, 1), (2, 1, res)], [(1, 4, 1), (2, 1, res)]):
                    cases.append(fmt((maxq, 0, 3, 0, 0), base + tail))
    return cases


def gen_random(v, rng, n=5000):
    a = alphabet(v)
    cs = cfgs(v)
    cases = []
    for _ in range(n):
        mode = rng.choice([0, 0, 1])
        cfg = with_mode(rng.choice(cs), mode)
        ops = []
        nh = 0
        nc = 0
        for _ in range(rng.randint(4, 16)):
            r = rng.random()
            if r < 0.6:
                op = rng.choice(a)
                if rng.random() < 0.3 and len(op) > 2 and op[1] in (1, 2, 3, 4, 5, 6, 7):
                    op = list(op)
                    if op[1] == 1:
                        if op[2]:
                            op[3] = rng.randint(1, 3)
                    else:
                        op[2] = rng.randint(1, 3)
                    op = tuple(op)
                ops.append(op)
                if is_pub(op):
                    nh += 1
                if is_ctl(op, v):
                    nc += 1
            elif r < 0.85 and nh:
                ops.append((2, rng.randint(1, nh), hres_choices(v, rng) if rng.random() < 0.25 else 0))
            elif mode == 1 and nc:
                ops.append((3, rng.randint(1, nc), rng.choice([0, 0, 2, 1])))
            else:
                ops.append((1, 8))
                nc += 1
        cases.append(fmt(cfg, ops))
    return cases


def gen_qos2_flows(v, rng, n=4000):
    """mode 1: QoS 2 exchanges to the end (PUBLISH, handler, PUBREC, PUBREL, protocol service, PUBCOMP),
    id reuse at every stage, stray / repeated PUBREL"""
    cases = []
    for _ in range(n):
        if v == 5:
            cfg = (2, rng.choice([0, 0, 2, 3]), 3, 0, 1)
        else:
            cfg = (2, 0, 0, rng.choice([0, 0, 2, 3]), 1)
        ops = []
        nh = 0
        nc = 0
        pend_h = []
        pend_c = []
        for _ in range(rng.randint(4, 14)):
            r = rng.random()
            pid = rng.randint(1, 3)
            if r < 0.30:
                ops.append(pub(2 if rng.random() < 0.8 else 1, pid, rng.randint(1, 3)))
                nh += 1
                pend_h.append(nh)
            elif r < 0.50:
                ops.append((1, 4, pid))
                nc += 1
                pend_c.append(nc)
            elif r < 0.72 and pend_h:
                h = pend_h.pop(0) if rng.random() < 0.7 else pend_h.pop(rng.randrange(len(pend_h)))
                ops.append((2, h, 0 if rng.random() < 0.9 else hres_choices(v, rng)))
            elif r < 0.92 and pend_c:
                c = pend_c.pop(0) if rng.random() < 0.7 else pend_c.pop(rng.randrange(len(pend_c)))
                ops.append((3, c, rng.choice([0, 0, 0, 2, 2, 1]) if rng.random() < 0.3 else 0))
            elif r < 0.96:
                ops.append((1, 8))
                nc += 1
                pend_c.append(nc)
            else:
                ops.append((2, nh + 1, 0) if rng.random() < 0.5 else (3, nc + 1, 0))
        cases.append(fmt(cfg, ops))
    return cases


def gen_ctl_stress(v, rng, n=6000):
    """mode 1 (and some mode 0): long runs of control packets and publishes that keep the connection
    alive, completions in and out of order, early gate opens, limiter / receive maximum active"""
    cases = []
    for _ in range(n):
        mode = 1 if rng.random() < 0.85 else 0
        if v == 5:
            cfg = (2, rng.choice([0, 0, 3, 4]), 3, 0, mode)
        else:
            cfg = (2, 0, 0, rng.choice([0, 0, 1, 2, 3]), mode)
        ops = []
        nh = 0
        nc = 0
        pend_h = []
        pend_c = []
        nid = 0
        okres = 2 if v == 3 else 0
        for _ in range(rng.randint(6, 30)):
            r = rng.random()
            if r < 0.22:
                q = rng.choice([0, 1, 1, 2])
                nid = nid % 6 + 1
                ops.append(pub(q, nid, rng.randint(1, 3), plen=rng.randint(0, 3)))
                nh += 1
                pend_h.append(nh)
            elif r < 0.34:
                ops.append((1, 8))
                nc += 1
                pend_c.append(nc)
            elif r < 0.44:
                nid = nid % 6 + 1
                ops.append((1, rng.choice([6, 7]), nid, rng.choice([1, 2])))
                nc += 1
                pend_c.append(nc)
            elif r < 0.50:
                ops.append((1, 4, rng.randint(1, 6)))
                nc += 1
                pend_c.append(nc)
            elif r < 0.53:
                ops.append((1, rng.choice([11, 12, 13, 15]), 1))
            elif r < 0.76 and pend_h:
                h = pend_h.pop(0) if rng.random() < 0.6 else pend_h.pop(rng.randrange(len(pend_h)))
                ops.append((2, h, 0 if rng.random() < 0.95 else hres_choices(v, rng)))
            elif r < 0.97 and pend_c:
                c = pend_c.pop(0) if rng.random() < 0.6 else pend_c.pop(rng.randrange(len(pend_c)))
                ops.append((3, c, okres if rng.random() < 0.93 else rng.choice([0, 1, 2])))
            elif r < 0.985:
                ops.append((2, nh + rng.randint(1, 2), 0) if rng.random() < 0.5 else (3, nc + rng.randint(1, 2), okres))
            else:
                ops.append(rng.choice([(1, 9, 0, 0), (1, 2, 1), (1, 6, 1, 3), pub(1, 1, 4)]))
        cases.append(fmt(cfg, ops))
    return cases


def gen_shutdown(v, rng, n=4000):
    """several protocol-service calls waiting (mode 1), handlers in flight, then something stops the
    connection (violation, handler error, protocol-service error, DISCONNECT, unsolicited ack), then the
    remaining completions: the flush of the buffered control messages during shutdown"""
    cases = []
    killers = [(1, 2, 1), (1, 6, 1, 3), (1, 6, 1, 4), (1, 7, 2, 5), pub(1, 1, 4), (1, 9, 0, 0), (1, 4, 6), (1, 3, 2), (1, 5, 2)]
    if v == 5:
        killers += [(1, 9, 0, 7), (1, 10), pub(1, 1, 0, alias=3), (1, 9, 4, 0)]
    else:
        killers += [(1, 10)]
    for _ in range(n):
        if v == 5:
            cfg = (2, rng.choice([0, 0, 2]), 3, 0, 1)
        else:
            cfg = (2, 0, 0, rng.choice([0, 0, 2, 3]), 1)
        okres = 2 if v == 3 else 0
        ops = []
        nh = 0
        nc = 0
        nid = 0
        for _ in range(rng.randint(2, 7)):
            r = rng.random()
            if r < 0.35:
                nid += 1
                ops.append(pub(rng.choice([0, 1, 2]), nid, rng.randint(1, 3)))
                nh += 1
            elif r < 0.65:
                ops.append((1, 8))
                nc += 1
            else:
                nid += 1
                ops.append((1, rng.choice([6, 7]), nid, 1))
                nc += 1
            if rng.random() < 0.15 and nc:
                ops.append((3, rng.randint(1, nc), okres))
            if rng.random() < 0.15 and nh:
                ops.append((2, rng.randint(1, nh), 0))
        k = rng.random()
        if k < 0.5:
            ops.append(rng.choice(killers))
            if ops[-1][1] in (4, 6, 7, 8, 9, 10):
                nc += 1
        elif k < 0.75 and nh:
            ops.append((2, rng.randint(1, nh), 1))
        elif nc:
            ops.append((3, rng.randint(1, nc), rng.choice([1, 1, 0])))
        order_c = list(range(1, nc + 2))
        order_h = list(range(1, nh + 1))
        if rng.random() < 0.4:
            rng.shuffle(order_c)
        tail = [(3, c, rng.choice([okres, okres, 0, 1])) for c in order_c] + [(2, h, 0) for h in order_h]
        if rng.random() < 0.5:
            rng.shuffle(tail)
        for t in tail[: rng.randint(0, len(tail))]:
            ops.append(t)
            if rng.random() < 0.2:
                ops.append(rng.choice([(1, 8), pub(0, 0, 1), (1, 13)]))
        cases.append(fmt(cfg, ops))
    return cases


def gen_client_flows(v, rng, n=8000):
    """client role with exact bookkeeping of handler / protocol-service invocation numbers: PUBLISH of every
    QoS to routed (t1, t2) and unrouted topics, completions in any order, PUBREL for known / unknown ids,
    id reuse, receive maximum / in-flight limit, now and then a packet that ends the connection"""
    cases = []
    for _ in range(n):
        route = rng.choice([0, 1, 1])
        lim = rng.choice([0, 0, 1, 2, 3])
        ops = []
        nh = 0
        nc = 0
        pend_h = []
        pend_c = []
        for _ in range(rng.randint(3, 16)):
            r = rng.random()
            pid = rng.randint(1, 4)
            if r < 0.36:
                q = rng.choice([0, 1, 1, 2, 2])
                t = rng.choice([1, 1, 2, 3, 3, 0, 4])
                al = 0
                if v == 5 and rng.random() < 0.2:
                    al = rng.randint(1, 3) if rng.random() < 0.9 else 17
                    if rng.random() < 0.5:
                        t = 0
                ops.append(pub(q, pid, t, alias=al, plen=rng.randint(0, 2), retain=rng.randint(0, 1)))
                if route and t in (1, 2) and al == 0:
                    nh += 1
                    pend_h.append(nh)
                elif al == 0:
                    nc += 1
                    pend_c.append(nc)
            elif r < 0.48:
                ops.append((1, 4, pid))
                nc += 1
                pend_c.append(nc)
            elif r < 0.66 and pend_h:
                h = pend_h.pop(0) if rng.random() < 0.6 else pend_h.pop(rng.randrange(len(pend_h)))
                ops.append((2, h, 0 if rng.random() < 0.85 else hres_choices(v, rng)))
            elif r < 0.88 and pend_c:
                c = pend_c.pop(0) if rng.random() < 0.6 else pend_c.pop(rng.randrange(len(pend_c)))
                ops.append((3, c, rng.choice([2, 2, 2, 0, 1]) if v == 5 else rng.choice([0, 0, 0, 2, 1])))
            elif r < 0.93:
                ops.append(rng.choice([(1, 13), (1, 15), (1, 14)]))
            elif r < 0.96:
                ops.append((2, nh + 1, 0) if rng.random() < 0.5 else (3, nc + 1, 2 if v == 5 else 0))
            else:
                ops.append(rng.choice([(1, 2, pid), (1, 3, pid), (1, 5, pid), (1, 11, pid), (1, 12, pid), (1, 8),
                                       (1, 9, 0, 0), (1, 9, 0, 5), (1, 6, pid, 1), (1, 7, pid, 1), (1, 10)]))
        cases.append(";".join(",".join(str(x) for x in f) for f in [(lim, route)] + ops))
    return cases


def generate(v, rng, scale=1.0, role="server"):
    global ROLE
    ROLE = role
    cases = []
    if role == "client":
        cases += gen_client_flows(v, rng, int(8000 * scale))
    cases += gen_alphabet(v, rng, full=scale >= 1.0)
    cases += gen_histories(v, rng, int(5000 * scale))
    cases += gen_aliases(v, rng, int(3000 * scale))
    cases += gen_bursts(v, rng, int(3000 * scale))
    cases += gen_outcomes(v, rng)
    if role == "server":
        cases += gen_session_expiry(v, rng)
    cases += gen_random(v, rng, int(5000 * scale))
    cases += gen_qos2_flows(v, rng, int(4000 * scale))
    cases += gen_ctl_stress(v, rng, int(6000 * scale))
    cases += gen_shutdown(v, rng, int(4000 * scale))
    ROLE = "server"
    seen = set()
    out = []
    for c in cases:
        if c not in seen and ';' in c:
            seen.add(c)
            out.append(c)
    return out


if __name__ == "__main__":
    import sys
    v = int(sys.argv[1]) if len(sys.argv) > 1 else 5
    seed = int(sys.argv[2]) if len(sys.argv) > 2 else 1
    scale = float(sys.argv[3]) if len(sys.argv) > 3 else 1.0
    for c in generate(v, random.Random(seed), scale):
        print(c)
