#!/usr/bin/env python3
"""Case generator for engines "plstop3" / "plstop5" (numbers 42 / 43): the reader of a streamed PUBLISH
payload when the connection ends (payload-reader clause of property C07).

case syntax (see harness/src/engines/plstop.rs):
  `min_chunk_size,max_payload_buffer_size,declared_payload_size,reader_mode;op;op;...`
  reader_mode 0 read() loop, 1 read_all()
  op `1,n` PUBLISH header + first n payload bytes (once), `2,n` n more payload bytes, `3` publish-service
  readiness starts failing, `4` peer closes, `5` sink.close(), `6` sink.force_close(), `7` poll the reader
  once, `8` the handler completes Ok, `9` PINGREQ (only after the whole payload).
Nothing here knows what the answers should be: plain enumerations / random draws.
"""
import itertools
import random

# after the fixed prefix `1,4`: feeding, readiness failure, the three ways to end, reader polls, handler done
AFTER = ["2,8", "3", "4", "6", "7", "8"]
# whole sequences (the header is one of the letters)
WHOLE = ["1,4", "2,8", "3", "5", "7"]

# (min_chunk, max_buffer, declared): buffer full with the first piece / after one chunk / never; payload that
# completes within the alphabet; min_chunk_size 0
FULL_CFGS = [(4, 2, 64), (4, 8, 64)]
OTHER_CFGS = [(4, 100, 16), (0, 8, 16)]


def fmt(cfg, mode, ops):
    return "%d,%d,%d,%d;" % (cfg[0], cfg[1], cfg[2], mode) + ";".join(ops)


def exhaustive(prefix, alpha, cfgs, maxlen, modes=(0, 1)):
    out = []
    for n in range(1, maxlen + 1):
        for ops in itertools.product(alpha, repeat=n):
            for cfg in cfgs:
                for m in modes:
                    out.append(fmt(cfg, m, list(prefix) + list(ops)))
    return out


def random_case(rng, maxlen=20):
    minc = rng.choice([0, 1, 4, 4, 8, 32])
    maxb = rng.choice([0, 1, 2, 4, 8, 8, 16, 64, 32768])
    decl = rng.choice([0, 1, 5, 16, 16, 24, 64, 64, 300])
    mode = rng.choice([0, 1])
    n = rng.randint(4, maxlen)
    p_poll = rng.choice([0.1, 0.3, 0.5])
    p_end = rng.choice([0.03, 0.08, 0.15])
    p_fail = rng.choice([0.0, 0.05, 0.15])
    p_done = rng.choice([0.02, 0.1])
    p_ping = rng.choice([0.0, 0.1])
    ops = []
    started = False
    for _ in range(n):
        if not started and rng.random() < 0.7:
            ops.append("1,%d" % rng.choice([0, 1, 2, 4, 4, 8, 16, decl, rng.randint(0, 70)]))
            started = True
            continue
        r = rng.random()
        if r < p_poll:
            ops.append("7")
        elif r < p_poll + p_end:
            ops.append(rng.choice(["4", "5", "6"]))
        elif r < p_poll + p_end + p_fail:
            ops.append("3")
        elif r < p_poll + p_end + p_fail + p_done:
            ops.append("8")
        elif r < p_poll + p_end + p_fail + p_done + p_ping:
            ops.append("9")
        elif rng.random() < 0.05:
            ops.append("1,%d" % rng.randint(0, 20))
            started = True
        else:
            ops.append("2,%d" % rng.choice([0, 1, 1, 2, 3, 4, 4, 8, 8, 16, 64, rng.randint(0, 40)]))
    return fmt((minc, maxb, decl), mode, ops)


def random_ending(rng, maxlen=20):
    """what the clause is about: part of the payload arrives (the reader may or may not keep up), optionally
    readiness fails, the connection ends in one of the three ways, then the reader is polled to the end"""
    minc = rng.choice([0, 1, 4, 4, 8])
    maxb = rng.choice([1, 2, 4, 8, 8, 16, 64])
    decl = rng.choice([16, 24, 64, 64, 300])
    mode = rng.choice([0, 1])
    ops = ["1,%d" % rng.choice([0, 1, 4, 4, 8, rng.randint(0, 12)])]
    for _ in range(rng.randint(0, 5)):
        r = rng.random()
        if r < 0.55:
            ops.append("2,%d" % rng.choice([1, 2, 4, 4, 8, 8, 16, rng.randint(1, 20)]))
        elif r < 0.85:
            ops.append("7")
        else:
            ops.append("8")
    if rng.random() < 0.6:
        ops.append("3")
        for _ in range(rng.randint(0, 2)):
            ops.append(rng.choice(["2,4", "7", "8", "2,8"]))
    ops.append(rng.choice(["4", "5", "6", "6"]))
    while len(ops) < maxlen and rng.random() < 0.9:
        ops.append("7" if rng.random() < 0.85 else rng.choice(["2,4", "8", "3", "4", "5", "6"]))
    return fmt((minc, maxb, decl), mode, ops)


def abandoned(rng, n_random=300):
    """operation 10: the application abandons the payload (at every point of the delivery); the peer goes on writing
    the payload in pieces, then a PINGREQ; the handler completes at some point.  No readiness failure, no close: the
    connection must simply go on (the abandoned bytes go nowhere)."""
    out = []
    for cfg in ((4, 100, 16), (4, 8, 64), (0, 8, 16), (4, 2, 64), (8, 32768, 40), (1, 4, 24)):
        for mode in (0, 1):
            for first in (0, 4):
                pieces = ["2,4"] * ((cfg[2] - first + 3) // 4 + 1)
                for k in range(0, min(len(pieces), 5) + 1):
                    for polled in (False, True):
                        for done_first in (False, True):
                            ops = ["1,%d" % first] + (["7"] if polled else []) + pieces[:k] + ["10"] + pieces[k:]
                            ops += ["8", "9"] if done_first else ["9", "8"]
                            out.append(fmt(cfg, mode, ops))
    for _ in range(n_random):
        minc = rng.choice([0, 1, 4, 4, 8, 32])
        maxb = rng.choice([1, 2, 4, 8, 16, 64, 32768])
        decl = rng.choice([5, 16, 16, 24, 64, 300])
        ops = ["1,%d" % rng.choice([0, 1, 4, 8, rng.randint(0, 20)])]
        dropped = False
        for _k in range(rng.randint(2, 14)):
            r = rng.random()
            if r < 0.15 and not dropped:
                ops.append("10")
                dropped = True
            elif r < 0.35:
                ops.append("7")
            elif r < 0.42:
                ops.append("8")
            elif r < 0.5:
                ops.append("9")
            else:
                ops.append("2,%d" % rng.choice([1, 2, 4, 4, 8, 16, 64, 300]))
        if not dropped:
            ops.insert(rng.randint(1, len(ops)), "10")
        ops += ["2,300", "9", "8"]
        out.append(fmt((minc, maxb, decl), rng.choice([0, 1]), ops))
    return out


def all_cases(rng, tier="quick"):
    """(name, cases) parts; quick: sequences after `1,4` to length 4, full: to length 5"""
    full = tier != "quick"
    after_len = 5 if full else 4
    whole_len = 6 if full else 5
    n_random = 12000 if full else 1500
    after_full = exhaustive(["1,4"], AFTER, FULL_CFGS, after_len)
    after_other = exhaustive(["1,4"], AFTER + ["9"], OTHER_CFGS, after_len - 1)
    whole = exhaustive([], WHOLE, [(4, 2, 64), (4, 100, 16)], whole_len, modes=(0,)) + \
        exhaustive([], WHOLE, [(4, 2, 64)], whole_len - 1, modes=(1,))
    rnd = [random_case(rng, 20) for _ in range(n_random)]
    end = [random_ending(rng, 20) for _ in range(n_random)]
    return [("exhaustive-after-header-full-buffer<=%d" % after_len, after_full),
            ("exhaustive-after-header-roomy-buffer<=%d" % (after_len - 1), after_other),
            ("exhaustive-whole<=%d" % whole_len, whole),
            ("random-any<=20", rnd), ("random-ending<=20", end),
            ("abandoned-payload", abandoned(rng, 1500 if full else 300))]


if __name__ == "__main__":
    import sys
    rng = random.Random(int(sys.argv[1]) if len(sys.argv) > 1 else 1)
    for name, cs in all_cases(rng, sys.argv[2] if len(sys.argv) > 2 else "quick"):
        print("# %s: %d" % (name, len(cs)), file=sys.stderr)
        for c in cs:
            print(c)
