#!/usr/bin/env python3
"""mkcorpus.py -- (re)builds corpus/<engine>.txt from the replay files of earlier detections (replays/*.json, kind
"failing-input"): the minimised failing case of every seeded change that was ever caught, and of every alarm met
while building.  tools/check.py puts the corpus of a part's engine in front of the part's generated cases, so that a
detection does not depend on what the random generators happen to draw (DESIGN.md section 11.5).  Entries are
only ever added: an existing corpus line is kept even when its replay file is gone."""
import glob
import json
import os

ROOT = os.path.dirname(os.path.dirname(os.path.abspath(__file__)))
CORPUS = os.path.join(ROOT, "corpus")


def prune():
    """removes from the corpus every case listed in work/violations_*.txt (written by check.py under
    VERIF_LIST_VIOLATIONS=1 on the UNCHANGED tree): a minimised case that alarms on correct code is degenerate (it
    completes a handler that does not exist, has no operation at all ..), not a regression case"""
    drop = {}
    for p in glob.glob(os.path.join(ROOT, "work", "violations_*.txt")):
        for l in open(p):
            f = l.rstrip("\n").split("\t")
            if len(f) >= 2:
                drop.setdefault(f[0], set()).add(f[1])
        os.remove(p)
    n = 0
    for eng, cases in drop.items():
        p = os.path.join(CORPUS, eng + ".txt")
        if not os.path.exists(p):
            continue
        keep = []
        for l in open(p):
            if l.split("\t")[0].strip() in cases:
                n += 1
                # remembered, so that mkcorpus does not add it again
                with open(os.path.join(CORPUS, "degenerate.txt"), "a") as fd:
                    fd.write(eng + "\t" + l.split("\t")[0].strip() + "\n")
            else:
                keep.append(l)
        open(p, "w").write("".join(keep))
    print("pruned %d corpus cases" % n)


def degenerate():
    out = set()
    try:
        for l in open(os.path.join(CORPUS, "degenerate.txt")):
            f = l.rstrip("\n").split("\t")
            if len(f) == 2:
                out.add((f[0], f[1]))
    except FileNotFoundError:
        pass
    return out


def main():
    import sys
    if "--prune" in sys.argv:
        return prune()
    have = {}
    for p in glob.glob(os.path.join(CORPUS, "*.txt")):
        eng = os.path.basename(p)[:-4]
        if eng == "degenerate":
            continue
        have[eng] = [l.rstrip("\n") for l in open(p) if l.strip()]
    seen = {e: set(l.split("\t")[0] for l in ls) for e, ls in have.items()}
    bad = degenerate()
    added = 0
    for p in sorted(glob.glob(os.path.join(ROOT, "replays", "*.json"))):
        try:
            d = json.load(open(p))
        except ValueError:
            continue
        if d.get("kind") != "failing-input" or not d.get("engine") or not d.get("case"):
            continue
        eng, case = d["engine"], d["case"]
        if len(case) > 4000 or "\t" in case or "\n" in case:
            continue
        if case in seen.setdefault(eng, set()) or (eng, case) in bad:
            continue
        seen[eng].add(case)
        note = "%s %s" % (d.get("property", os.path.basename(p).split("-")[0]), (d.get("clause") or "")[:100].replace("\t", " "))
        have.setdefault(eng, []).append(case + "\t# " + note)
        added += 1
    os.makedirs(CORPUS, exist_ok=True)
    for eng, ls in have.items():
        with open(os.path.join(CORPUS, eng + ".txt"), "w") as f:
            f.write("\n".join(ls) + "\n")
    print("corpus: %d engines, %d cases (%d new)" % (len(have), sum(len(v) for v in have.values()), added))


if __name__ == "__main__":
    main()
