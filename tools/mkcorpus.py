#!/usr/bin/env python3
"""mkcorpus.py -- (re)builds corpus/<engine>.txt from the replay files of earlier detections (replays/*.json, kind
"failing-input"): the minimised failing case of every seeded change that was ever caught, and of every alarm met
while building.  tools/check.py puts the corpus of a part's engine in front of the part's generated cases, so that a
detection does not depend on what the random generators happen to draw (DESIGN.md section 11.5).  Entries are
only ever added: an existing corpus line is kept even when its replay file is gone."""
import glob
import json
import os

ROOT = os.path.dirname(os.path.dirname(os.path.abspath(__file__)))
CORPUS = os.path.join(ROOT, "corpus")


def main():
    have = {}
    for p in glob.glob(os.path.join(CORPUS, "*.txt")):
        eng = os.path.basename(p)[:-4]
        have[eng] = [l.rstrip("\n") for l in open(p) if l.strip()]
    seen = {e: set(l.split("\t")[0] for l in ls) for e, ls in have.items()}
    added = 0
    for p in sorted(glob.glob(os.path.join(ROOT, "replays", "*.json"))):
        try:
            d = json.load(open(p))
        except ValueError:
            continue
        if d.get("kind") != "failing-input" or not d.get("engine") or not d.get("case"):
            continue
        eng, case = d["engine"], d["case"]
        if len(case) > 4000 or "\t" in case or "\n" in case:
            continue
        if case in seen.setdefault(eng, set()):
            continue
        seen[eng].add(case)
        note = "%s %s" % (d.get("property", os.path.basename(p).split("-")[0]), (d.get("clause") or "")[:100].replace("\t", " "))
        have.setdefault(eng, []).append(case + "\t# " + note)
        added += 1
    os.makedirs(CORPUS, exist_ok=True)
    for eng, ls in have.items():
        with open(os.path.join(CORPUS, eng + ".txt"), "w") as f:
            f.write("\n".join(ls) + "\n")
    print("corpus: %d engines, %d cases (%d new)" % (len(have), sum(len(v) for v in have.values()), added))


if __name__ == "__main__":
    main()
