#!/usr/bin/env python3
"""Differential run of the handshake model (coq/Model/EnginesHs.v through ocaml/driver, engine 38) against the
real servers (harness engine "hs").

usage: diff_hs.py [--seed N] [--suites first,connect,cuts,outcomes,limits,random] [--no-build] [--show K]
                  [--save DIR]
exit status 0 iff every observation is identical line by line."""
import argparse
import collections
import os
import random
import sys
import time

sys.path.insert(0, os.path.dirname(os.path.abspath(__file__)))
import common as C  # noqa: E402
import gen_hs as G  # noqa: E402


def classify(case, obs):
    """coarse classification of an observation (what the suites exercised)"""
    if obs == C.PANIC:
        return "panic"
    if obs == "97":
        return "not modelled"
    f = obs.split(";")
    o0 = [int(x) for x in f[0].split(",")]
    o3 = [int(x) for x in f[3].split(",")]
    hs = o0[0]
    wrote = f[2].split("999")[1].strip(",") if "999" in f[2] else ""
    if hs == 0:
        return "no handshake: rk %d%s" % (o3[3], " ptype %d" % o3[4] if o3[4] else "")
    if not wrote:
        return "hs%d: no CONNACK, rk %d" % (hs, o3[3])
    w = [int(x) for x in wrote.split(",")]
    code = w[3] if len(w) > 3 else -1
    if o3[2] == 0:
        return "hs%d: accepted" % hs
    return "hs%d: CONNACK %d then closed (rk %d)" % (hs, code, o3[3])


def main():
    ap = argparse.ArgumentParser()
    ap.add_argument("--seed", type=int, default=1)
    ap.add_argument("--suites", default=",".join(G.SUITES))
    ap.add_argument("--no-build", action="store_true")
    ap.add_argument("--show", type=int, default=5)
    ap.add_argument("--save")
    a = ap.parse_args()
    if not a.no_build:
        ok, lg = C.build_harness()
        if not ok:
            print("harness build failed:\n" + lg)
            return 2
        ok, lg = C.build_driver()
        if not ok:
            print("driver build failed:\n" + lg)
            return 2
    rng = random.Random(a.seed)
    bad = 0
    total = 0
    for name in a.suites.split(","):
        cases = G.SUITES[name](rng)
        t0 = time.time()
        impl = C.run_harness("hs", cases)
        model = C.run_model("hs", cases)
        total += len(cases)
        dis = [i for i, (x, y) in enumerate(zip(impl, model)) if x != y]
        cnt = collections.Counter(classify(c, o) for c, o in zip(cases, impl))
        print("%-9s %5d cases, %d differ, %.1fs" % (name, len(cases), len(dis), time.time() - t0))
        for k, v in sorted(cnt.items(), key=lambda kv: -kv[1])[:14]:
            print("      %5d  %s" % (v, k))
        for i in dis[:a.show]:
            print("   DIFF case  %s\n        impl  %s\n        model %s" % (cases[i], impl[i], model[i]))
        bad += len(dis)
        if a.save:
            os.makedirs(a.save, exist_ok=True)
            with open(os.path.join(a.save, "hs_%s.cases" % name), "w") as f:
                f.write("\n".join(cases) + "\n")
            with open(os.path.join(a.save, "hs_%s.impl" % name), "w") as f:
                f.write("\n".join(impl) + "\n")
    print("total %d cases, %d differ" % (total, bad))
    return 0 if bad == 0 else 1


if __name__ == "__main__":
    sys.exit(main())
