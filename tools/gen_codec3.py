"""Case generators for the MQTT v3.1.1 codec engines dec3 / enc3 / varint.

Everything here is a pure function of a `random.Random` and a size knob and returns a list of case
lines (text form of the engines: fields separated by ';', numbers by ',').

The MQTT encoder in this file is written from the MQTT 3.1.1 specification (OASIS, sections 2 and 3),
independently of the Rust crate and of the Coq model.  Packets are python dicts:

  {"k": "connect", "clean": bool, "keep_alive": int, "will": None | {"qos","retain","topic","message"},
   "client_id": bytes, "username": None|bytes, "password": None|bytes}
  {"k": "connack", "code": 0..6, "sp": bool}
  {"k": "puback"|"pubrec"|"pubrel"|"pubcomp"|"unsuback", "id": int}
  {"k": "subscribe", "id": int, "filters": [(bytes, qos)]}
  {"k": "suback", "id": int, "status": [0|1|2|128]}
  {"k": "unsubscribe", "id": int, "filters": [bytes]}
  {"k": "pingreq"|"pingresp"|"disconnect"}
  {"k": "publish", "dup","retain","qos","topic": bytes,"id": None|int,"payload": bytes}

Dump syntax (what dec3 prints and enc3 reads): see coq/Model/EnginesV3.v.
"""
import itertools

# ------------------------------------------------------------------ text form
def line(fields):
    return ";".join(",".join(str(n) for n in f) for f in fields)


# ------------------------------------------------------------------ MQTT 3.1.1 encoder (from the spec)
def vbi(n):
    """2.2.3 Remaining Length"""
    assert 0 <= n <= 268435455
    out = bytearray()
    while True:
        d = n % 128
        n //= 128
        if n > 0:
            d |= 128
        out.append(d)
        if n == 0:
            return bytes(out)


def u16(n):
    return bytes([(n >> 8) & 255, n & 255])


def mstr(b):
    """1.5.3 UTF-8 encoded strings / binary data with a two byte length prefix"""
    assert len(b) <= 65535
    return u16(len(b)) + b


TYPE = {"connect": 1, "connack": 2, "publish": 3, "puback": 4, "pubrec": 5, "pubrel": 6, "pubcomp": 7,
        "subscribe": 8, "suback": 9, "unsubscribe": 10, "unsuback": 11, "pingreq": 12, "pingresp": 13,
        "disconnect": 14}
FLAGS = {"pubrel": 2, "subscribe": 2, "unsubscribe": 2}


class Marked:
    """variable header + payload under construction, remembering where the length fields are"""

    def __init__(self):
        self.b = bytearray()
        self.marks = []  # offsets (in the body) of two byte length prefixes

    def str(self, s):
        self.marks.append(len(self.b))
        self.b += mstr(s)

    def raw(self, s):
        self.b += s


def body_of(p):
    m = Marked()
    k = p["k"]
    if k == "connect":
        m.str(b"MQTT")
        m.raw(bytes([4]))
        fl = 0
        if p["username"] is not None:
            fl |= 0x80
        if p["password"] is not None:
            fl |= 0x40
        w = p["will"]
        if w is not None:
            fl |= 0x04 | (w["qos"] << 3) | (0x20 if w["retain"] else 0)
        if p["clean"]:
            fl |= 0x02
        m.raw(bytes([fl]))
        m.raw(u16(p["keep_alive"]))
        m.str(p["client_id"])
        if w is not None:
            m.str(w["topic"])
            m.str(w["message"])
        if p["username"] is not None:
            m.str(p["username"])
        if p["password"] is not None:
            m.str(p["password"])
    elif k == "connack":
        m.raw(bytes([1 if p["sp"] else 0, p["code"]]))
    elif k in ("puback", "pubrec", "pubrel", "pubcomp", "unsuback"):
        m.raw(u16(p["id"]))
    elif k == "subscribe":
        m.raw(u16(p["id"]))
        for f, q in p["filters"]:
            m.str(f)
            m.raw(bytes([q]))
    elif k == "suback":
        m.raw(u16(p["id"]))
        m.raw(bytes(p["status"]))
    elif k == "unsubscribe":
        m.raw(u16(p["id"]))
        for f in p["filters"]:
            m.str(f)
    elif k == "publish":
        m.str(p["topic"])
        if p["qos"] > 0:
            m.raw(u16(p["id"]))
        m.raw(p["payload"])
    elif k in ("pingreq", "pingresp", "disconnect"):
        pass
    else:
        raise ValueError(k)
    return m


def first_byte(p):
    k = p["k"]
    if k == "publish":
        return 0x30 | (8 if p["dup"] else 0) | (p["qos"] << 1) | (1 if p["retain"] else 0)
    return (TYPE[k] << 4) | FLAGS.get(k, 0)


def encode(p):
    m = body_of(p)
    return bytes([first_byte(p)]) + vbi(len(m.b)) + bytes(m.b)


def encode_marked(p):
    """(frame bytes, remaining length, offset of the body, offsets of the u16 length prefixes in the frame)"""
    m = body_of(p)
    hdr = bytes([first_byte(p)]) + vbi(len(m.b))
    return hdr + bytes(m.b), len(m.b), len(hdr), [len(hdr) + o for o in m.marks]


# ------------------------------------------------------------------ dump syntax
def d_str(b):
    return [len(b)] + list(b)


def d_opt(x, f):
    return [0] if x is None else [1] + f(x)


def dump_publish(p, payload_size=None):
    return ([int(p["dup"]), int(p["retain"]), p["qos"]] + d_str(p["topic"]) + d_opt(p["id"], lambda i: [i])
            + [len(p["payload"]) if payload_size is None else payload_size])


def dump_packet(p):
    k = p["k"]
    if k == "connect":
        w = p["will"]
        return ([1, int(p["clean"]), p["keep_alive"]]
                + d_opt(w, lambda w: [w["qos"], int(w["retain"])] + d_str(w["topic"]) + d_str(w["message"]))
                + d_str(p["client_id"]) + d_opt(p["username"], d_str) + d_opt(p["password"], d_str))
    if k == "connack":
        return [2, p["code"], int(p["sp"])]
    if k in ("puback", "pubrec", "pubrel", "pubcomp"):
        return [TYPE[k], p["id"]]
    if k == "subscribe":
        out = [8, p["id"], len(p["filters"])]
        for f, q in p["filters"]:
            out += d_str(f) + [q]
        return out
    if k == "suback":
        return [9, p["id"], len(p["status"])] + list(p["status"])
    if k == "unsubscribe":
        out = [10, p["id"], len(p["filters"])]
        for f in p["filters"]:
            out += d_str(f)
        return out
    if k == "unsuback":
        return [11, p["id"]]
    return [TYPE[k]]


def expected_dec_item(p):
    """the dec3 item field a conforming decoder produces for the frame of p delivered in one piece"""
    rl = len(body_of(p).b)
    if p["k"] == "publish":
        return [2, rl] + dump_publish(p) + [len(p["payload"])] + list(p["payload"])
    return [1, rl] + dump_packet(p)


def enc_op(p, inline=None):
    """enc3 operation field for p; inline (publish only): None = Publish(pkt, None), else number of
    payload bytes passed with the packet"""
    if p["k"] == "publish":
        if inline is None:
            return [2, 0] + dump_publish(p)
        return [2, 1] + dump_publish(p) + list(p["payload"][:inline])
    return [1] + dump_packet(p)


# ------------------------------------------------------------------ random material
CHARS = ["a", "b", "/", "+", "#", "$", " ", "\x00", "\x7f", "\u0080", "\u00e9", "\u07ff", "\u0800", "\u20ac",
         "\ud7ff", "\ue000", "\uffff", "\U00010000", "\U0001d11e", "\U0010ffff", "\u65e5", "z"]
STR_LENS = [0, 1, 2, 127, 128, 200]
BIG_LENS = [16383, 16384, 65535]
PAYLOAD_LENS = [0, 1, 2, 3, 5, 127, 128, 129]
BIG_PAYLOADS = [16383, 16384, 16385, 20000]


def rand_utf8(rng, n):
    """valid UTF-8 of exactly n bytes"""
    out = bytearray()
    while len(out) < n:
        c = rng.choice(CHARS).encode("utf-8") if rng.random() < 0.4 else bytes([rng.randint(0x20, 0x7e)])
        if len(out) + len(c) <= n:
            out += c
    return bytes(out)


def rand_bytes(rng, n):
    return bytes(rng.getrandbits(8) for _ in range(n))


def str_len(rng, big=False):
    if big and rng.random() < 0.5:
        return rng.choice(BIG_LENS)
    r = rng.random()
    if r < 0.6:
        return rng.choice([0, 1, 2, 3, 5])
    return rng.choice(STR_LENS)


def pid(rng):
    return rng.choice([1, 2, 255, 256, 0x1234, 65535, rng.randint(1, 65535)])


KINDS = ["connect", "connack", "publish", "puback", "pubrec", "pubrel", "pubcomp", "subscribe", "suback",
         "unsubscribe", "unsuback", "pingreq", "pingresp", "disconnect"]


def rand_packet(rng, kind=None, big=False, payload_len=None):
    k = kind or rng.choice(KINDS)
    if k == "connect":
        clean = rng.random() < 0.5
        cid = rand_utf8(rng, str_len(rng, big))
        if not cid:
            clean = True  # 3.1.3-7 zero length client id needs clean session
        will = None
        if rng.random() < 0.5:
            will = {"qos": rng.randint(0, 2), "retain": rng.random() < 0.5,
                    "topic": rand_utf8(rng, str_len(rng, big)), "message": rand_bytes(rng, str_len(rng, big))}
        return {"k": k, "clean": clean, "keep_alive": rng.choice([0, 1, 60, 255, 256, 65535]), "will": will,
                "client_id": cid,
                "username": rand_utf8(rng, str_len(rng, big)) if rng.random() < 0.5 else None,
                "password": rand_bytes(rng, str_len(rng, big)) if rng.random() < 0.5 else None}
    if k == "connack":
        return {"k": k, "code": rng.randint(0, 6), "sp": rng.random() < 0.5}
    if k in ("puback", "pubrec", "pubrel", "pubcomp", "unsuback"):
        return {"k": k, "id": pid(rng)}
    if k == "subscribe":
        n = rng.randint(0, 3)
        return {"k": k, "id": pid(rng),
                "filters": [(rand_utf8(rng, str_len(rng, big and i == 0)), rng.randint(0, 2)) for i in range(n)]}
    if k == "suback":
        n = rng.randint(0, 3)
        return {"k": k, "id": pid(rng), "status": [rng.choice([0, 1, 2, 128]) for _ in range(n)]}
    if k == "unsubscribe":
        n = rng.randint(0, 3)
        return {"k": k, "id": pid(rng), "filters": [rand_utf8(rng, str_len(rng, big and i == 0)) for i in range(n)]}
    if k == "publish":
        qos = rng.randint(0, 2)
        if payload_len is None:
            payload_len = rng.choice(BIG_PAYLOADS) if big else rng.choice(PAYLOAD_LENS)
        return {"k": k, "dup": rng.random() < 0.5, "retain": rng.random() < 0.5, "qos": qos,
                "topic": rand_utf8(rng, str_len(rng, big)), "id": pid(rng) if qos else None,
                "payload": rand_bytes(rng, payload_len)}
    return {"k": k}


def all_shapes(rng):
    """one packet for every kind x every optional-field / enum combination (small strings)"""
    out = []
    for clean, will, user, pw in itertools.product([False, True], [None, 0, 1, 2], [False, True], [False, True]):
        for wret in ([False, True] if will is not None else [False]):
            out.append({"k": "connect", "clean": clean, "keep_alive": rng.choice([0, 60, 65535]),
                        "will": None if will is None else {"qos": will, "retain": wret,
                                                           "topic": rand_utf8(rng, rng.choice([0, 1, 5])),
                                                           "message": rand_bytes(rng, rng.choice([0, 1, 5]))},
                        "client_id": rand_utf8(rng, rng.choice([1, 2, 23])),
                        "username": rand_utf8(rng, rng.choice([0, 4])) if user else None,
                        "password": rand_bytes(rng, rng.choice([0, 4])) if pw else None})
    out.append({"k": "connect", "clean": True, "keep_alive": 0, "will": None, "client_id": b"", "username": None,
                "password": None})
    for code in range(7):
        for sp in (False, True):
            out.append({"k": "connack", "code": code, "sp": sp})
    for k in ("puback", "pubrec", "pubrel", "pubcomp", "unsuback"):
        for i in (1, 255, 256, 65535):
            out.append({"k": k, "id": i})
    for n in range(4):
        for qs in itertools.product([0, 1, 2], repeat=n):
            out.append({"k": "subscribe", "id": pid(rng), "filters": [(rand_utf8(rng, rng.choice([0, 1, 3])), q) for q in qs]})
        out.append({"k": "unsubscribe", "id": pid(rng), "filters": [rand_utf8(rng, rng.choice([0, 1, 3])) for _ in range(n)]})
        for st in itertools.product([0, 1, 2, 128], repeat=n):
            out.append({"k": "suback", "id": pid(rng), "status": list(st)})
    for k in ("pingreq", "pingresp", "disconnect"):
        out.append({"k": k})
    for dup, retain, qos in itertools.product([False, True], [False, True], [0, 1, 2]):
        for pl in (0, 1, 2, 127, 128):
            out.append({"k": "publish", "dup": dup, "retain": retain, "qos": qos,
                        "topic": rand_utf8(rng, rng.choice([0, 1, 5])), "id": pid(rng) if qos else None,
                        "payload": rand_bytes(rng, pl)})
    return out


# ------------------------------------------------------------------ dec3 cases
def dec_case(stream, cuts=(), max_size=0, min_chunk=0):
    return line([[max_size, min_chunk], list(cuts), list(stream)])


def cut_sets(rng, n, exhaustive_limit=48, byte_limit=300):
    """cut sets for a stream of n bytes: none, random, byte-at-a-time, each single cut"""
    out = [()]
    for _ in range(2):
        k = rng.randint(1, 4)
        out.append(tuple(sorted(rng.randint(0, n) for _ in range(k))))
    if n <= byte_limit:
        out.append(tuple(range(1, n)))
    if n <= exhaustive_limit:
        out += [(i,) for i in range(0, n + 1)]
    return out


def gen_dec_valid(rng, size):
    """(a) valid frames, 1-3 per stream, all cut strategies, assorted min_chunk / max_size"""
    cases = []
    shapes = all_shapes(rng)
    pool = list(shapes)
    for _ in range(size):
        pool.append(rand_packet(rng))
    for _ in range(max(2, size // 40)):
        pool.append(rand_packet(rng, big=True))
    for _ in range(max(2, size // 40)):
        pool.append(rand_packet(rng, "publish", payload_len=rng.choice(BIG_PAYLOADS)))
    for i, p in enumerate(pool):
        frames = [p]
        if i >= len(shapes) or rng.random() < 0.3:
            for _ in range(rng.choice([0, 0, 1, 2])):
                frames.append(rand_packet(rng))
        stream = b"".join(encode(f) for f in frames)
        rls = [len(body_of(f).b) for f in frames]
        small = len(stream) <= 400
        for cuts in cut_sets(rng, len(stream), exhaustive_limit=40 if small else 0, byte_limit=300):
            mc = rng.choice([0, 0, 1, 4, 4, 100, 70000])
            ms = rng.choice([0, 0, 0, max(rls), max(rls) + 1, 268435455])
            cases.append(dec_case(stream, cuts, ms, mc))
    return cases


def all_short_streams():
    """(b) every byte string of length <= 2"""
    out = [dec_case(b"")]
    out += [dec_case(bytes([a])) for a in range(256)]
    out += [dec_case(bytes([a, b])) for a in range(256) for b in range(256)]
    return out


def revbi(frame, new_rl):
    """frame with its remaining length field rewritten (body untouched)"""
    i = 1
    while frame[i] & 128:
        i += 1
    return frame[:1] + vbi(new_rl) + frame[i + 1:]


def mutants(rng, p, limit=None):
    """hostile variants of the frame of p"""
    frame, rl, off, marks = encode_marked(p)
    out = []
    # remaining length inflated / deflated / absurd
    for nrl in {0, 1, 2, rl - 3, rl - 2, rl - 1, rl + 1, rl + 2, rl + 100, 127, 128, 16383, 16384, 268435455}:
        if 0 <= nrl <= 268435455 and nrl != rl:
            out.append(revbi(frame, nrl))
    # non-minimal and over-long remaining length encodings
    out.append(frame[:1] + bytes([0x80 | (rl & 127), 0x80 | ((rl >> 7) & 127), (rl >> 14) & 127]) + frame[off:])
    out.append(frame[:1] + b"\xff\xff\xff\xff\x01" + frame[off:])
    out.append(frame[:1] + b"\x80\x80\x80\x80" + frame[off:])
    # every two byte length prefix inflated / deflated
    for m in marks:
        v = (frame[m] << 8) | frame[m + 1]
        for nv in {0, v - 2, v - 1, v + 1, v + 2, v + 256, 0xFFFF, rl, rl + 1, max(0, rl - 2)}:
            if 0 <= nv <= 0xFFFF and nv != v:
                out.append(frame[:m] + u16(nv) + frame[m + 2:])
                # same, with the remaining length adjusted to the new claim
                if 0 <= rl + nv - v <= 268435455 and rng.random() < 0.3:
                    out.append(revbi(frame[:m] + u16(nv) + frame[m + 2:], rl + nv - v))
    # truncation at every offset
    for i in range(0, min(len(frame), 600)):
        out.append(frame[:i])
    # bit flips in the first 12 bytes
    for i in range(min(12, len(frame))):
        for bit in range(8):
            out.append(frame[:i] + bytes([frame[i] ^ (1 << bit)]) + frame[i + 1:])
    # random byte replaced / inserted / deleted
    for _ in range(6):
        if len(frame) > 2:
            i = rng.randrange(len(frame))
            out.append(frame[:i] + bytes([rng.getrandbits(8)]) + frame[i + 1:])
            out.append(frame[:i] + bytes([rng.getrandbits(8)]) + frame[i:])
            out.append(frame[:i] + frame[i + 1:])
    if limit is not None and len(out) > limit:
        out = rng.sample(out, limit)
    return out, rl


def configs(rl):
    ms = [0, 1, max(0, rl - 1), rl, rl + 1]
    return [(a, b) for a in ms for b in (0, 1, 4)]


def gen_dec_hostile(rng, size):
    """(b) mutants of valid frames under all (max_size, min_chunk) configurations, spliced frames,
    first byte sweeps, crafted frames"""
    cases = []
    pool = all_shapes(rng)
    rng.shuffle(pool)
    pool = pool[:max(20, size // 4)] + [rand_packet(rng) for _ in range(size)]
    for p in pool:
        ms, rl = mutants(rng, p, limit=120)
        for m in ms:
            cfg = rng.choice(configs(rl))
            cuts = ()
            r = rng.random()
            if r < 0.2 and len(m) <= 300:
                cuts = tuple(range(1, len(m)))
            elif r < 0.5:
                cuts = tuple(sorted(rng.randint(0, len(m)) for _ in range(rng.randint(1, 3))))
            cases.append(dec_case(m, cuts, cfg[0], cfg[1]))
        # the unmodified frame under every configuration
        frame = encode(p)
        for cfg in configs(rl):
            cases.append(dec_case(frame + encode(rand_packet(rng)), (), cfg[0], cfg[1]))
            if len(frame) <= 200:
                cases.append(dec_case(frame, tuple(range(1, len(frame))), cfg[0], cfg[1]))
    # two frames spliced
    for _ in range(size * 4):
        a = encode(rand_packet(rng))
        b = encode(rand_packet(rng))
        i = rng.randint(0, len(a))
        j = rng.randint(0, len(b))
        s = a[:i] + b[j:]
        cuts = tuple(sorted(rng.randint(0, len(s)) for _ in range(rng.randint(0, 2))))
        cases.append(dec_case(s, cuts, rng.choice([0, 0, 5, 20]), rng.choice([0, 1, 4])))
    # first byte sweep
    for p in [rand_packet(rng, k) for k in ("connect", "publish", "puback", "subscribe", "pingreq")]:
        f = encode(p)
        for b in range(256):
            cases.append(dec_case(bytes([b]) + f[1:] + b"\xc0\x00", (), 0, rng.choice([0, 1, 4])))
    cases += crafted()
    return cases


def crafted():
    out = []
    S = lambda *xs: out.append(dec_case(bytes(xs)))  # noqa: E731
    # PUBLISH with remaining length shorter than its header (fixed: InvalidLength)
    S(0x30, 2, 0, 5, 1, 2, 3, 4, 5)
    S(0x32, 3, 0, 1, 97, 0, 1)
    S(0x32, 4, 0, 0, 0, 0)          # packet id 0
    S(0x36, 4, 0, 0, 0, 1)          # QoS 3
    S(0x30, 0)
    S(0x30, 1, 0)
    S(0x30, 2, 0, 0)
    S(0x3b, 5, 0, 1, 97, 0, 7)
    # CONNECT variants
    base = [0, 4, 77, 81, 84, 84, 4]
    for fl in range(256):
        body = base + [fl, 0, 60, 0, 1, 97] + [0, 1, 116, 0, 1, 109] + [0, 1, 117] + [0, 1, 112]
        out.append(dec_case(bytes([0x10, len(body)] + body)))
        body = base + [fl, 0, 60, 0, 0]
        out.append(dec_case(bytes([0x10, len(body)] + body)))
    for name in ([0, 4, 77, 81, 84, 83], [0, 3, 77, 81, 84, 84], [0, 6, 77, 81, 73, 115, 100, 112], [0, 4, 109, 113, 116, 116]):
        body = name + [4, 2, 0, 60, 0, 1, 97]
        out.append(dec_case(bytes([0x10, len(body)] + body)))
    for lvl in (0, 3, 5, 255):
        body = [0, 4, 77, 81, 84, 84, lvl, 2, 0, 60, 0, 1, 97]
        out.append(dec_case(bytes([0x10, len(body)] + body)))
    for n in range(0, 14):
        body = ([0, 4, 77, 81, 84, 84, 4, 2, 0, 60, 0, 0] + [1, 2, 3])[:n]
        out.append(dec_case(bytes([0x10, len(body)] + body)))
    # CONNACK
    for fl in (0, 1, 2, 3, 128, 255):
        for code in (0, 5, 6, 7, 128, 255):
            S(0x20, 2, fl, code)
    S(0x20, 1, 0)
    S(0x20, 0)
    S(0x20, 3, 0, 0, 9)
    # acks
    for t in (0x40, 0x50, 0x62, 0x70, 0xb0):
        S(t, 2, 0, 0)
        S(t, 2, 0, 1)
        S(t, 1, 1)
        S(t, 0)
        S(t, 3, 0, 1, 2)
    # SUBSCRIBE / SUBACK / UNSUBSCRIBE
    for q in range(256):
        S(0x82, 6, 0, 1, 0, 1, 97, q)
        S(0x90, 3, 0, 1, q)
    S(0x82, 2, 0, 1)
    S(0x82, 5, 0, 1, 0, 1, 97)
    S(0x82, 4, 0, 1, 0, 1)
    S(0x82, 3, 0, 1, 0)
    S(0x82, 2, 0, 0)
    S(0xa2, 2, 0, 1)
    S(0xa2, 2, 0, 0)
    S(0xa2, 5, 0, 1, 0, 2, 97)
    S(0xa2, 3, 0, 1, 0)
    S(0x90, 2, 0, 1)
    S(0x90, 2, 0, 0)
    S(0x90, 1, 0)
    # PINGREQ etc. with a body; reserved types
    for t in (0xc0, 0xd0, 0xe0, 0x00, 0xf0, 0xc1, 0xe2):
        S(t, 0)
        S(t, 2, 1, 2)
        S(t, 0x80, 0)
        S(t, 0xff, 0xff, 0xff, 0x7f)
        S(t, 0xff, 0xff, 0xff, 0xff)
        S(t, 0xff, 0xff, 0xff)
    # max_size applies before anything else
    for ms in (1, 2, 3):
        out.append(dec_case(bytes([0xc0, 2, 1, 2]), (), ms, 0))
        out.append(dec_case(bytes([0x30, 3, 0, 1, 97]), (), ms, 0))
        out.append(dec_case(bytes([0x05, 0x83, 0x00]), (), ms, 0))
    return out


UTF8_ALPHABET = [0x00, 0x41, 0x7f, 0x80, 0x8f, 0x90, 0x9f, 0xa0, 0xbf, 0xc0, 0xc1, 0xc2, 0xdf, 0xe0, 0xe1, 0xec, 0xed,
                 0xee, 0xef, 0xf0, 0xf1, 0xf3, 0xf4, 0xf5, 0xff]


def gen_dec_utf8(rng, size):
    """string fields carrying every byte sequence of length <= 3 over the UTF-8 boundary alphabet,
    plus random length 4 ones, as PUBLISH topics / UNSUBSCRIBE filters"""
    seqs = [()]
    for n in (1, 2, 3):
        seqs += list(itertools.product(UTF8_ALPHABET, repeat=n))
    for _ in range(size * 20):
        seqs.append(tuple(rng.choice(UTF8_ALPHABET) for _ in range(4)))
    for _ in range(size * 4):
        # a valid character with one byte perturbed, embedded in ascii
        c = bytearray(rng.choice(CHARS).encode("utf-8"))
        i = rng.randrange(len(c))
        c[i] = rng.choice(UTF8_ALPHABET)
        seqs.append(tuple(b"a" + bytes(c) + b"b"))
    out = []
    for s in seqs:
        s = bytes(s)
        if rng.random() < 0.5:
            body = mstr(s) + b"x"
            out.append(dec_case(bytes([0x30]) + vbi(len(body)) + body))
        else:
            body = u16(7) + mstr(s)
            out.append(dec_case(bytes([0xa2]) + vbi(len(body)) + body))
    return out


def gen_dec_payload(rng, size):
    """streamed PUBLISH payloads against min_chunk: every delivery pattern of small payloads"""
    out = []
    for _ in range(size):
        p = rand_packet(rng, "publish", payload_len=rng.choice([0, 1, 2, 3, 4, 5, 8, 9, 17]))
        p["topic"] = rand_utf8(rng, rng.choice([0, 1, 3]))
        tail = encode(rand_packet(rng)) if rng.random() < 0.5 else b""
        s = encode(p) + tail
        for mc in (0, 1, 2, 4, 5, 8, 1000):
            out.append(dec_case(s, tuple(range(1, len(s))), 0, mc))
            k = rng.randint(1, 4)
            out.append(dec_case(s, tuple(sorted(rng.randint(0, len(s)) for _ in range(k))), 0, mc))
            out.append(dec_case(s, (), 0, mc))
    return out


def gen_dec(rng, size):
    """all dec3 parts; size ~ number of random base packets per part"""
    return (gen_dec_valid(rng, size) + all_short_streams() + gen_dec_hostile(rng, size) + gen_dec_utf8(rng, size)
            + gen_dec_payload(rng, size))


# ------------------------------------------------------------------ enc3 cases
def enc_case(max_size, ops):
    return line([[max_size]] + ops)


def gen_enc_valid(rng, size):
    """(a) every valid packet as a single Encoded::Packet / Encoded::Publish(full inline payload), and
    sequences of 2-4 of them on one codec"""
    out = []
    pool = all_shapes(rng) + [rand_packet(rng) for _ in range(size)]
    pool += [rand_packet(rng, big=True) for _ in range(max(2, size // 60))]
    for p in pool:
        inline = len(p["payload"]) if p["k"] == "publish" else None
        out.append(enc_case(0, [enc_op(p, inline)]))
    for _ in range(size):
        ops = []
        for _ in range(rng.randint(2, 4)):
            p = rand_packet(rng)
            ops.append(enc_op(p, len(p["payload"]) if p["k"] == "publish" else None))
        out.append(enc_case(rng.choice([0, 0, 1000, 268435455]), ops))
    return out


def chunks_of(rng, data):
    out = []
    i = 0
    while i < len(data):
        k = rng.randint(1, max(1, len(data) - i))
        out.append([3] + list(data[i:i + k]))
        i += k
    return out


def gen_enc_ops(rng, size):
    """(c) operation sequences: streamed payloads, protocol misuse, invalid values, size limits"""
    out = []
    for _ in range(size):
        p = rand_packet(rng, "publish", payload_len=rng.choice([0, 1, 2, 3, 5, 9, 127, 128, 300]))
        n = len(p["payload"])
        size_all = len(body_of(p).b)
        mode = rng.randrange(12)
        ms = rng.choice([0, 0, 0, size_all, size_all + 1, 268435455])
        other = enc_op(rand_packet(rng, rng.choice(["puback", "pingreq", "connack", "subscribe", "connect"])))
        if mode == 0:      # no inline payload, then exact chunks, then a packet
            ops = [enc_op(p)] + chunks_of(rng, p["payload"]) + [other]
        elif mode == 1:    # partial inline payload, then the rest
            k = rng.randint(0, n)
            ops = [enc_op(p, k)] + chunks_of(rng, p["payload"][k:]) + [other]
        elif mode == 2:    # chunk too long
            k = rng.randint(0, n)
            ops = [enc_op(p, k), [3] + list(p["payload"][k:]) + [1], other] + chunks_of(rng, p["payload"][k:]) + [other]
        elif mode == 3:    # short payload, then a packet although more payload is due
            k = rng.randint(0, max(0, n - 1))
            ops = [enc_op(p, k), other, [3] + list(p["payload"][k:]), other]
        elif mode == 4:    # chunk without a publish; empty chunk
            ops = [[3, 1, 2, 3], [3], other, enc_op(p, n), [3], [3, 9]]
        elif mode == 5:    # a second publish while payload is due
            q = rand_packet(rng, "publish", payload_len=rng.choice([0, 2, 5]))
            ops = [enc_op(p), enc_op(q, len(q["payload"])), [3] + list(p["payload"]), other]
        elif mode == 6:    # QoS 0 with a packet id / QoS > 0 without
            bad = dict(p)
            if p["qos"] == 0:
                bad["id"] = pid(rng)
            else:
                bad["id"] = None
            ops = [other, enc_op(bad, n), other, enc_op(p, n)]
        elif mode == 7:    # max_size below / at / above the content size
            ms = rng.choice([1, max(1, size_all - 1), size_all, size_all + 1])
            ops = [enc_op(p, n), other, enc_op(p), other]
        elif mode == 8:    # inline payload longer than the declared payload size
            d = dump_publish(p, payload_size=rng.randint(0, n)) + list(p["payload"])
            ops = [other, [2, 1] + d, other]
        elif mode == 9:    # declared payload size far beyond the inline part, no chunks follow
            d = dump_publish(p, payload_size=n + rng.choice([1, 2, 1000, 70000]))
            ops = [[2, 1] + d + list(p["payload"]), other, [3] + [7] * 1, other]
        elif mode == 10:   # empty inline buffer variants
            ops = [enc_op(p, 0)] + chunks_of(rng, p["payload"]) + [[3], other]
        else:              # several publishes back to back with inline payloads, tiny max_size in between
            ops = []
            for _ in range(3):
                q = rand_packet(rng, "publish", payload_len=rng.choice([0, 1, 4]))
                ops.append(enc_op(q, len(q["payload"])))
            ms = rng.choice([0, 5, 8, 12])
        out.append(enc_case(ms, ops))
    out += enc_crafted(rng)
    return out


def enc_crafted(rng):
    out = []
    ping = [1, 12]
    long_s = b"t" * 65536
    ok_s = b"u" * 65535
    # topic / strings longer than 65535: header bytes are written before the failure -> rollback
    for qos in (0, 1):
        p = {"k": "publish", "dup": False, "retain": False, "qos": qos, "topic": long_s, "id": 7 if qos else None,
             "payload": b"xy"}
        out.append(enc_case(0, [ping, enc_op(p, 2), ping, [3, 1]]))
        p = dict(p, topic=ok_s)
        out.append(enc_case(0, [ping, enc_op(p, 2), ping]))
    c = {"k": "connect", "clean": True, "keep_alive": 60, "will": None, "client_id": b"cid", "username": None,
         "password": None}
    for field in ("client_id", "username", "password"):
        out.append(enc_case(0, [ping, enc_op(dict(c, **{field: long_s})), ping]))
        out.append(enc_case(0, [ping, enc_op(dict(c, **{field: ok_s})), ping]))
    for wf in ("topic", "message"):
        w = {"qos": 1, "retain": True, "topic": b"w", "message": b"m"}
        out.append(enc_case(0, [ping, enc_op(dict(c, will=dict(w, **{wf: long_s}), username=b"u")), ping]))
    out.append(enc_case(0, [ping, enc_op({"k": "subscribe", "id": 1, "filters": [(b"a", 1), (long_s, 2), (b"b", 0)]}), ping]))
    out.append(enc_case(0, [ping, enc_op({"k": "unsubscribe", "id": 1, "filters": [b"a", long_s, b"b"]}), ping]))
    # declared payload sizes at the limits of the remaining length field / of u32 (no payload bytes needed)
    for ps in (268435455, 268435454, 268435453, 268435452, 268435451, 268435450, 268435449, 2097151, 2097152,
               4294967295, 4294967294, 4294967293, 4294967292, 4294967291, 4294967290, 4294967289):
        for qos in (0, 1):
            for ms in (0, 268435455, 4294967295, 100):
                d = [0, 0, qos] + d_str(b"t") + ([1, 5] if qos else [0]) + [ps]
                out.append(enc_case(ms, [[2, 0] + d, [3, 1, 2, 3], ping]))
    # undecodable dumps -> 97
    out.append(enc_case(0, [[1, 3]]))
    out.append(enc_case(0, [[1, 4, 0]]))
    out.append(enc_case(0, [[1, 4, 65536]]))
    out.append(enc_case(0, [[1, 12, 0]]))
    out.append(enc_case(0, [[2, 0, 0, 0, 0, 1, 255, 0, 0]]))        # topic is not UTF-8
    out.append(enc_case(0, [[2, 0, 0, 0, 3, 0, 0, 0]]))             # QoS 3
    out.append(enc_case(0, [[2, 0, 0, 0, 0, 0, 0, 0, 1]]))          # trailing numbers without a buffer
    out.append(enc_case(0, [[]]))
    out.append(enc_case(4294967296, [ping]))
    out.append(enc_case(0, [[1, 8, 1, 5, 0]]))
    out.append(enc_case(0, [[1, 9, 1, 1, 3]]))
    out.append(enc_case(0, [[3, 256]]))
    return out


def gen_enc(rng, size):
    return gen_enc_valid(rng, size) + gen_enc_ops(rng, size)


# ------------------------------------------------------------------ varint cases
def gen_varint(rng, size):
    vals = set()
    for b in (0, 1, 127, 128, 129, 16383, 16384, 16385, 2097151, 2097152, 2097153, 268435455, 268435456,
              268435457, 4294967295, 4294967294, 2147483648, 65535, 65536):
        vals.add(b)
    for k in range(0, 33):
        for d in (-1, 0, 1):
            v = (1 << k) + d
            if 0 <= v <= 4294967295:
                vals.add(v)
    for _ in range(size):
        vals.add(rng.getrandbits(rng.randint(1, 32)))
    out = [line([[v]]) for v in sorted(vals)]
    # decoding: all strings of length <= 2, boundary encodings, random continuation patterns
    seqs = [()]
    seqs += [(a,) for a in range(256)]
    seqs += [(a, b) for a in range(256) for b in (0, 1, 0x7f, 0x80, 0x81, 0xff)]
    for _ in range(size):
        n = rng.randint(1, 7)
        seqs.append(tuple(rng.choice([0, 1, 0x7f, 0x80, 0x81, 0xff, rng.getrandbits(8)]) for _ in range(n)))
    for v in sorted(vals):
        if v <= 268435455:
            seqs.append(tuple(vbi(v)) + tuple(rng.getrandbits(8) for _ in range(rng.randint(0, 2))))
    out += [line([[], list(s)]) for s in seqs]
    return out
