#!/bin/bash
# seedverify.sh <id>: confirm a seeded change in a scratch worktree of /repo's HEAD:
#  with the patch: the 215 baseline tests pass and the demonstration fails; without it: the demonstration passes.
id=$1
wt=/tmp/sv/verify_$id
export CARGO_TARGET_DIR=/tmp/sv/target_repo
mkdir -p /tmp/sv
git -C /repo worktree remove --force $wt 2>/dev/null
git -C /repo worktree add -q --detach $wt HEAD || exit 3
cd $wt
loc=$(python3 -c "import json;print(json.load(open('/verif/seeded/$id/meta.json')).get('demo_location','tests/seeded_demo.rs'))")
case "$loc" in *tests/seeded_demo.rs*) loc=tests/seeded_demo.rs;; esac
cp /verif/seeded/$id/demo.rs $wt/$loc 2>/dev/null || cp /verif/seeded/$id/demo.rs $wt/tests/seeded_demo.rs
echo "--- without patch: demo"
cargo test --offline --test seeded_demo 2>&1 | grep -E "^test result|test .* (ok|FAILED)" | tail -5
git apply /verif/seeded/$id/patch.diff || { echo "PATCH DOES NOT APPLY"; exit 3; }
echo "--- with patch: demo"
cargo test --offline --test seeded_demo 2>&1 | grep -E "^test result|test .* (ok|FAILED)" | tail -5
echo "--- with patch: baseline suite"
mv tests/seeded_demo.rs /tmp/sv/seeded_demo_$id.rs
cargo test --workspace --no-fail-fast --offline 2>&1 | grep -E "^test result|FAILED" | tail -8
cd /; git -C /repo worktree remove --force $wt
