#!/bin/bash
# seedverify.sh <id>: confirm a seeded change in a scratch worktree of /repo's HEAD:
#  with the patch: the 215 baseline tests pass and the demonstration fails; without it: the demonstration passes.
id=$1
wt=/tmp/sv/verify_$id
export CARGO_TARGET_DIR=/tmp/sv/target_repo
mkdir -p /tmp/sv
git -C /repo worktree remove --force $wt 2>/dev/null
git -C /repo worktree add -q --detach $wt HEAD || exit 3
cd $wt
loc=$(python3 -c "import json;print(json.load(open('/verif/seeded/$id/meta.json')).get('demo_location','tests/seeded_demo.rs'))")
case "$loc" in *tests/seeded_demo.rs*) loc=tests/seeded_demo.rs;; esac
appendto=$(python3 -c "
import json,re
l=json.load(open('/verif/seeded/$id/meta.json')).get('demo_location','')
m=re.search(r'END of .?(src/[\\w/]+\\.rs)', l)
print(m.group(1) if m else '')")
git apply /verif/seeded/$id/patch.diff || { echo "PATCH DOES NOT APPLY"; exit 3; }
echo "--- with patch: baseline suite"
cargo test --workspace --no-fail-fast --offline 2>&1 | grep -E "^test result|FAILED" | tail -8
git apply -R /verif/seeded/$id/patch.diff
if [ -n "$appendto" ]; then
  cat /verif/seeded/$id/demo.rs >> $wt/$appendto; runit="cargo test --offline --lib seeded_demo"
else
  cp /verif/seeded/$id/demo.rs $wt/tests/seeded_demo.rs; runit="cargo test --offline --test seeded_demo"
fi
echo "--- without patch: demo"
$runit 2>&1 | grep -E "^test result|test .* (ok|FAILED)" | grep -v "0 passed; 0 failed" | tail -5
git apply /verif/seeded/$id/patch.diff || { echo "PATCH DOES NOT APPLY (with demo)"; exit 3; }
echo "--- with patch: demo"
$runit 2>&1 | grep -E "^test result|test .* (ok|FAILED)" | grep -v "0 passed; 0 failed" | tail -5
cd /; git -C /repo worktree remove --force $wt
