#!/usr/bin/env python3
"""Case generator for engines "ctlwrap3" / "ctlwrap5" (numbers 44 / 45): the control-service wrapper that turns
the dispatcher's write back-pressure notifications into the sink's back-pressure flag (property C13, clause
"a notification takes effect when it is issued, not when the application's control service returns").

case syntax (see harness/src/engines/ctlwrap.rs):
  `cap;op;op;...`
  op `1,b` write back-pressure begins (b=1) / ends (b=0) at the io: the dispatcher issues the notification,
     `2,k` the application's k-th control call completes, `3,t` start task t = sink.ready() (polled once),
     `4,t` poll task t, `5,t` start task t = QoS 1 send (polled once), `6,id` the peer's PUBACK id.
Nothing here knows what the answers should be: plain enumerations / random draws.
"""
import itertools
import random

# notifications on/off and the completions of the first three application calls, in every order
NOTIFY = ["1,1", "1,0", "2,1", "2,2", "2,3"]
# a ready() waiter and a sender next to them
WAITERS = ["1,1", "1,0", "2,1", "2,2", "3,1", "4,1", "5,2", "4,2"]
# the window: two senders, the peer's acknowledgements
WINDOW = ["1,1", "1,0", "2,1", "5,1", "5,2", "4,2", "6,1"]


def fmt(cap, ops):
    return "%d;" % cap + ";".join(ops)


def exhaustive(alpha, caps, maxlen, minlen=1):
    out = []
    for n in range(minlen, maxlen + 1):
        for ops in itertools.product(alpha, repeat=n):
            for cap in caps:
                out.append(fmt(cap, ops))
    return out


def random_case(rng, maxlen=20):
    cap = rng.choice([0, 1, 1, 1, 2, 2, 3])
    n = rng.randint(3, maxlen)
    p_note = rng.choice([0.15, 0.3, 0.5])
    p_done = rng.choice([0.1, 0.25, 0.4])
    p_ack = rng.choice([0.0, 0.1, 0.2])
    ops = []
    notes = 0
    tasks = 0
    sent = 0
    for _ in range(n):
        r = rng.random()
        if r < p_note:
            b = rng.random() < 0.5
            if rng.random() < 0.85:
                b = notes % 2 == 0          # mostly the alternation that issues something
            ops.append("1,%d" % int(b))
            notes += 1
        elif r < p_note + p_done:
            ops.append("2,%d" % rng.randint(1, max(1, notes + (1 if rng.random() < 0.1 else 0))))
        elif r < p_note + p_done + p_ack:
            if sent == 0 and rng.random() < 0.9:
                ops.append("4,%d" % max(1, tasks))      # an acknowledgement of nothing ends the connection: rare
            elif rng.random() < 0.9:
                ops.append("6,%d" % rng.randint(1, max(1, sent)))
            else:
                ops.append("6,%d" % rng.choice([0, 7, 65535, 65536 + 1]))
        else:
            k = rng.random()
            if tasks and k < 0.45:
                ops.append("4,%d" % rng.randint(1, tasks + (1 if rng.random() < 0.05 else 0)))
            elif k < 0.7:
                tasks += 1
                ops.append("3,%d" % (tasks if rng.random() < 0.95 else rng.randint(1, tasks)))
            else:
                tasks += 1
                sent += 1
                ops.append("5,%d" % (tasks if rng.random() < 0.95 else rng.randint(1, tasks)))
    return fmt(cap, ops)


def random_release(rng, maxlen=20):
    """what the clause is about: senders park behind back-pressure, it lifts while the application is still busy
    with the earlier notification, the calls complete in some order, everybody is polled"""
    cap = rng.choice([1, 1, 2, 3])
    ops = []
    tasks = 0
    notes = 0
    for _round in range(rng.randint(1, 3)):
        ops.append("1,1")
        notes += 1
        for _ in range(rng.randint(0, 3)):
            tasks += 1
            ops.append("%d,%d" % (rng.choice([3, 5, 5]), tasks))
        if rng.random() < 0.3:
            ops.append("2,%d" % rng.randint(1, notes))
        ops.append("1,0")
        notes += 1
        order = list(range(1, notes + 1))
        rng.shuffle(order)
        tail = ["2,%d" % k for k in order if rng.random() < 0.8] + ["4,%d" % t for t in range(1, tasks + 1)]
        rng.shuffle(tail)
        ops += tail
        if rng.random() < 0.4:
            ops.append("6,%d" % rng.randint(1, max(1, tasks)))
    return fmt(cap, ops[:maxlen])


def all_cases(rng, tier="quick"):
    """(name, cases) parts; quick: notification/completion lists to length 5, full: to length 6"""
    full = tier != "quick"
    n_len = 6 if full else 5
    w_len = 5 if full else 4
    n_random = 20000 if full else 1500
    notify = exhaustive(NOTIFY, (1,), n_len)
    waiters = exhaustive(WAITERS, (1,), w_len) + exhaustive(WAITERS, (2,), w_len - 1)
    window = exhaustive(WINDOW, (1, 2), w_len)
    rnd = [random_case(rng, 20) for _ in range(n_random)]
    rel = [random_release(rng, 20) for _ in range(n_random)]
    return [("exhaustive-notifications-and-completions<=%d" % n_len, notify),
            ("exhaustive-with-waiters<=%d" % w_len, waiters),
            ("exhaustive-with-window<=%d" % w_len, window),
            ("random-any<=20", rnd), ("random-release<=20", rel)]


if __name__ == "__main__":
    import sys
    rng = random.Random(int(sys.argv[1]) if len(sys.argv) > 1 else 1)
    for name, cs in all_cases(rng, sys.argv[2] if len(sys.argv) > 2 else "quick"):
        print("# %s: %d" % (name, len(cs)), file=sys.stderr)
        for c in cs:
            print(c)
