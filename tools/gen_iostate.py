"""Case generators for the engines "iostate" (36) and "timerrt" (37): scenarios for the connection
life-cycle state machine and the timer flag machine of /repo/src/io.rs (properties C07, C20).

Case syntax: harness/src/engines/iostate.rs (iostate), coq/Model/TimerRt.v (timerrt).
Every generator is a pure function of a random.Random and size knobs and returns case lines.
"""
import itertools


def line(fields):
    return ";".join(",".join(str(n) for n in f) for f in fields)


# configurations: ka, frame_len, ctl_mode, sd_gated, rr_timeout, rr_max, rr_rate
CFG_PLAIN = [0, 1]
CFG_KA = [100, 1]
CFG_CTL_NOW = [0, 1, 1]
CFG_SD = [0, 1, 0, 1]
CFG_KA2 = [100, 2]
CFG_RR = [100, 3, 0, 0, 50, 120, 1]
CFG_RR0 = [0, 3, 0, 0, 50, 0, 0]
CFG_HDR = [0, 200, 0, 0, 50, 0, 0]
CFG_HDR_KA = [100, 200, 0, 0, 50, 120, 1]
CFG_BP = [0, 1, 0, 0, 0, 0, 0, 0, 0, 0, 1]
CFG_BP_KA = [100, 1, 0, 0, 0, 0, 0, 0, 0, 0, 1]
CFG_BP_RR = [0, 4, 0, 0, 50, 0, 0, 0, 0, 0, 1]


class Sim:
    """tracks which request ids are outstanding so that only meaningful operations are generated"""

    def __init__(self, flen, sticky=False):
        # with write back-pressure the dispatcher may sit in Backpressure and not resume the read task
        # when the service becomes ready again: "bytes arrived during a pause" then stays true
        self.sticky = sticky
        # header codec: small numbers also occur as length / payload bytes, request ids start at 100 there
        self.next_id = 100 if flen == 200 else 1
        self.pending = []
        self.flen = flen
        # the io read task is paused while the service is not ready; what ntex-io's in-memory test
        # transport does with bytes AND a close that pile up meanwhile is not part of the models:
        # a peer close / read error is generated in that state only if no bytes are pending with it
        self.mode = 0
        self.dirty = False
        self.no_writes = False
        # write back-pressure (small write buffer configs): while it may be on, the dispatcher neither reads nor
        # looks at handler results; in which order it reports an undecodable frame and a failed handler that both
        # pile up meanwhile is not part of the model: such causes are not generated until the peer accepts again
        self.accept = True
        self.bp = False

    def frame(self, rid):
        if self.flen == 200:
            return [rid, 0]
        return [rid] + [0] * (self.flen - 1)

    def new_request(self):
        rid = self.next_id
        self.next_id += 1
        self.pending.append(rid)
        return rid


def expand(sym, sim, rng=None):
    """symbolic op -> concrete op (list of numbers) or None when it makes no sense now"""
    k = sym[0]
    if k not in ("raw", "done", "done2"):
        # at most one write while the read task is paused, none after a read error injected in that state
        if sim.no_writes or (sim.mode == 3 and sim.dirty):
            return None
        if sim.mode == 3:
            sim.dirty = True
    if k == "req":           # one complete frame with a gated handler
        return [1] + sim.frame(sim.new_request())
    if k == "req2":          # two complete frames in one write
        a = sim.frame(sim.new_request())
        return [1] + a + sim.frame(sim.new_request())
    if k == "imm":           # a frame whose handler answers at once (200 Some .. 204 unencodable)
        return [1] + sim.frame(sym[1])
    if k == "part":          # an incomplete frame prefix (only with frame_len > 1)
        if sim.flen == 1:
            return None
        if sim.flen == 200:
            return [1, 150]
        return [1, 150] + [0] * (sym[1] if len(sym) > 1 else 0)
    if k == "rest":          # completes what "part" began: the request id is 150
        if sim.flen == 1:
            return None
        if sim.flen == 200:
            return [1, 0]
        k = sim.flen - 1 - (sym[1] if len(sym) > 1 else 0)
        return [1] + [0] * k if k > 0 else None
    if k == "hdr":           # header-consuming codec: the second header byte announces 3 payload bytes
        return [1, 3] if sim.flen == 200 else None
    if k == "pay":
        return [1] + [7] * sym[1] if sim.flen == 200 else None
    if k == "bad":
        if sim.bp:
            return None
        return [1, 255]
    if k == "done":          # the oldest / newest outstanding handler completes with result sym[2]
        if not sim.pending:
            return None
        if sim.bp and sym[2] in (2, 3, 4):
            return None
        if sim.sticky and sym[2] == 5 and not sim.accept:
            sim.bp = True
        rid = sim.pending.pop(0 if sym[1] == 0 else -1)
        return [2, rid, sym[2]]
    if k == "done2":         # two handlers complete in one operation
        if len(sim.pending) < 2:
            return None
        a = sim.pending.pop(-1)
        b = sim.pending.pop(-1)
        return [2, b, sym[1], a, sym[2]]
    if k == "raw":
        op = list(sym[1:])
        if op[0] == 12:
            sim.accept = op[1] != 0
            if sim.accept:
                sim.bp = False
        if op[0] == 8:
            if (op[1] == 3 and sim.mode == 3) or sim.sticky:
                sim.dirty = sim.dirty or (len(op) > 2 and op[1] == 3)
            else:
                sim.dirty = len(op) > 2 and op[1] == 3
            sim.mode = op[1]
        if op[0] in (3, 4) and (sim.mode == 3 or sim.sticky) and sim.dirty:
            return None
        if op[0] == 4 and sim.mode == 3:
            sim.no_writes = True
        if op[0] == 1 and (sim.no_writes or (sim.mode == 3 and sim.dirty)):
            return None
        return op
    return None


ALPHA_SMALL = [("req",), ("done", 0, 0), ("done", 1, 2), ("raw", 3), ("raw", 5, 0), ("raw", 9)]
ALPHA_RICH = [("req",), ("req2",), ("imm", 200), ("imm", 202), ("imm", 203), ("imm", 204), ("bad",),
              ("done", 0, 0), ("done", 1, 0), ("done", 0, 1), ("done", 1, 2), ("done", 1, 3), ("done", 0, 4),
              ("done2", 2, 3), ("raw", 3), ("raw", 4), ("raw", 5, 0), ("raw", 5, 1), ("raw", 5, 2), ("raw", 6),
              ("raw", 7), ("raw", 8, 1), ("raw", 8, 2), ("raw", 8, 3), ("raw", 8, 0), ("raw", 9), ("raw", 10, 1),
              ("raw", 11)]
# write back-pressure: handlers answering with 1100 bytes while the peer accepts nothing
ALPHA_BP = [("req",), ("done", 0, 5), ("done", 1, 5), ("done", 0, 0), ("done", 1, 2), ("raw", 12, 0), ("raw", 12, 1),
            ("raw", 3), ("raw", 6), ("raw", 5, 0), ("raw", 8, 3), ("raw", 8, 0), ("raw", 9), ("bad",), ("part",), ("rest",)]
ALPHA_TIMER = [("req",), ("part",), ("part", 1), ("rest",), ("rest", 1), ("hdr",), ("pay", 1), ("pay", 2), ("raw", 9),
               ("raw", 8, 3), ("raw", 8, 3, 1), ("raw", 8, 0), ("done", 0, 0), ("raw", 3), ("raw", 5, 0)]


def build(cfg, syms):
    sim = Sim(max(cfg[1] if len(cfg) > 1 else 1, 1), len(cfg) > 10 and cfg[10] == 1)
    ops = []
    for s in syms:
        o = expand(s, sim)
        if o is None:
            return None
        ops.append(o)
    return line([cfg] + ops)


def exhaustive(cfg, alpha, maxlen):
    out = []
    for n in range(1, maxlen + 1):
        for syms in itertools.product(alpha, repeat=n):
            c = build(cfg, syms)
            if c is not None:
                out.append(c)
    return out


def rand_cases(rng, cfgs, alpha, n, lo=7, hi=30):
    out = []
    while len(out) < n:
        cfg = rng.choice(cfgs)
        k = rng.randint(lo, hi)
        syms = []
        sim_ok = None
        for _ in range(k):
            syms.append(rng.choice(alpha))
        # drop the symbols that make no sense at their position instead of rejecting the case
        sim = Sim(max(cfg[1] if len(cfg) > 1 else 1, 1), len(cfg) > 10 and cfg[10] == 1)
        ops = []
        for s in syms:
            o = expand(s, sim)
            if o is not None:
                ops.append(o)
        if ops:
            out.append(line([cfg] + ops))
    return out


FIXED = [
    "0,1;1,1;2,1,0;3;5,0",
    "0,1;1,1;1,2;2,2,2;5,0",
    "0,1;1,1;1,2;1,3;2,2,2,3,3;5,0",
    "0,1;1,1;1,255;2,1,0;5,2",
    "0,1,0,1;1,1;1,2;3;5,0;11",
    "0,1;1,1;10,1",
    "0,1;8,3;3;5,0;8,0;5,0",
    "100,2;1,1,0,2;8,3,1;9;5,0",
    "0,200,0,0,50,0,0;1,1;9;1,3;9;5,0",
    "100,1;1,1;9;5,0",
    "0,1,0,0,0,0,0,0,0,0,1;1,1;12,0;2,1,5;1,255;12,1;5,0",
    "0,4,0,0,50,0,0,0,0,0,1;1,5,0,0,0;1,6;12,0;13,5,5;9;12,1",
]


def iostate_cases(rng, tier="thorough"):
    """[(name, rule, cases)]"""
    small_len = 5 if tier == "quick" else 6
    rich_len = 2 if tier == "quick" else 3
    nrand = 600 if tier == "quick" else 4000
    parts = [
        ("fixed", "hand-written life-cycle and timer scenarios", list(FIXED)),
        ("exhaustive-small", "all sequences up to length %d over {request, oldest done Ok, newest done Err, peer close, "
         "control done, timer expiry}, keep-alive on" % small_len, exhaustive(CFG_KA, ALPHA_SMALL, small_len)),
        ("exhaustive-rich", "all sequences up to length %d over %d operations (every op code, every result code)"
         % (rich_len, len(ALPHA_RICH)),
         exhaustive(CFG_PLAIN, ALPHA_RICH, rich_len) + exhaustive(CFG_SD, ALPHA_RICH, 2) + exhaustive(CFG_CTL_NOW, ALPHA_RICH, 2)),
        ("exhaustive-timer", "all sequences up to length %d over partial frames / header bytes / timer expiry / "
         "not-ready, with keep-alive and frame-read-rate configured" % (3 if tier == "quick" else 4),
         [c for cfg in (CFG_KA2, CFG_RR, CFG_RR0, CFG_HDR, CFG_HDR_KA)
          for c in exhaustive(cfg, ALPHA_TIMER, 3 if tier == "quick" else 4)]),
        ("exhaustive-backpressure", "all sequences up to length %d over requests, 1100-byte responses, a peer that "
         "stops/resumes accepting bytes, close, not-ready, timer expiry (write buffer high watermark 1024)"
         % (3 if tier == "quick" else 4),
         [c for cfg in (CFG_BP, CFG_BP_KA) for c in exhaustive(cfg, ALPHA_BP, 3 if tier == "quick" else 4)]),
        ("random-backpressure", "random sequences of 7..30 back-pressure operations",
         rand_cases(rng, [CFG_BP, CFG_BP_KA, CFG_BP_RR], ALPHA_BP, nrand // 2)),
        ("random-life", "random sequences of 7..30 operations over all op codes",
         rand_cases(rng, [CFG_PLAIN, CFG_KA, CFG_CTL_NOW, CFG_SD], ALPHA_RICH, nrand)),
        ("random-timer", "random sequences of 7..30 timer-relevant operations",
         rand_cases(rng, [CFG_KA2, CFG_RR, CFG_RR0, CFG_HDR, CFG_HDR_KA], ALPHA_TIMER + [("done", 1, 2), ("bad",)], nrand)),
    ]
    return parts


# ---------------------------------------------------------------- timerrt scenarios (real time, 1 s grid)
def rt(cfg, horizon, timed_ops):
    c = list(cfg) + [0] * (7 - len(cfg)) + [horizon]
    return line([c] + [[t] + op for t, op in timed_ops])


def mq(kind, ka, horizon, timed_ops, ct=0, rr=(0, 0, 0)):
    """real MQTT endpoint scenario: kind 3/5 server, 13/15 client (see harness/src/engines/timerrt.rs)"""
    c = [ka, 0, 0, 0, rr[0], rr[1], rr[2], horizon, kind, ct]
    return line([c] + [[t, op] for t, op in timed_ops])


def mqtt_cases(rng, n_random=16):
    out = []
    for kind in (3, 5):
        # keep-alive 2 -> 3 s (factor 1.5): idle connection ends at second 3 (v5: DISCONNECT 0x8D)
        out.append(mq(kind, 2, 5, [(0, 20)]))
        # keep-alive 1 -> 1 s
        out.append(mq(kind, 1, 4, [(1, 20)]))
        # PINGREQ every second: alive
        out.append(mq(kind, 2, 5, [(0, 20), (1, 21), (2, 21), (3, 21), (4, 21)]))
        # PINGREQ split over two seconds
        out.append(mq(kind, 2, 5, [(0, 20), (1, 22), (2, 23)]))
        # keep-alive 4 -> 6 s: nothing within the horizon
        out.append(mq(kind, 4, 5, [(0, 20)]))
        # connect timeout 2 s: no CONNECT / partial CONNECT / CONNECT in time
        out.append(mq(kind, 0, 4, [], ct=2))
        out.append(mq(kind, 0, 4, [(0, 24)], ct=2))
        out.append(mq(kind, 3, 5, [(0, 24), (1, 25)], ct=2))
        out.append(mq(kind, 2, 5, [(1, 20)], ct=3))
        # read-rate rule: a lone first byte of a packet
        out.append(mq(kind, 2, 5, [(0, 20), (1, 22)], rr=(1, 0, 1)))
        out.append(mq(kind, 4, 5, [(0, 20), (1, 22)], rr=(2, 0, 0)))
        # rate 0 ("any progress"): 0x82, extension, then 0x05 completes the header, which the codec consumes:
        # the buffered count drops 1 -> 0 and the next expiry computes 0 - 1, saturating since 4dba145
        out.append(mq(kind, 4, 5, [(0, 20), (1, 26), (3, 27)], rr=(1, 0, 0)))
        out.append(mq(kind, 4, 5, [(0, 20), (1, 26)], rr=(1, 0, 0)))
    for kind in (3, 5):
        # keep-alive near the u16 boundary of the 1.5 x factor (43690 * 1.5 = 65535): the connection must stay up
        out.append(mq(kind, 43691, 5, [(0, 20)]))
        out.append(mq(kind, 43692, 5, [(0, 20)]))
        out.append(mq(kind, 65535, 5, [(0, 20)]))
    for kind in (13, 15):
        out.append(mq(kind, 2, 5, [(0, 30)]))
        out.append(mq(kind, 1, 5, [(0, 30)]))
        out.append(mq(kind, 2, 5, [(0, 30), (3, 3)]))
        out.append(mq(kind, 0, 4, [(0, 30)]))
        out.append(mq(kind, 3, 5, [(1, 30)]))
        # the send window is exhausted when the keep-alive loop ticks (Receive Maximum 1, one unacknowledged
        # QoS 1 publish): the loop must go on pinging
        out.append(mq(kind, 2, 5, [(0, 33), (1, 31)]))
        out.append(mq(kind, 1, 5, [(0, 33), (1, 31), (3, 32)]))
        out.append(mq(kind, 2, 5, [(0, 33), (1, 31), (2, 32)]))
        out.append(mq(kind, 2, 5, [(0, 30), (1, 31), (1, 32)]))
        # CONNACK carries Server Keep Alive k (ops 341..343): the client pings once per k seconds whatever it asked
        # for itself -- also when it asked for none (0), and when it asked for less or for more
        for own, k in ((0, 1), (0, 2), (3, 1), (1, 2), (1, 3), (2, 2), (0, 3)):
            out.append(mq(kind, own, 5, [(0, 340 + k)]))
        out.append(mq(kind, 0, 5, [(1, 341), (3, 3)]))
    for _ in range(n_random):
        kind = rng.choice([3, 5])
        ka = rng.choice([1, 2, 3, 4])
        ct = rng.choice([0, 0, 2, 3])
        t0 = rng.choice([0, 1]) if ct != 2 else 0
        ops = [(t0, 20)]
        half = False          # the byte stream stays a well-formed sequence of PINGREQ packets
        for t in range(t0 + 1, 5):
            r = rng.random()
            if half:
                if r < 0.5:
                    ops.append((t, 23))
                    half = False
            elif r < 0.3:
                ops.append((t, 21))
            elif r < 0.55:
                ops.append((t, 22))
                half = True
        out.append(mq(kind, ka, 5, ops, ct=ct, rr=rng.choice([(0, 0, 0), (0, 0, 0), (1, 0, 0), (2, 0, 1)])))
    return out


def timerrt_cases(rng, n_random=24):
    f1 = [1, 1]             # one complete 1-byte frame (gated handler, never completed)
    out = []
    # keep-alive 2 s, frames every second: alive for the whole horizon
    out.append(rt([2, 1], 5, [(t, [1, t + 1]) for t in range(5)]))
    # keep-alive 2 s, traffic stops after second 1: KeepAliveTimeout at second 3
    out.append(rt([2, 1], 5, [(0, [1, 1]), (1, [1, 2])]))
    # keep-alive 1 s, no traffic at all
    out.append(rt([1, 1], 4, []))
    # keep-alive disabled, no traffic: nothing happens
    out.append(rt([0, 1], 4, []))
    # keep-alive 2 s, 2-byte frames delivered one byte per second (a frame every 2 s = the period): times out
    out.append(rt([2, 2], 5, [(0, [1, 1]), (1, [1, 0]), (2, [1, 2]), (3, [1, 0])]))
    # keep-alive 3 s, 2-byte frames one byte per second: a frame every 2 s < 3 s: alive
    out.append(rt([3, 2], 5, [(0, [1, 1]), (1, [1, 0]), (2, [1, 2]), (3, [1, 0]), (4, [1, 3])]))
    # frame + trailing partial frame in one write, then silence: KeepAliveTimeout (before a67d067: none, ever)
    out.append(rt([1, 2], 5, [(0, [1, 1, 0, 2])]))
    # the same with the read-rate rule configured: ReadTimeout
    out.append(rt([1, 2, 0, 0, 1, 0, 1], 5, [(0, [1, 1, 0, 2])]))
    # read-rate 1 s / rate 0 / no max: a 4-byte frame trickling one byte per second keeps extending
    out.append(rt([0, 4, 0, 0, 1, 0, 0], 5, [(0, [1, 1]), (1, [1, 0]), (2, [1, 0]), (3, [1, 0]), (4, [1, 2])]))
    # read-rate: trickle stops: ReadTimeout one period after the last extension
    out.append(rt([0, 4, 0, 0, 1, 0, 0], 5, [(0, [1, 1]), (1, [1, 0])]))
    # read-rate with max_timeout 2 s: extensions are cut off
    out.append(rt([0, 5, 0, 0, 1, 2, 0], 5, [(0, [1, 1]), (1, [1, 0]), (2, [1, 0]), (3, [1, 0])]))
    # read-rate 1 s, rate 2: one byte per second is too slow
    out.append(rt([0, 5, 0, 0, 1, 0, 2], 4, [(0, [1, 1]), (1, [1, 0])]))
    # header-consuming codec, rate 0: the buffered count drops when the header is consumed (before 4dba145:
    # arithmetic underflow; now a read timeout)
    out.append(rt([0, 200, 0, 0, 1, 0, 0], 5, [(0, [1, 1]), (2, [1, 3])]))
    # service not ready pauses the timers; keep-alive restarts when it is ready again
    out.append(rt([1, 1], 5, [(0, [8, 3]), (3, [8, 0])]))
    # frame + first byte of the next one, service silently not ready: the keep-alive re-armed by the partial
    # frame (a67d067) expires two seconds after the frame: a legitimate KeepAliveTimeout
    out.append(rt([2, 2], 5, [(1, [1, 1, 0, 2]), (1, [8, 3, 1])]))
    # recorded finding stale-timer-while-not-ready: with the read-rate rule on, the frame-read timer expires
    # while the service is not ready and is reported as KeepAliveTimeout: 1 s after a frame with keep-alive 4,
    # and with keep-alive disabled
    out.append(rt([4, 2, 0, 0, 1, 0, 0], 5, [(1, [1, 1, 0, 2]), (1, [8, 3, 1])]))
    out.append(rt([0, 2, 0, 0, 1, 0, 0], 5, [(0, [1, 1]), (0, [8, 3, 1])]))
    # peer closes before the keep-alive expires
    out.append(rt([2, 1], 4, [(1, [3])]))
    for _ in range(n_random):
        ka = rng.choice([0, 1, 2, 3])
        flen = rng.choice([1, 2, 3])
        rr = rng.choice([[0, 0, 0], [1, 0, 0], [1, 0, 1], [2, 3, 0], [1, 2, 0]])
        horizon = 5
        ops = []
        rid = 1
        for t in range(horizon):
            r = rng.random()
            if r < 0.35:
                ops.append((t, [1, rid] + [0] * (flen - 1)))
                rid += 1
            elif r < 0.6 and flen > 1:
                ops.append((t, [1] + [0] * rng.randint(1, flen - 1)))
            elif r < 0.65:
                ops.append((t, [8, 3]))
            elif r < 0.7:
                ops.append((t, [8, 0]))
        out.append(rt([ka, flen, 0, 0] + rr, horizon, ops))
    return out + mqtt_cases(rng, max(4, n_random // 2))
