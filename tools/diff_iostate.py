#!/usr/bin/env python3
"""Differential run of the connection life-cycle / timer models: the real io::Dispatcher (harness engines
iostate, timerrt) against the extracted Coq models (ocaml/driver run 36 / 37) on generated scenarios.

usage: diff_iostate.py [--seed N] [--tier quick|thorough] [--no-rt] [--rt-random N] [--show N]
exit 0 when every observation is identical on both sides, 1 otherwise, 2 when the machinery is broken.
"""
import argparse
import collections
import os
import random
import sys
import time

sys.path.insert(0, os.path.dirname(os.path.abspath(__file__)))
import common as C  # noqa: E402
import gen_iostate as G  # noqa: E402


def classify(obs):
    if obs == C.PANIC:
        return "panic"
    last = obs.split(";")[-1].split(",")
    fin = {"0": "running", "1": "finished Ok", "2": "finished Err"}.get(last[0], last[0])
    n = int(last[3]) if len(last) > 3 else 0
    codes = last[4:4 + n]
    stops = [c for c in codes if c[0] in "123"]
    return "%s, stop=%s" % (fin, stops[0] if stops else "-")


def compare(engine, name, cases, show, shards=C.NPROC):
    t0 = time.time()
    impl = C.run_harness(engine, cases, shards=shards)
    t1 = time.time()
    model = C.run_model(engine, cases)
    t2 = time.time()
    diffs = [i for i in range(len(cases)) if impl[i] != model[i]]
    print("== %s/%s: %d cases, %d differences (harness %.1fs, model %.1fs)" % (
        engine, name, len(cases), len(diffs), t1 - t0, t2 - t1))
    if engine == "iostate":
        hist = collections.Counter(classify(o) for o in impl)
        for k, v in sorted(hist.items(), key=lambda kv: -kv[1])[:12]:
            print("     %7d  %s" % (v, k))
    for i in diffs[:show]:
        print("  DIFF case : %s" % cases[i][:600])
        print("       impl : %s" % impl[i][:600])
        print("       model: %s" % model[i][:600])
    return len(diffs)


def main():
    ap = argparse.ArgumentParser()
    ap.add_argument("--seed", type=int, default=1)
    ap.add_argument("--tier", default="thorough")
    ap.add_argument("--no-rt", action="store_true")
    ap.add_argument("--rt-random", type=int, default=24)
    ap.add_argument("--show", type=int, default=5)
    a = ap.parse_args()
    rng = random.Random(a.seed)
    try:
        ok, lg = C.build_harness()
        if not ok:
            raise C.Broken("harness build: " + lg)
        ok, lg = C.build_driver()
        if not ok:
            raise C.Broken("driver build: " + lg)
        total = bad = 0
        for name, rule, cases in G.iostate_cases(rng, a.tier):
            bad += compare("iostate", name, cases, a.show)
            total += len(cases)
        if not a.no_rt:
            cases = G.timerrt_cases(rng, a.rt_random)
            # one process: all scenarios run concurrently on one runtime (about 6 s of wall clock)
            bad += compare("timerrt", "real-time", cases, a.show, shards=1)
            total += len(cases)
    except C.Broken as e:
        print("BROKEN:", e)
        return 2
    print("total %d cases, %d differences" % (total, bad))
    return 1 if bad else 0


if __name__ == "__main__":
    sys.exit(main())
