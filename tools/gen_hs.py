"""Case generators for engine "hs" (number 38, property C19): the handshake stage of the combined / v3 / v5
server.  Case syntax: harness/src/engines/hs.rs.  The wire encoders here are written from the MQTT
specifications, not from the crate.

Every suite takes a random.Random and returns a list of case lines."""
import itertools
import struct

CONNACK5_RC = [0, 128, 129, 130, 131, 132, 133, 134, 135, 136, 137, 138, 140, 144, 149, 151, 153, 154, 155,
               156, 157, 159]


# ------------------------------------------------------------------ wire
def vi(n):
    out = bytearray()
    while True:
        b = n % 128
        n //= 128
        if n > 0:
            b |= 128
        out.append(b)
        if n == 0:
            return bytes(out)


def s16(b):
    return struct.pack(">H", len(b)) + b


def frame(first, body, rl=None, rl_bytes=None):
    """fixed header + body; rl overrides the announced remaining length, rl_bytes its encoding"""
    enc = rl_bytes if rl_bytes is not None else vi(len(body) if rl is None else rl)
    return bytes([first]) + enc + body


def connect3(cid=b"c", ka=60, flags=2, level=4, name=b"MQTT", name_len=None, will=None, user=None, pw=None,
             **kw):
    b = struct.pack(">H", len(name) if name_len is None else name_len) + name + bytes([level, flags])
    b += struct.pack(">H", ka) + s16(cid)
    if will is not None:
        b += s16(will[0]) + s16(will[1])
    if user is not None:
        b += s16(user)
    if pw is not None:
        b += s16(pw)
    return frame(0x10, b, **kw)


def connect5(cid=b"c", ka=60, flags=2, level=5, name=b"MQTT", name_len=None, receive_max=None, max_packet=None,
             alias_max=None, expiry=None, problem_info=None, raw_props=None, will=None, user=None, pw=None, **kw):
    b = struct.pack(">H", len(name) if name_len is None else name_len) + name + bytes([level, flags])
    b += struct.pack(">H", ka)
    p = b""
    if expiry is not None:
        p += b"\x11" + struct.pack(">I", expiry)
    if receive_max is not None:
        p += b"\x21" + struct.pack(">H", receive_max)
    if max_packet is not None:
        p += b"\x27" + struct.pack(">I", max_packet)
    if alias_max is not None:
        p += b"\x22" + struct.pack(">H", alias_max)
    if problem_info is not None:
        p += b"\x17" + bytes([problem_info])
    if raw_props is not None:
        p += raw_props
    b += vi(len(p)) + p + s16(cid)
    if will is not None:
        b += b"\x00" + s16(will[0]) + s16(will[1])
    if user is not None:
        b += s16(user)
    if pw is not None:
        b += s16(pw)
    return frame(0x10, b, **kw)


def publish3(topic=b"t", qos=0, pid=1, payload=b"", retain=0, dup=0):
    b = s16(topic)
    if qos:
        b += struct.pack(">H", pid)
    return frame(0x30 | (dup << 3) | (qos << 1) | retain, b + payload)


def publish5(topic=b"t", qos=0, pid=1, payload=b"", alias=None, retain=0, dup=0):
    b = s16(topic)
    if qos:
        b += struct.pack(">H", pid)
    p = b""
    if alias is not None:
        p += b"\x23" + struct.pack(">H", alias)
    return frame(0x30 | (dup << 3) | (qos << 1) | retain, b + vi(len(p)) + p + payload)


PING = b"\xc0\x00"


def packets3():
    """one well-formed packet of every v3 type (name, bytes)"""
    return [
        ("connack", b"\x20\x02\x00\x00"), ("publish0", publish3()), ("publish1", publish3(qos=1)),
        ("publish2", publish3(qos=2, payload=b"xy")), ("puback", b"\x40\x02\x00\x01"),
        ("pubrec", b"\x50\x02\x00\x01"), ("pubrel", b"\x62\x02\x00\x01"), ("pubcomp", b"\x70\x02\x00\x01"),
        ("subscribe", b"\x82\x06\x00\x01\x00\x01a\x00"), ("suback", b"\x90\x03\x00\x01\x00"),
        ("unsubscribe", b"\xa2\x05\x00\x01\x00\x01a"), ("unsuback", b"\xb0\x02\x00\x01"), ("pingreq", PING),
        ("pingresp", b"\xd0\x00"), ("disconnect", b"\xe0\x00"), ("reserved0", b"\x00\x00"),
        ("reserved15", b"\xf0\x00"), ("pubrel-badflags", b"\x60\x02\x00\x01"),
    ]


def packets5():
    return [
        ("connack", b"\x20\x03\x00\x00\x00"), ("publish0", publish5()), ("publish1", publish5(qos=1)),
        ("publish2", publish5(qos=2, payload=b"xy")), ("puback", b"\x40\x02\x00\x01"),
        ("pubrec", b"\x50\x03\x00\x01\x00"), ("pubrel", b"\x62\x02\x00\x01"), ("pubcomp", b"\x70\x02\x00\x01"),
        ("subscribe", b"\x82\x07\x00\x01\x00\x00\x01a\x00"), ("suback", b"\x90\x04\x00\x01\x00\x00"),
        ("unsubscribe", b"\xa2\x06\x00\x01\x00\x00\x01a"), ("unsuback", b"\xb0\x04\x00\x01\x00\x00"),
        ("pingreq", PING), ("pingresp", b"\xd0\x00"), ("disconnect", b"\xe0\x00"),
        ("disconnect-rc", b"\xe0\x02\x04\x00"), ("auth", b"\xf0\x00"), ("auth-rc", b"\xf0\x02\x18\x00"),
        ("reserved0", b"\x00\x00"),
    ]


# ------------------------------------------------------------------ cases
CFG_DEFAULT = dict(kind=0, answer=0, code=0, max_send=16, max_qos=1, max_receive=16, alias=32, max_size=0,
                   ov_send=0, ov_ka=0, ov_size=0, ov_rm=0, ov_qos=0, ov_alias=0, ov_ska=0, pre=0)
CFG_ORDER = ["kind", "answer", "code", "max_send", "max_qos", "max_receive", "alias", "max_size", "ov_send", "ov_ka",
             "ov_size", "ov_rm", "ov_qos", "ov_alias", "ov_ska", "pre"]


def nums(b):
    return ",".join(str(x) for x in b)


def case(first, cuts=(), ops=(), **cfg):
    c = dict(CFG_DEFAULT)
    c.update(cfg)
    fields = [",".join(str(c[k]) for k in CFG_ORDER), ",".join(str(x) for x in cuts), nums(first)]
    for op in ops:
        if op == "credit":
            fields.append("1")
        elif isinstance(op, tuple) and op[0] == "sleep":
            fields.append("6,%d" % op[1])
        else:
            fields.append("2," + nums(op) if op else "2")
    return ";".join(fields)


def suite_first_packets(rng):
    """every packet type as the first packet (whole, and cut after 1 and 2 bytes), every server kind"""
    out = []
    for kind in (0, 3, 5):
        for name, pk in packets3() + packets5():
            for cuts in ((), (1,), (2,), (1, 2)):
                out.append(case(pk, cuts, ["credit", PING], kind=kind))
        # a second packet right behind a non-CONNECT first one
        out.append(case(PING + connect3(), (), ["credit"], kind=kind))
        out.append(case(publish3() + connect5(), (), ["credit"], kind=kind))
    return out


def connect_variants():
    """CONNECT frames with every protocol name / level / flag variation (name, bytes)"""
    v = []
    for lvl in list(range(0, 8)) + [0x83, 0x84, 0x85, 255]:
        v.append(("level%d" % lvl, connect3(level=lvl)))
        v.append(("level%d-v5body" % lvl, connect5(level=lvl)))
    for name in (b"MQTT", b"MQTt", b"mqtt", b"MQIs", b"MQT", b"MQTTT", b"MQIsdp", b"", b"\x00QTT"):
        v.append(("name-%r-4" % name, connect3(name=name, level=4)))
        v.append(("name-%r-5" % name, connect5(name=name, level=5)))
    for nl in (0, 3, 5, 6, 255, 1024):
        v.append(("namelen%d-4" % nl, connect3(name_len=nl)))
        v.append(("namelen%d-5" % nl, connect5(name_len=nl)))
    for fl in (0, 1, 2, 3, 4, 6, 0x0e, 0x16, 0x1e, 0x26, 0x40, 0x42, 0x80, 0x82, 0xc2, 0xc3, 0xff):
        will = (b"w", b"m") if fl & 4 else None
        user = b"u" if fl & 0x80 else None
        pw = b"p" if fl & 0x40 else None
        v.append(("flags%02x-4" % fl, connect3(flags=fl, will=will, user=user, pw=pw)))
        v.append(("flags%02x-5" % fl, connect5(flags=fl, will=will, user=user, pw=pw)))
        v.append(("flags%02x-4-emptyid" % fl, connect3(cid=b"", flags=fl, will=will, user=user, pw=pw)))
        v.append(("flags%02x-5-emptyid" % fl, connect5(cid=b"", flags=fl, will=will, user=user, pw=pw)))
    # remaining length games
    for c, tag in ((connect3(), "4"), (connect5(), "5")):
        body = c[2:]
        v.append(("rl-short-" + tag, frame(0x10, body, rl=len(body) - 1)))
        v.append(("rl-long-" + tag, frame(0x10, body, rl=len(body) + 1)))
        v.append(("rl-9-" + tag, frame(0x10, body[:9])))
        v.append(("rl-10-" + tag, frame(0x10, body[:10])))
        v.append(("rl-0-" + tag, frame(0x10, b"")))
        v.append(("rl-2byte-" + tag, frame(0x10, body, rl_bytes=bytes([0x80 | len(body), 0]))))
        v.append(("rl-4byte-" + tag, frame(0x10, body, rl_bytes=bytes([0x80 | len(body), 0x80, 0x80, 0]))))
        v.append(("rl-5byte-" + tag, frame(0x10, body, rl_bytes=bytes([0x80 | len(body), 0x80, 0x80, 0x80, 0]))))
        v.append(("first-byte-flags-" + tag, bytes([0x11]) + c[1:]))
        v.append(("first-byte-12-" + tag, bytes([0x12]) + c[1:]))
    # bigger, realistic ones
    v.append(("full-4", connect3(cid=b"client-0001", ka=300, flags=0xee, will=(b"a/b", b"gone"), user=b"user",
                                 pw=b"pass")))
    v.append(("full-5", connect5(cid=b"client-0001", ka=300, flags=0xee, will=(b"a/b", b"gone"), user=b"user",
                                 pw=b"pass", receive_max=10, max_packet=1000, alias_max=4, expiry=60,
                                 problem_info=0)))
    v.append(("utf8-bad-id-4", connect3(cid=b"\xff")))
    v.append(("utf8-bad-id-5", connect5(cid=b"\xff")))
    v.append(("dup-prop-5", connect5(raw_props=b"\x21\x00\x01\x21\x00\x02")))
    v.append(("zero-receive-max-5", connect5(raw_props=b"\x21\x00\x00")))
    v.append(("unknown-prop-5", connect5(raw_props=b"\x7f\x00")))
    return v


def suite_connect_variants(rng):
    out = []
    for kind in (0, 3, 5):
        for name, c in connect_variants():
            out.append(case(c, (), ["credit", PING], kind=kind))
            out.append(case(c, (rng.randint(1, max(1, len(c) - 1)),), ["credit"], kind=kind, answer=rng.choice([0, 1, 2]),
                            code=rng.choice([2, 5, 135])))
    return out


def suite_cuts(rng, nrandom=600):
    """fragmentation of the first bytes: all single and double cuts of the first 16 bytes, random cut sets"""
    out = []
    firsts = [connect3(), connect5(), connect3(cid=b"client-0001", ka=7, flags=0xc2, user=b"u", pw=b"p") + PING,
              connect5(cid=b"id", ka=9, receive_max=3, max_packet=200) + publish5(qos=1, pid=7)]
    for f in firsts:
        n = min(16, len(f))
        for a in range(1, n):
            out.append(case(f, (a,), ["credit"]))
        for a, b in itertools.combinations(range(1, n), 2):
            out.append(case(f, (a, b), ["credit"]))
        out.append(case(f, tuple(range(1, len(f))), ["credit", PING]))       # byte by byte
    # single cuts on the plain servers and on frames that are refused
    bad = [connect3(level=6), connect5(level=3), connect3(name=b"MQTt"), PING, publish3(qos=1), connect3(flags=3),
           connect5(flags=3), connect3(name_len=6, name=b"MQIsdp", level=3)]
    for f in firsts[:2] + bad:
        for kind in (0, 3, 5):
            for a in range(1, min(16, len(f))):
                out.append(case(f, (a,), ["credit"], kind=kind))
    pool = firsts + bad + [c for _, c in connect_variants()]
    for _ in range(nrandom):
        f = rng.choice(pool)
        k = rng.randint(1, min(6, max(1, len(f) - 1)))
        cuts = sorted(rng.sample(range(1, max(2, len(f))), min(k, max(1, len(f) - 1))))
        if rng.random() < 0.15:
            cuts = sorted(cuts + [rng.choice(cuts)])        # an empty piece
        out.append(case(f, cuts, ["credit", PING], kind=rng.choice([0, 0, 3, 5]), answer=rng.choice([0, 0, 1, 2]),
                        code=rng.choice([1, 4, 5, 134, 135])))
    return out


def suite_outcomes(rng):
    """accept / refuse (every code) / error, with packets queued right behind the CONNECT"""
    out = []
    for kind, mk, pub in ((0, connect3, publish3), (3, connect3, publish3), (0, connect5, publish5),
                          (5, connect5, publish5)):
        trail = [b"", PING, pub(), pub(qos=1, pid=3), PING + pub(qos=1, pid=9) + PING]
        codes = list(range(0, 9)) + [255] if mk is connect3 else CONNACK5_RC + [1, 127, 160, 255]
        for t in trail:
            out.append(case(mk() + t, (), ["credit", PING], kind=kind, answer=0))
            out.append(case(mk() + t, (), ["credit", PING], kind=kind, answer=2))
            for code in codes:
                out.append(case(mk() + t, (), ["credit", PING], kind=kind, answer=1, code=code))
        # the rest of the CONNECT arrives after the application was allowed to answer
        c = mk()
        out.append(case(c[:9], (), [c[9:], "credit", PING], kind=kind))
        out.append(case(c[:9], (), [c[9:] + PING, "credit"], kind=kind, answer=1, code=5 if mk is connect3 else 135))
    return out


def suite_limits(rng):
    out = []
    u16 = 65535
    # send window: configured x requested (v5 Receive Maximum) x overridden
    for max_send in (0, 1, 5, 16, u16):
        for ov in (0, 1, 2, 3, 7, 18, u16 + 2):
            out.append(case(connect3(), (), ["credit"], kind=3, max_send=max_send, ov_send=ov))
            out.append(case(connect3(), (), ["credit"], kind=0, max_send=max_send, ov_send=ov))
            for rm in (None, 1, 4, 16, 17, u16):
                out.append(case(connect5(receive_max=rm), (), ["credit"], kind=rng.choice([0, 5]), max_send=max_send,
                                ov_send=ov))
    # keep-alive: client value x override x server keep-alive set by hand
    for ka in (0, 1, 2, 3, 10, 60, 43689, 43690, 43691, 65534, u16):
        for ov in sorted({0, 1, 2, 3, ka, min(ka + 1, u16 + 1), min(ka + 2, u16 + 1), min((ka * 3) // 2 + 1, u16 + 1), u16 + 1}):
            out.append(case(connect3(ka=ka), (), ["credit"], kind=3, ov_ka=ov))
            for ska in (0, 1, 6):
                out.append(case(connect5(ka=ka), (), ["credit"], kind=rng.choice([0, 5]), ov_ka=ov, ov_ska=ska))
    # maximum QoS: configured x overridden x probed
    for mq in (0, 1, 2):
        for q in (0, 1, 2):
            out.append(case(connect3(), (), [publish3(qos=q, pid=5), PING], kind=3, max_qos=mq))
            for ov in (0, 1, 2, 3):
                out.append(case(connect5(), (), [publish5(qos=q, pid=5), PING], kind=rng.choice([0, 5]), max_qos=mq,
                                ov_qos=ov))
    # topic alias maximum
    for am in (0, 1, 5, 32, u16):
        for ov in (0, 1, 2, 6, u16 + 1):
            eff = am if ov == 0 else ov - 1
            for a in sorted({1, max(1, eff), min(u16, eff + 1), u16}):
                out.append(case(connect5(), (), [publish5(alias=a), publish5(topic=b"", alias=a), PING], kind=5,
                                alias=am, ov_alias=ov))
    # receive maximum (v5): handlers that never complete
    for rm in (0, 1, 2, 3, 16):
        for ov in (0, 1, 2, 4):
            eff = rm if ov == 0 else ov
            for k in sorted({1, max(1, eff), eff + 1}):
                if k > 20:
                    continue
                burst = b"".join(publish5(topic=b"h", qos=1, pid=i + 1) for i in range(k))
                out.append(case(connect5(), (), [burst, "credit"], kind=rng.choice([0, 5]), max_receive=rm, ov_rm=ov))
                if ov == 0:
                    # v3: the in-flight limiter stops reading instead
                    burst3 = b"".join(publish3(topic=b"h", qos=1, pid=i + 1) for i in range(k))
                    out.append(case(connect3(), (), [burst3, PING, "credit"], kind=rng.choice([0, 3]), max_receive=rm))
                    out.append(case(connect3() + burst3, (), [PING], kind=3, max_receive=rm))
    # duplicate packet id while the first is not acknowledged (v5), right after an acknowledged one
    out.append(case(connect5(), (), [publish5(qos=1, pid=2), publish5(qos=1, pid=2),
                                     publish5(topic=b"h", qos=1, pid=4) + publish5(qos=1, pid=4)], kind=5))
    out.append(case(connect3(), (), [publish3(qos=1, pid=2), publish3(qos=1, pid=2), publish3(qos=2, pid=4),
                                     publish3(qos=2, pid=4)], kind=3, max_qos=2))
    # inbound maximum packet size: configured x overridden x probed at the limit and one above
    for ms in (0, 5, 20, 100):
        for ov in (0, 1, 2, 12, 52):
            for kind, mk, pub in ((3, connect3, publish3), (5, connect5, publish5)):
                if kind == 3:
                    eff = ms if ov < 3 else ov - 2
                else:
                    eff = ms if ov == 0 else (0 if ov == 1 else ov - 2)
                sizes = sorted({max(6, eff), max(6, eff) + 1, 6, 130})
                for sz in sizes:
                    hdr = len(pub()) - 2
                    p = pub(payload=bytes(sz - hdr)) if sz >= hdr else pub()
                    c = mk(cid=b"")
                    out.append(case(c, (), [p, PING], kind=kind, max_size=ms, ov_size=ov))
    # CONNECT itself above the configured inbound limit
    for ms in (1, 9, 12, 13, 14, 15, 40):
        for kind, mk in ((0, connect3), (3, connect3), (0, connect5), (5, connect5)):
            out.append(case(mk(), (), ["credit"], kind=kind, max_size=ms))
            out.append(case(mk(), (3,), ["credit"], kind=kind, max_size=ms))
    # peer Maximum Packet Size (v5): CONNACK must fit
    for mp in list(range(1, 26)) + [100, 268435460, 4294967295]:
        for cfgk in (dict(), dict(max_receive=0, max_qos=2, alias=0), dict(ov_ska=6, max_size=77)):
            out.append(case(connect5(max_packet=mp), (), ["credit"], kind=rng.choice([0, 5]), **cfgk))
            out.append(case(connect5(max_packet=mp), (), ["credit"], kind=5, answer=1, code=135, **cfgk))
    return out


def suite_random(rng, n=1500):
    out = []
    for _ in range(n):
        v5 = rng.random() < 0.6
        kind = rng.choice([0, 0, 5 if v5 else 3])
        ka = rng.choice([0, 1, 2, 30, 60, 1000, 43690, 43691, 65535])
        cfg = dict(kind=kind, answer=rng.choice([0, 0, 0, 0, 1, 2]),
                   code=rng.choice(CONNACK5_RC if v5 else [0, 1, 2, 3, 4, 5, 6, 7]),
                   max_send=rng.choice([0, 1, 2, 16, 100, 65535]), max_qos=rng.choice([0, 1, 2]),
                   max_receive=rng.choice([0, 1, 2, 3, 16, 65535]), alias=rng.choice([0, 1, 3, 32, 65535]),
                   max_size=rng.choice([0, 0, 0, 30, 64, 1000]),
                   ov_send=rng.choice([0, 0, 1, 2, 3, 10, 65537]), ov_ka=rng.choice([0, 0, 2, 5, 61, 65536]),
                   ov_size=rng.choice([0, 0, 1, 2, 34, 66, 1002]))
        if v5:
            cfg.update(ov_rm=rng.choice([0, 0, 1, 2, 5, 65535]), ov_qos=rng.choice([0, 0, 1, 2, 3]),
                       ov_alias=rng.choice([0, 0, 1, 2, 4, 65536]), ov_ska=rng.choice([0, 0, 0, 1, 31, 65536]))
            fl = rng.choice([2, 2, 2, 0xc2])
            first = connect5(cid=rng.choice([b"", b"c", b"client-42"]), ka=ka, flags=fl,
                             user=b"u" if fl & 0x80 else None, pw=b"p" if fl & 0x40 else None,
                             receive_max=rng.choice([None, None, 1, 3, 16, 65535]),
                             max_packet=rng.choice([None, None, None, 64, 1000, 268435455]),
                             alias_max=rng.choice([None, 0, 7]), expiry=rng.choice([None, 0, 100]),
                             problem_info=rng.choice([None, None, 0, 1]))
            pub, held = publish5, True
        else:
            fl = rng.choice([2, 2, 0xc2])
            first = connect3(cid=rng.choice([b"c", b"client-42"]), ka=ka, flags=fl,
                             user=b"u" if fl & 0x80 else None, pw=b"p" if fl & 0x40 else None)
            pub, held = publish3, True
        ops = []
        for _ in range(rng.randint(0, 5)):
            r = rng.random()
            if r < 0.25:
                ops.append("credit")
            elif r < 0.4:
                ops.append(PING)
            else:
                q = rng.choice([0, 0, 1, 1, 2])
                kw = dict(topic=rng.choice([b"t", b"t", b"a/b", b"h" if held else b"t", b"a/+", b"#"]), qos=q,
                          pid=rng.choice([1, 2, 3, 65535]), payload=bytes(rng.choice([0, 0, 3, 40, 200])))
                if v5 and rng.random() < 0.3:
                    kw["alias"] = rng.choice([1, 2, 3, 4, 32, 33, 65535])
                    if rng.random() < 0.3:
                        kw["topic"] = b""
                ops.append(pub(**kw) + (PING if rng.random() < 0.2 else b""))
        trail = rng.choice([b"", b"", PING, pub(), pub(qos=1, pid=77)])
        n = len(first + trail)
        cuts = sorted(rng.sample(range(1, n), rng.randint(0, min(4, n - 1))))
        out.append(case(first + trail, cuts, ops, **cfg))
    return out


def suite_prebuffered(rng):
    """the first k bytes are already in the read buffer when the server is handed the connection (a TLS / proxy
    stage in front): every k for the plain CONNECTs on every kind of server, plus refused first packets"""
    out = []
    firsts = [connect3(), connect5(), connect3(cid=b"client-0001", ka=7, flags=0xc2, user=b"u", pw=b"p") + PING,
              connect5(cid=b"id", ka=9, receive_max=3, max_packet=200) + publish5(qos=1, pid=7)]
    bad = [connect3(level=6), connect5(level=3), connect3(name=b"MQTt"), PING, publish3(qos=1)]
    for f in firsts + bad:
        for kind in (0, 3, 5):
            for a in list(range(1, min(16, len(f)))) + [len(f)]:
                out.append(case(f, (a,) if a < len(f) else (), ["credit", PING], kind=kind, pre=1))
    return out


SUITES = {
    "prebuffered": suite_prebuffered,
    "first": suite_first_packets,
    "connect": suite_connect_variants,
    "cuts": suite_cuts,
    "outcomes": suite_outcomes,
    "limits": suite_limits,
    "random": suite_random,
}


def all_cases(rng, names=None):
    out = []
    for n in names or list(SUITES):
        out += [(n, c) for c in SUITES[n](rng)]
    return out
