#!/usr/bin/env python3
"""Sanity properties of the REAL servers' observations on the generated inbound cases
(engines inb3 / inb5): looks for misbehaviour of the implementation itself, independent of the model.

Checked per case (see harness/src/engines/inbound.rs for the observation syntax):
  P1  a handler invocation carries the fields of a PUBLISH the peer sent (qos, id, payload length, retain)
  P2  no positive/negative PUBACK/PUBREC for id X before the handler invoked for X has completed;
      reason 0 only after an Ok completion, reason r >= 0x80 only after completion with r
      (reason 0x91 "packet identifier in use" is the immediate answer to a duplicate id)
  P3  no handler is invoked for an id while another handler invocation with that id is not yet
      acknowledged (second packet with an in-use id reaching a handler)
  P4  at most one Stop notification; nothing is written after the connection is reported closed
  P5  (v5) at most one DISCONNECT is written, none after a valid DISCONNECT of the peer
  P6  (v5) DISCONNECT 0x93 only when the number of unacknowledged QoS>0 publishes reached receive maximum
  P7  PUBCOMP with reason 0 only for an id whose PUBREC (reason < 0x80) was written and not yet completed
  P8  protocol-service invocations of the distinct control packets happen in arrival order
usage: inbound_invariants.py [-v 3|5|both] [--seed N] [--scale F]
"""
import argparse
import collections
import os
import random
import sys

sys.path.insert(0, os.path.dirname(os.path.abspath(__file__)))
import common as C  # noqa: E402
import gen_inbound as G  # noqa: E402

KIND_OF_TPL = {4: 1, 6: 2, 7: 3, 9: 4, 8: 5, 10: 6}


def parse_obs(f):
    x = [int(t) for t in f.split(",")]
    i = x.index(254)
    k = x.index(253, i)
    m = x.index(252, k)
    wire = [tuple(x[j:j + 3]) for j in range(0, i, 3)]
    hs = [tuple(x[j:j + 6]) for j in range(i + 1, k, 6)]
    ps = [tuple(x[j:j + 2]) for j in range(k + 1, m, 2)]
    return wire, hs, ps, x[m + 1], x[m + 2], x[m + 3]


def check_case(v, case, obs):
    bad = []
    fields = [[int(t) for t in f.split(",")] for f in case.split(";")]
    cfg, ops = fields[0], fields[1:]
    if any(o[0] == 2 and o[2] == 145 for o in ops):
        return []             # the application itself answers 0x91: indistinguishable from "id in use"
    if not obs.strip() or obs == C.PANIC:
        return ["panic"] if obs == C.PANIC else []
    of = obs.split(";")
    rmax = (cfg[1] or 16) if v == 5 else 0
    pubs = []                 # PUBLISH packets sent so far (qos,id,plen,retain)
    hinfo = {}                # h -> (qos, id)
    hdone = {}                # h -> res
    unacked = {}              # id -> h   (handler invoked, ack not yet written)
    pubrec_ok = set()
    peer_out = {}             # ids the peer may not reuse yet: 1 = until PUBACK/SUBACK/UNSUBACK, 2 = until PUBCOMP
    completions = set()
    peer_bad = False
    quota_broken = False
    counted = set()           # ids that count against receive maximum
    pubcomp_seen = set()
    closed = False
    ndisc = 0
    peer_disc = False
    # servers (configuration of 5+ fields): field 5 != 0 = the CONNECT asked for a non-zero session expiry
    nonzero_session = v == 5 and len(fields[0]) > 5 and fields[0][5] != 0
    is_open_before = True
    stops = 0
    ctl_arrivals = []         # kinds in arrival order (only packets with a unique kind in the case)
    kinds_in_case = collections.Counter(KIND_OF_TPL[o[1]] for o in ops if o[0] == 1 and o[1] in KIND_OF_TPL)
    inv_kinds = []
    for n, (op, f) in enumerate(zip(ops, of)):
        wire, hs, ps, stop1, nstop, is_open = parse_obs(f)
        # the checks assume a peer that reuses an id only after it has SEEN the end of the exchange and
        # that completes every handler / protocol-service invocation at most once
        if op[0] == 1 and op[1] in (1, 6, 7):
            pid = (op[3] if op[2] else 0) if op[1] == 1 else op[2]
            if pid and pid in peer_out:
                peer_bad = True
            if pid:
                peer_out[pid] = 2 if (op[1] == 1 and op[2] == 2) else 1
        if op[0] in (2, 3):
            key = (op[0], op[1])
            if key in completions:
                peer_bad = True
            completions.add(key)
        if op[0] == 1 and op[1] == 1:
            pubs.append((op[2], op[3] if op[2] else 0, op[7], op[6]))
            if op[2] and rmax and len([1 for x in peer_out]) > rmax:
                quota_broken = True
        if op[0] == 1 and op[1] in KIND_OF_TPL and kinds_in_case[KIND_OF_TPL[op[1]]] == 1:
            ctl_arrivals.append(KIND_OF_TPL[op[1]])
        if op[0] == 2 and op[1] not in hdone:
            hdone[op[1]] = op[2]
        if closed and wire:
            bad.append("P4 written after close at op %d" % (n + 1))
        if op[0] == 1 and op[1] == 9 and v == 5 and len(op) > 3 and op[3] != 0 and nonzero_session and is_open_before \
                and not stops and any(t == 0xE0 for (t, _, _) in wire):
            # a DISCONNECT that changes the Session Expiry Interval of a session whose CONNECT asked for a
            # non-zero one is valid [MQTT-3.14.2-22]: the endpoint has received the peer's DISCONNECT and must
            # not write its own (the operation is this one packet: whatever is written answers it)
            bad.append("P5 a valid DISCONNECT of the peer (Session Expiry Interval on a session whose CONNECT asked "
                       "for a non-zero one) was answered with a DISCONNECT (op %d)" % (n + 1))
        is_open_before = is_open

        def do_ack(t, pid, r, final):
            """returns False if the ack cannot be matched yet (handler invoked later in this op)"""
            h = unacked.get(pid)
            if h is None:
                if final:
                    bad.append("P2 ack %x id %d without a pending handler at op %d" % (t, pid, n + 1))
                return False
            res = hdone.get(h)
            if res is None:
                bad.append("P2 ack for id %d before handler %d completed (op %d)" % (pid, h, n + 1))
            elif (r == 0) != (res == 0) or (r >= 0x80 and r != res):
                bad.append("P2 ack reason %d after handler result %d (op %d)" % (r, res, n + 1))
            del unacked[pid]
            if t == 0x50 and r < 0x80:
                pubrec_ok.add(pid)
            elif pid in counted:
                counted.discard(pid)
            return True

        later = []
        for (t, pid, r) in wire:
            if t in (0x40, 0x90, 0xB0) and peer_out.get(pid) == 1:
                del peer_out[pid]
            if t == 0x50 and r >= 0x80 and pid in peer_out:
                del peer_out[pid]
            if t == 0x70 and pid in peer_out:
                del peer_out[pid]
            if t in (0x40, 0x50) and r != 0x91:
                if not do_ack(t, pid, r, False):
                    later.append((t, pid, r))
            if t == 0x70:
                if r == 0 and pid not in pubrec_ok and pid not in pubcomp_seen:
                    bad.append("P7 PUBCOMP(0) for id %d without PUBREC (op %d)" % (pid, n + 1))
                if r == 0:
                    pubcomp_seen.add(pid)
                pubrec_ok.discard(pid)
                counted.discard(pid)
            if t == 0xE0:
                ndisc += 1
                if peer_disc:
                    bad.append("P5 DISCONNECT after the peer's (op %d)" % (n + 1))
                if r == 0x93:
                    if not quota_broken:
                        bad.append("P6 0x93 with %d unacked < receive max %d (op %d)" % (len(counted), rmax, n + 1))
        for (h, qos, pid, topic, plen, retain) in hs:
            if (qos, pid, plen, retain) not in pubs:
                bad.append("P1 handler %d with fields not sent (op %d)" % (h, n + 1))
            if pid and pid in unacked:
                bad.append("P3 handler %d for id %d while handler %d is unacknowledged (op %d)" % (
                    h, pid, unacked[pid], n + 1))
            hinfo[h] = (qos, pid)
            if pid:
                unacked[pid] = h
                counted.add(pid)
                pubcomp_seen.discard(pid)
            for (t, pid2, r) in list(later):
                if pid2 == pid and pid:
                    do_ack(t, pid2, r, True)
                    later.remove((t, pid2, r))
        for (t, pid, r) in later:
            do_ack(t, pid, r, True)
        for (c, kind) in ps:
            if kinds_in_case[kind] == 1:
                inv_kinds.append(kind)
        if op[0] == 1 and op[1] == 9 and v == 5 and (op[3] == 0 or nonzero_session):
            peer_disc = True
        if op[0] == 1 and op[1] == 9 and v == 3:
            peer_disc = True
        if nstop > 1:
            bad.append("P4 %d Stop notifications" % nstop)
        stops = nstop
        if not is_open:
            closed = True
    if ndisc > 1:
        bad.append("P5 %d DISCONNECT packets" % ndisc)
    # P8: invocation order of unique-kind control packets is a subsequence-respecting order of arrivals
    pos = {k: i for i, k in enumerate(ctl_arrivals)}
    seq = [pos[k] for k in inv_kinds if k in pos]
    if any(a > b for a, b in zip(seq, seq[1:])):
        bad.append("P8 protocol service saw control packets out of arrival order: arrivals %s invocations %s" % (
            ctl_arrivals, inv_kinds))
    if peer_bad:
        bad = [b for b in bad if b.split(" ")[0] not in ("P2", "P3", "P6", "P7")]
    return bad


def main():
    ap = argparse.ArgumentParser()
    ap.add_argument("-v", default="both")
    ap.add_argument("--seed", type=int, default=1)
    ap.add_argument("--scale", type=float, default=1.0)
    ap.add_argument("--show", type=int, default=3)
    args = ap.parse_args()
    for v in ([3, 5] if args.v == "both" else [int(args.v)]):
        cases = G.generate(v, random.Random(args.seed * 10 + v), args.scale)
        obs = C.run_harness("inb%d" % v, cases)
        found = collections.defaultdict(list)
        for c, o in zip(cases, obs):
            for b in check_case(v, c, o):
                found[b.split(" ")[0]].append((len(c), c, b))
        print("inb%d: %d cases checked" % (v, len(cases)))
        for k in sorted(found):
            lst = sorted(found[k])
            print("  %s: %d cases" % (k, len(lst)))
            for _, c, b in lst[:args.show]:
                print("     %s\n        %s" % (c, b))
    return 0


if __name__ == "__main__":
    sys.exit(main())
