"""Shared machinery of every check: builds, audits, runners, evidence, verdicts."""
import fcntl
import hashlib
import json
import os
import re
import subprocess
import sys
import time
from concurrent.futures import ThreadPoolExecutor

ROOT = os.path.dirname(os.path.dirname(os.path.abspath(__file__)))
COQ = os.path.join(ROOT, "coq")
OCAML = os.path.join(ROOT, "ocaml")
HARNESS = os.environ.get("MV_HARNESS", os.path.join(ROOT, "harness"))
WORK = os.path.join(ROOT, "work")
REPO = os.environ.get("MV_REPO", "/repo")
NPROC = 16
PANIC = "9999"

ENGINES = {  # name -> number in Model/Engines.v
    "topic": 1,
    "dec3": 10,
    "enc3": 11,
    "varint": 12,
    "respq": 30,
    "sink3": 31,
    "sink5": 32,
    "inb3": 33,
    "inb5": 34,
    "inb3b": 46,
    "inb5b": 47,
    "cli3": 39,
    "cli5": 40,
    "limiter": 35,
    "payload": 41, "sized3": 13, "sized5": 23,
    "plstop3": 42, "plstop5": 43,
    "ctlwrap3": 44, "ctlwrap5": 45,
    "iostate": 36,
    "timerrt": 37,
    "hs": 38,
    "dec5": 20,
    "enc5": 21,
    "sniff": 22,
}

ENV = dict(os.environ)
ENV.update({"CARGO_NET_OFFLINE": "true", "RUSTFLAGS": "--cfg ntex_mqtt_verif", "CARGO_INCREMENTAL": "0"})

TRUSTED_BASE = [
    "Coq 8.16.1 kernel (coqc), vm_compute; no native_compute",
    "axioms: none declared; Print Assumptions of every property theorem is checked against an allow-list on every run",
    "tools/rs2v.py translator (constants/tables from the Rust source text), cross-checked against the compiled crate",
    "extraction: ExtrOcamlBasic only (bool, option, unit, list, prod, sumbool, sumor); no Extract Constant; N/positive/nat stay Coq inductives; OCaml 4.13.1; ocaml/driver.ml line parser/printer",
    "Rust harness (harness/): case parser, canonical printers, catch_unwind, in-memory transport glue and hand-polling scheduler",
    "modelled, not verified: ntex-io, ntex-util, ntex-service, ntex-bytes, ntex-router, the executor, Rust integer semantics",
]


class Broken(Exception):
    """the machinery itself failed (not a verdict)"""


def log(*a):
    print(*a, file=sys.stderr, flush=True)


class Lock:
    def __init__(self, name="build"):
        os.makedirs(WORK, exist_ok=True)
        self.path = os.path.join(WORK, "." + name + ".lock")

    def __enter__(self):
        self.f = open(self.path, "w")
        fcntl.flock(self.f, fcntl.LOCK_EX)
        return self

    def __exit__(self, *a):
        fcntl.flock(self.f, fcntl.LOCK_UN)
        self.f.close()


def sh(cmd, cwd=None, timeout=3600, env=None, inp=None):
    p = subprocess.run(cmd, cwd=cwd, env=env or ENV, input=inp, capture_output=True, text=True,
                       timeout=timeout, shell=isinstance(cmd, str))
    return p.returncode, p.stdout, p.stderr


# ---------------------------------------------------------------- builds
def build_harness(release=False):
    """cargo build of the harness against /repo's working tree; returns (ok, log)"""
    with Lock("cargo"):
        lock = os.path.join(HARNESS, "Cargo.lock")
        if not os.path.exists(lock):
            subprocess.run(["cp", os.path.join(REPO, "Cargo.lock"), lock], check=True)
        cmd = ["cargo", "build", "--offline", "-q"] + (["--release"] if release else [])
        rc, out, err = sh(cmd, cwd=HARNESS, timeout=3000)
        if rc != 0 and ("rust-lld" in err or "linking with" in err or "incremental" in err):
            # stale/corrupt build artefacts of the harness crate itself (not a source problem): rebuild them
            prof = os.path.join(os.environ.get("CARGO_TARGET_DIR", os.path.join(HARNESS, "target")),
                                "release" if release else "debug")
            sh("rm -rf %s/incremental %s/deps/mv_harness* %s/.fingerprint/mv-harness*" % (prof, prof, prof))
            rc, out, err = sh(cmd, cwd=HARNESS, timeout=3000)
        return rc == 0, (out + err)[-4000:]


def harness_bin(release=False):
    tdir = os.environ.get("CARGO_TARGET_DIR", os.path.join(HARNESS, "target"))
    return os.path.join(tdir, "release" if release else "debug", "mv-harness")


def build_coq(targets, timeout=3000):
    """make of the given .vo targets (full .vo, never -vos); returns (ok, log)"""
    with Lock("coq"):
        mk = os.path.join(COQ, "Makefile")
        cp = os.path.join(COQ, "_CoqProject")
        if not os.path.exists(mk) or os.path.getmtime(mk) < os.path.getmtime(cp):
            rc, out, err = sh(["coq_makefile", "-f", "_CoqProject", "-o", "Makefile"], cwd=COQ)
            if rc != 0:
                raise Broken("coq_makefile: " + err)
        rc, out, err = sh(["timeout", str(timeout), "make", "-j%d" % NPROC] + list(targets), cwd=COQ,
                          timeout=timeout + 60)
        return rc == 0, (out + err)[-6000:]


def build_driver():
    """extraction (Extract/Extract.vo) + ocamlopt of the driver"""
    ok, lg = build_coq(["Extract/Extract.vo"])
    if not ok:
        return False, lg
    with Lock("ocaml"):
        drv = os.path.join(OCAML, "driver")
        src = [os.path.join(OCAML, f) for f in ("model.ml", "model.mli", "driver.ml")]
        if not all(os.path.exists(s) for s in src):
            # model.ml is written by Extract.v; force a rebuild of that file
            try:
                os.remove(os.path.join(COQ, "Extract", "Extract.vo"))
            except FileNotFoundError:
                pass
            ok, lg = build_coq(["Extract/Extract.vo"])
            if not ok:
                return False, lg
        if (not os.path.exists(drv)) or any(os.path.getmtime(s) > os.path.getmtime(drv) for s in src):
            rc, out, err = sh(["ocamlfind", "ocamlopt", "-O3", "-w", "-a", "model.mli", "model.ml",
                               "driver.ml", "-o", "driver"], cwd=OCAML, timeout=900)
            if rc != 0:
                return False, out + err
        return True, ""


# ---------------------------------------------------------------- audit
FORBIDDEN = re.compile(
    r"\b(Admitted|admit|Axiom|Axioms|Parameter|Parameters|Conjecture|Conjectures|Hypothesis|Hypotheses|"
    r"Variable|Variables|Admit Obligations|bypass_check|native_compute)\b|Unset Guard|Unset Positivity|"
    r"Unset Universe|type-in-type|impredicative-set")


def strip_comments(src):
    out, depth, i = [], 0, 0
    while i < len(src):
        if src.startswith("(*", i):
            depth += 1
            i += 2
        elif src.startswith("*)", i) and depth > 0:
            depth -= 1
            i += 2
        else:
            if depth == 0:
                out.append(src[i])
            i += 1
    return "".join(out)


def dep_closure(pid):
    """the .v files Props/<pid>.v depends on (transitively), from coq_makefile's .Makefile.d; None if unknown"""
    dp = os.path.join(COQ, ".Makefile.d")
    if not os.path.exists(dp):
        return None
    deps = {}
    for line in open(dp):
        if ".vo " in line.split(":")[0] + " " and ":" in line:
            left, right = line.split(":", 1)
            tgt = [t for t in left.split() if t.endswith(".vo")]
            if not tgt:
                continue
            deps[tgt[0][:-1]] = [t[:-1] for t in right.split() if t.endswith(".vo")]
    start = "Props/%s.v" % pid
    if start not in deps:
        return None
    seen, todo = set(), [start]
    while todo:
        x = todo.pop()
        if x in seen:
            continue
        seen.add(x)
        todo += deps.get(x, [])
    return seen


def grep_forbidden(only=None):
    """forbidden vernacular in coq/ (Variable/Hypothesis are allowed inside a Section only); `only` = set of
    files (relative to coq/) to restrict to: the dependency closure of one property"""
    bad = []
    for d, _, fs in os.walk(COQ):
        for f in fs:
            if not f.endswith(".v"):
                continue
            p = os.path.join(d, f)
            if only is not None and os.path.relpath(p, COQ) not in only:
                continue
            src = strip_comments(open(p).read())
            depth = 0
            for ln, line in enumerate(src.split("\n"), 1):
                if re.match(r"\s*Section\b", line):
                    depth += 1
                if re.match(r"\s*End\b", line) and depth > 0:
                    depth -= 1
                for m in FORBIDDEN.finditer(line):
                    w = m.group(0)
                    if w in ("Variable", "Variables", "Hypothesis", "Hypotheses") and depth > 0:
                        continue
                    bad.append("%s:%d: %s" % (os.path.relpath(p, ROOT), ln, w))
    return bad


def theorem_statements(pid):
    """{name: normalised statement} of every Theorem in Props/<pid>.v"""
    if not os.path.exists(os.path.join(COQ, "Props", pid + ".v")):
        return {}
    src = strip_comments(open(os.path.join(COQ, "Props", pid + ".v")).read())
    res = {}
    for m in re.finditer(r"\bTheorem\s+(\w+)\s*:(.*?)\bProof\.", src, re.S):
        res[m.group(1)] = " ".join(m.group(2).split())
    return res


def statement_lock_check(pid):
    """compare statement hashes with statements.lock; returns list of problems"""
    lockp = os.path.join(ROOT, "statements.lock")
    lock = json.load(open(lockp)) if os.path.exists(lockp) else {}
    probs = []
    st = theorem_statements(pid)
    for name, s in st.items():
        h = hashlib.sha256(s.encode()).hexdigest()[:16]
        if name not in lock:
            probs.append("statement of %s is not in statements.lock" % name)
        elif lock[name] != h:
            probs.append("statement of %s changed (lock %s, now %s)" % (name, lock[name], h))
    for name in lock:
        if name.startswith(pid + "_") and name not in st:
            probs.append("theorem %s is in statements.lock but not in Props/%s.v" % (name, pid))
    return probs, st


def update_lock():
    lockp = os.path.join(ROOT, "statements.lock")
    lock = {}
    for f in sorted(os.listdir(os.path.join(COQ, "Props"))):
        if f.endswith(".v"):
            for name, s in theorem_statements(f[:-2]).items():
                lock[name] = hashlib.sha256(s.encode()).hexdigest()[:16]
    json.dump(lock, open(lockp, "w"), indent=1, sort_keys=True)
    return lock


ALLOWED_AXIOMS = set()  # none: every theorem must be closed under the global context


def print_assumptions(pid, names):
    """coqc a scratch file printing the assumptions of each theorem; returns {name: [axioms]}"""
    os.makedirs(WORK, exist_ok=True)
    p = os.path.join(WORK, "audit_%s_%d.v" % (pid, os.getpid()))
    with open(p, "w") as f:
        f.write("From MV Require Import Props.%s.\n" % pid)
        for n in names:
            f.write('Goal True. idtac "@@@ %s". exact I. Qed.\nPrint Assumptions %s.\n' % (n, n))
    rc, out, err = sh(["timeout", "600", "coqc", "-Q", COQ, "MV", p], cwd=WORK)
    for ext in ("", "o", "ok", "os"):
        try:
            os.remove(p + ext if ext else p)
        except FileNotFoundError:
            pass
    for q in (p[:-2] + ".glob", os.path.join(WORK, "." + os.path.basename(p)[:-2] + ".aux")):
        try:
            os.remove(q)
        except FileNotFoundError:
            pass
    if rc != 0:
        return None, out + err
    res = {}
    chunks = out.split("@@@ ")[1:]
    for ch in chunks:
        name, _, body = ch.partition("\n")
        name = name.strip()
        if "Closed under the global context" in body:
            res[name] = []
        else:
            axs = re.findall(r"^(\S+)\s*:", body, re.M)
            res[name] = axs or ["<unparsed: %s>" % body.strip()[:200]]
    return res, out


def audit(pid, files=None):
    """returns (obligations, discharged, problems[], log); `files` = the Props files of this property
    (default: Props/<pid>.v alone)"""
    if not files or list(files) == [pid]:
        return _audit_one(pid)
    tot = [0, 0, [], ""]
    for f in files:
        n, d, pr, lg = _audit_one(f)
        tot[0] += n
        tot[1] += d
        tot[2] += pr
        tot[3] += lg
    return tuple(tot)


def _audit_one(pid):
    problems = []
    if not os.path.exists(os.path.join(COQ, "Props", pid + ".v")):
        return 0, 0, ["Props/%s.v does not exist (no theorem is claimed for this property yet)" % pid], ""
    lp, st = statement_lock_check(pid)
    problems += lp
    names = sorted(st)
    ok, lg = build_coq(["Props/%s.vo" % pid])
    # forbidden vernacular: in everything this property's theorems depend on (the whole development is
    # grepped by tools/audit_all.py / setup)
    bad = grep_forbidden(dep_closure(pid))
    problems += ["forbidden vernacular: " + b for b in bad]
    if not ok:
        m = re.findall(r'File "([^"]+)", line (\d+)', lg)
        where = ("%s line %s" % m[-1]) if m else "?"
        problems.append("Props/%s.vo does not build (proof obligation broken at %s)" % (pid, where))
        return len(names), 0, problems, lg
    ass, out = print_assumptions(pid, names)
    if ass is None:
        problems.append("Print Assumptions run failed: " + out[-500:])
        return len(names), 0, problems, out
    discharged = 0
    for n in names:
        axs = [a for a in ass.get(n, ["<missing>"]) if a not in ALLOWED_AXIOMS]
        if axs:
            problems.append("theorem %s depends on axioms %s" % (n, axs))
        else:
            discharged += 1
    return len(names), discharged, problems, ""


def coqchk(files):
    """independent re-check of the compiled Props objects and everything they depend on (thorough tier):
    returns a list of problems (empty = `Axioms: <none>`, nothing relying on type-in-type, unsafe fixpoints
    or assumed positivity)"""
    probs = []
    for f in files:
        if not os.path.exists(os.path.join(COQ, "Props", f + ".vo")):
            continue
        rc, out, err = sh(["timeout", "3600", "coqchk", "-silent", "-o", "-Q", ".", "MV", "MV.Props." + f], cwd=COQ)
        txt = out + err
        if rc != 0:
            probs.append("coqchk MV.Props.%s failed (rc %d): %s" % (f, rc, txt[-400:]))
            continue
        for key in ("Axioms", "Constants/Inductives relying on type-in-type",
                    "Constants/Inductives relying on unsafe (co)fixpoints", "Inductives whose positivity is assumed"):
            m = re.search(r"\* " + re.escape(key) + r":\s*(.*?)(?=\n\s*\n|\Z)", txt, re.S)
            if not m or m.group(1).strip() != "<none>":
                probs.append("coqchk MV.Props.%s: %s: %s" % (f, key, (m.group(1).strip() if m else "?")[:300]))
    return probs


# ---------------------------------------------------------------- runners
def show_case(fields):
    return ";".join(",".join(str(n) for n in f) for f in fields)


def parse_case(line):
    return [[int(x) for x in f.split(",")] if f.strip() else [] for f in line.split(";")]


def _run_sharded(cmd, lines, shards=NPROC, timeout=3000, crash_is_panic=False):
    """crash_is_panic (harness runs): when the process dies or hangs on a batch, the batch is split until the
    single case that kills it is found; that case gets the observation 9999 (a panic that escaped every guard,
    e.g. inside a spawned task, or a hang) instead of making the whole check unusable"""
    if not lines:
        return []
    shards = max(1, min(shards, (len(lines) + 199) // 200))
    k = (len(lines) + shards - 1) // shards
    parts = [lines[i:i + k] for i in range(0, len(lines), k)]

    def attempt(part, tmo):
        try:
            p = subprocess.run(cmd, input="\n".join(part) + "\n", capture_output=True, text=True, timeout=tmo,
                               env=ENV)
        except subprocess.TimeoutExpired:
            return None, "timeout after %ds" % tmo
        outl = p.stdout.split("\n")
        if outl and outl[-1] == "":
            outl.pop()
        if p.returncode != 0 or len(outl) != len(part):
            return None, "rc=%d, %d lines for %d cases; stderr: %s" % (
                p.returncode, len(outl), len(part), p.stderr[-800:])
        return outl, ""

    def one(part, tmo=timeout):
        outl, why = attempt(part, tmo)
        if outl is not None:
            return outl
        if not crash_is_panic:
            raise Broken("%s: %s" % (cmd, why))
        if len(part) == 1:
            return [PANIC]
        mid = len(part) // 2
        sub = max(60, min(tmo, 30 + len(part)))      # a hang must not cost the full budget at every level
        return one(part[:mid], sub) + one(part[mid:], sub)

    with ThreadPoolExecutor(max_workers=shards) as ex:
        res = list(ex.map(one, parts))
    return [l for part in res for l in part]


def run_harness(engine, lines, release=False, shards=NPROC, timeout=3000):
    return _run_sharded([harness_bin(release), engine], lines, shards, timeout, crash_is_panic=True)


def run_model(engine, lines, shards=NPROC):
    return _run_sharded([os.path.join(OCAML, "driver"), "run", str(ENGINES[engine])], lines, shards)


def run_oracle(engine, case_lines, obs_lines, shards=NPROC):
    lines = [c + "|" + o for c, o in zip(case_lines, obs_lines)]
    return _run_sharded([os.path.join(OCAML, "driver"), "oracle", str(ENGINES[engine])], lines, shards)


def coq_list(fields):
    return "[" + ";".join("[" + ";".join(str(n) for n in f) + "]" for f in fields) + "]"


def run_vm_disagree(engine, case_lines, obs_lines, tag="vm"):
    """evaluate the model inside coqc (vm_compute) on (case, implementation observation) pairs;
    returns indices where they differ"""
    os.makedirs(WORK, exist_ok=True)
    n = len(case_lines)
    if n == 0:
        return []
    per = 400
    chunks = [(i, min(n, i + per)) for i in range(0, n, per)]

    def one(ch):
        a, b = ch
        p = os.path.join(WORK, "cases_%s_%d_%d.v" % (re.sub(r"\W", "_", tag), os.getpid(), a))
        with open(p, "w") as f:
            f.write("From MV Require Import Base.Prelude Model.Engines.\n")
            f.write("Definition cs : list (list (list N) * list (list N)) := [\n")
            f.write(";\n".join("(%s, %s)" % (coq_list(parse_case(c)), coq_list(parse_case(o)))
                               for c, o in zip(case_lines[a:b], obs_lines[a:b])))
            f.write("].\nEval vm_compute in disagree %d cs.\n" % ENGINES[engine])
        rc, out, err = sh(["timeout", "900", "coqc", "-noglob", "-Q", COQ, "MV", p], cwd=WORK)
        base = p[:-2]
        for q in (p, base + ".vo", base + ".vok", base + ".vos",
                  os.path.join(WORK, "." + os.path.basename(base) + ".aux")):
            try:
                os.remove(q)
            except FileNotFoundError:
                pass
        if rc != 0:
            raise Broken("coqc cases: " + (out + err)[-800:])
        m = re.search(r"=\s*\[(.*?)\]\s*:", out.replace("\n", " "), re.S)
        if not m:
            raise Broken("coqc cases output: " + out[-400:])
        body = m.group(1).strip()
        if not body:
            return []
        return [a + int(x.replace("%N", "").strip()) for x in body.split(";")]

    with ThreadPoolExecutor(max_workers=NPROC) as ex:
        res = list(ex.map(one, chunks))
    return [i for r in res for i in r]


# ---------------------------------------------------------------- known findings, verdicts, evidence
def known_findings(pid):
    p = os.path.join(ROOT, "known_findings.json")
    if not os.path.exists(p):
        return []
    return [e for e in json.load(open(p)) if e.get("property") == pid and e.get("status") == "finding"]


def write_replay(pid, body):
    os.makedirs(os.path.join(ROOT, "replays"), exist_ok=True)
    h = hashlib.sha256(json.dumps(body, sort_keys=True).encode()).hexdigest()[:10]
    p = os.path.join(ROOT, "replays", "%s-%s.json" % (pid, h))
    body = dict(body)
    body["property"] = pid
    json.dump(body, open(p, "w"), indent=1)
    return p


def write_evidence(pid, tier, seed, coverage, wall, violations, assumptions):
    os.makedirs(os.path.join(ROOT, "evidence"), exist_ok=True)
    ev = {
        "property_id": pid,
        "tier": tier,
        "seed": seed,
        "level": "proof",
        "coverage": coverage,
        "assumptions": assumptions,
        "wall_s": round(wall, 2),
        "violations": violations,
    }
    json.dump(ev, open(os.path.join(ROOT, "evidence", pid + ".json"), "w"), indent=1)


def repo_head():
    rc, out, _ = sh(["git", "-C", REPO, "rev-parse", "--short", "HEAD"])
    rc2, st, _ = sh(["git", "-C", REPO, "status", "--porcelain", "--untracked-files=no"])
    return out.strip() + ("+dirty" if st.strip() else "")
