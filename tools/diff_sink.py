#!/usr/bin/env python3
"""Differential run of the outbound bookkeeping ("sink"): the real crate (harness engines sink3 / sink5,
driving MqttSink of a real connection over IoTest) against the extracted Coq model Model/Sink.v
(ocaml/driver run 31 / 32) on generated operation sequences (tools/gen_sink.py).

usage: diff_sink.py [--seed N] [--versions 3,5] [--roles 0,1] [--exh-len 6] [--exh-limit N] [--random N] [--qos2 N] [--quiesced N] [--create N] [--create-exh-len L]
                    [--show N] [--dump-dir DIR] [--sim] [--no-build] [--cases FILE]
exit 0 when every observation is identical on both sides, 1 otherwise, 2 when the machinery is broken.
Besides the comparison it scans the implementation's observations for behaviour that is wrong whatever the
model says (more than cap QoS>0 packets outstanding after a send, panics) and prints the first examples.
"""
import argparse
import collections
import os
import random
import sys
import time

sys.path.insert(0, os.path.dirname(os.path.abspath(__file__)))
import common as C  # noqa: E402
import gen_sink as G  # noqa: E402


def first_diff(a, b):
    fa, fb = a.split(";"), b.split(";")
    for i in range(max(len(fa), len(fb))):
        x = fa[i] if i < len(fa) else "<none>"
        y = fb[i] if i < len(fb) else "<none>"
        if x != y:
            return i, x, y
    return None


def classify(case, obs):
    if obs == C.PANIC:
        return "panic (9999)"
    ops = case.split(";")[1:]
    kinds = set()
    for o in ops:
        f = o.split(",")
        if f[0] == "1" and len(f) > 2:
            kinds.add({"1": "q1", "2": "q2", "3": "sub", "4": "unsub", "5": "ready", "6": "q0", "7": "stream", "8": "q1big"}.get(f[2], "?"))
    last = obs.split(";")[-1].split(",")
    closed = "closed" if len(last) > 7 and last[7] == "0" else "open"
    return "%s, %s at end" % ("+".join(sorted(kinds)) or "no task", closed)


def anomalies(case, obs):
    """implementation-only checks: returns list of (tag, op index)"""
    res = []
    if obs == C.PANIC:
        return [("panic", 0)]
    ops = case.split(";")[1:]
    sent = {}       # task -> (wire tag, packet id, op index of the send)
    acks = []       # (op index, kind, id)
    prev = {}
    for i, f in enumerate(obs.split(";")):
        n = f.split(",")
        if len(n) < 9:
            continue
        op = [int(x) for x in ops[i].split(",")] if i < len(ops) and ops[i] else [0]
        if op[0] in (4, 5):
            acks += [(i, op[j], op[j + 1] % 65536) for j in range(1, len(op) - 1, 2)]
        if "255" in n:
            w = [int(x) for x in n[n.index("255") + 1:]]
            if op[0] in (1, 2, 16) and len(op) > 1:
                for j in range(0, len(w) - 1, 2):
                    if w[j] in (1, 2, 5, 6):
                        sent[op[1]] = (w[j], w[j + 1], i)
            b = [int(x) for x in n[8:n.index("255")]]
            cur = {b[j]: b[j + 1] for j in range(0, len(b) - 1, 2)}
            for t, st in cur.items():
                if t < 100 and st == 2 and prev.get(t) == 1 and t in sent and op[0] == 2:
                    tag, pid, at = sent[t]
                    want = {1: 1, 2: 2, 5: 4, 6: 5}[tag]
                    if op[0] == 2 and prev.get(("rel", t)):
                        want = 3
                    if not any(a > at and k == want and q == pid for a, k, q in acks):
                        res.append(("completed Ok without the matching acknowledgement", i))
            if op[0] == 6 and len(op) > 1 and prev.get(op[1]) == 2 and cur.get(op[1]) == 1:
                prev[("rel", op[1])] = True
            prev.update(cur)
        inflight, cap = int(n[0]), int(n[2])
        wire = n[n.index("255") + 1:] if "255" in n else []
        wtags = [int(wire[j]) for j in range(0, len(wire) - 1, 2)]
        if inflight > cap and any(t in (1, 2, 5, 6) for t in wtags) and i < len(ops) and not ops[i].startswith("9"):
            res.append(("more than cap outstanding after a send", i))
        body = n[8:n.index("255")] if "255" in n else []
        # (the id counter preset to 65535 by the hook is not a reachable state: next_id overflows by construction)
        if "12,65535" not in case and any(body[j + 1] == "9" for j in range(0, len(body) - 1, 2)):
            res.append(("task panicked", i))
    return res


def compare(engine, ver, cases, show, dump_dir, sim, stuck=False):
    t0 = time.time()
    impl = C.run_harness(engine, cases)
    t1 = time.time()
    model = C.run_model(engine, cases)
    t2 = time.time()
    diffs = [i for i in range(len(cases)) if impl[i] != model[i]]
    print("== %s: %d cases, %d differences (harness %.1fs, model %.1fs)" % (engine, len(cases), len(diffs), t1 - t0, t2 - t1))
    hist = collections.Counter(classify(c, o) for c, o in zip(cases, impl))
    for k, v in sorted(hist.items(), key=lambda kv: -kv[1])[:25]:
        print("     %7d  %s" % (v, k))
    for i in sorted(diffs, key=lambda i: len(cases[i]))[:show]:
        d = first_diff(impl[i], model[i])
        print("  DIFF case : %s" % cases[i])
        print("       first difference at operation %d (%s)" % (d[0] + 1, (cases[i].split(";") + ["?"] * 99)[d[0] + 1]))
        print("       impl : %s" % d[1])
        print("       model: %s" % d[2])
    an = collections.defaultdict(list)
    for c, o in zip(cases, impl):
        for tag, at in anomalies(c, o):
            an[tag].append((len(c), c, at))
    for tag, l in an.items():
        l.sort()
        print("  ANOMALY (implementation) %s: %d cases, shortest: %s (operation %d)" % (tag, len(l), l[0][1], l[0][2] + 1))
    if stuck:
        st = collections.defaultdict(list)
        for c, o in zip(cases, impl):
            r = G.stuck_report(ver, c, o)
            if r:
                st[r[0]].append((len(c), c, r[1]))
        for why, l in sorted(st.items()):
            l.sort()
            print("  STUCK at quiescence (window open, everything acknowledged) cause %s: %d cases, shortest: %s (task %d)"
                  % (why, len(l), l[0][1], l[0][2]))
    if sim:
        sd = [i for i in range(len(cases)) if G.run_sim(ver, cases[i]) != model[i]]
        print("   python Sim vs model: %d differences" % len(sd))
        for i in sd[:show]:
            d = first_diff(G.run_sim(ver, cases[i]), model[i])
            print("  SIM  case : %s\n       sim  : %s\n       model: %s" % (cases[i], d[1], d[2]))
    if dump_dir:
        os.makedirs(dump_dir, exist_ok=True)
        for ext, data in ((".cases", cases), (".impl", impl), (".model", model)):
            with open(os.path.join(dump_dir, engine + ext), "w") as f:
                f.write("\n".join(data) + "\n")
    return len(diffs)


def main():
    ap = argparse.ArgumentParser()
    ap.add_argument("--seed", type=int, default=20260925)
    ap.add_argument("--versions", default="3,5")
    ap.add_argument("--roles", default="0,1")
    ap.add_argument("--exh-len", type=int, default=5)
    ap.add_argument("--exh-limit", type=int, default=None)
    ap.add_argument("--random", type=int, default=8000)
    ap.add_argument("--qos2", type=int, default=800)
    ap.add_argument("--quiesced", type=int, default=3000)
    ap.add_argument("--create", type=int, default=8000, help="random schedules using operation 16 (0: skip the part)")
    ap.add_argument("--create-exh-len", type=int, default=4)
    ap.add_argument("--show", type=int, default=5)
    ap.add_argument("--dump-dir", default=None)
    ap.add_argument("--cases", default=None, help="file with case lines instead of generated ones")
    ap.add_argument("--sim", action="store_true")
    ap.add_argument("--no-build", action="store_true")
    a = ap.parse_args()
    if not a.no_build:
        ok, lg = C.build_harness()
        if not ok:
            print("harness build failed:\n" + lg)
            return 2
        ok, lg = C.build_driver()
        if not ok:
            print("driver build failed:\n" + lg)
            return 2
    rng = random.Random(a.seed)
    total = 0
    try:
        for v in [int(x) for x in a.versions.split(",")]:
            engine = "sink%d" % v
            if a.cases:
                cases = [l.strip() for l in open(a.cases) if l.strip() and not l.startswith("#")]
            else:
                cases = []
                for role in [int(x) for x in a.roles.split(",")]:
                    cases += G.gen_all(rng, v, role, a.exh_len, a.exh_limit, a.random, a.qos2)
            total += compare(engine, v, cases, a.show, a.dump_dir, a.sim)
            if not a.cases and a.create:
                cc = []
                for role in [int(x) for x in a.roles.split(",")]:
                    cc += G.gen_create(rng, v, role, a.create_exh_len, a.create)
                print("-- %s: schedules that create tasks without polling them (operation 16)" % engine)
                total += compare(engine, v, cc, a.show, a.dump_dir and a.dump_dir + "/create", a.sim)
            if not a.cases and a.quiesced:
                qc = []
                for role in [int(x) for x in a.roles.split(",")]:
                    qc += G.quiesced_cases(rng, v, role, a.quiesced)
                print("-- %s: schedules driven to quiescence" % engine)
                total += compare(engine, v, qc, a.show, a.dump_dir and a.dump_dir + "/quiesced", a.sim, stuck=True)
    except C.Broken as e:
        print("BROKEN: %s" % e)
        return 2
    print("TOTAL differences: %d" % total)
    return 0 if total == 0 else 1


if __name__ == "__main__":
    sys.exit(main())
