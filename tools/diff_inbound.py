#!/usr/bin/env python3
"""Differential run of the inbound engines: real servers (harness inb3 / inb5) against the Coq model
(ocaml/driver run 33 / 34) on generated cases.  Exit 0 when every observation line is equal.

usage: diff_inbound.py [-v 3|5|both] [--seed N] [--scale F] [--driver PATH] [--cases FILE] [--show K]
                       [--no-build]
"""
import argparse
import os
import random
import sys
import time

sys.path.insert(0, os.path.dirname(os.path.abspath(__file__)))
import common as C  # noqa: E402
import gen_inbound as G  # noqa: E402


def run_model(driver, engine, lines):
    return C._run_sharded([driver, "run", str(engine)], lines, C.NPROC)


def explain(case, h, m):
    cf = case.split(";")
    hf = h.split(";")
    mf = m.split(";")
    for i in range(max(len(hf), len(mf))):
        a = hf[i] if i < len(hf) else "<none>"
        b = mf[i] if i < len(mf) else "<none>"
        if a != b:
            op = cf[i + 1] if i + 1 < len(cf) else "?"
            return "op#%d (%s): impl %s | model %s" % (i + 1, op, a, b)
    return "?"


def main():
    ap = argparse.ArgumentParser()
    ap.add_argument("-v", default="both")
    ap.add_argument("--seed", type=int, default=1)
    ap.add_argument("--scale", type=float, default=1.0)
    ap.add_argument("--driver", default=os.path.join(C.OCAML, "driver"))
    ap.add_argument("--cases", default=None)
    ap.add_argument("--show", type=int, default=15)
    ap.add_argument("--no-build", action="store_true")
    ap.add_argument("--save", default=None, help="write mismatching cases to this file")
    ap.add_argument("--role", default="server", help="server (inb3/inb5) or client (cli3/cli5)")
    args = ap.parse_args()

    if not args.no_build:
        ok, lg = C.build_harness()
        if not ok:
            print("harness build failed:\n" + lg)
            return 2
        if args.driver == os.path.join(C.OCAML, "driver"):
            ok, lg = C.build_driver()
            if not ok:
                print("driver build failed:\n" + lg)
                return 2

    versions = [3, 5] if args.v == "both" else [int(args.v)]
    bad_total = 0
    for v in versions:
        name = ("inb%d" if args.role == "server" else "cli%d") % v
        if args.cases:
            cases = [l.strip() for l in open(args.cases) if l.strip() and not l.startswith("#")]
        else:
            cases = G.generate(v, random.Random(args.seed * 10 + v), args.scale, args.role)
        t0 = time.time()
        hobs = C.run_harness(name, cases)
        t1 = time.time()
        eng = (33 if v == 3 else 34) if args.role == "server" else (39 if v == 3 else 40)
        mobs = run_model(args.driver, eng, cases)
        t2 = time.time()
        bad = [i for i in range(len(cases)) if hobs[i] != mobs[i]]
        panics = [i for i in range(len(cases)) if hobs[i] == C.PANIC]
        print("%s: %d cases, %d differ, %d impl panics (harness %.1fs, model %.1fs)" % (
            name, len(cases), len(bad), len(panics), t1 - t0, t2 - t1))
        for i in bad[:args.show]:
            print("  case %s\n    %s" % (cases[i], explain(cases[i], hobs[i], mobs[i])))
        if args.save and bad:
            with open(args.save + ".%d" % v, "w") as f:
                for i in bad:
                    f.write(cases[i] + "\n")
        bad_total += len(bad)
    return 0 if bad_total == 0 else 1


if __name__ == "__main__":
    sys.exit(main())
