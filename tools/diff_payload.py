#!/usr/bin/env python3
"""Differential run of the publish payload: real crate (harness engine `payload`, the real
ntex_mqtt::Payload over ntex-util bstream, hand polled) against the extracted Coq model
(ocaml/driver run 41, Model/Payload.v) on the cases of gen_payload.py.

usage: diff_payload.py [--seed N] [--tier quick|full] [--show N]
exit 0 when every observation is identical on both sides, 1 otherwise, 2 when the machinery is broken.
"""
import argparse
import collections
import os
import random
import sys
import time

sys.path.insert(0, os.path.dirname(os.path.abspath(__file__)))
import common as C  # noqa: E402
import gen_payload as G  # noqa: E402


def classify(case, obs):
    if obs == C.PANIC:
        return "panic"
    if obs in ("9998", "9997"):
        return "outside the modelled domain"
    mode = case.split(";")[0].split(",")[0]
    fs = [f.split(",") for f in obs.split(";")]
    ops = case.split(";")[1:]
    pend = any(o == "4" and f[0] == "0" and f[3] == p[3] for o, f, p in zip(ops[1:], fs[1:], fs))
    woke = any(f[1] == "1" for f in fs)
    last = fs[-1][0]
    return "mode %s final status %s reader-was-pending=%d woken-seen=%d multi-chunk=%d" % (
        mode, last, pend, woke, sum(1 for o in ops if o.startswith("1,")) > 1)


def main():
    ap = argparse.ArgumentParser()
    ap.add_argument("--seed", type=int, default=1)
    ap.add_argument("--tier", default="quick")
    ap.add_argument("--show", type=int, default=5)
    a = ap.parse_args()
    ok, lg = C.build_harness()
    if not ok:
        print(lg)
        return 2
    ok, lg = C.build_driver()
    if not ok:
        print(lg)
        return 2
    rng = random.Random(a.seed)
    total = bad = 0
    for name, cases in G.all_cases(rng, a.tier):
        t0 = time.time()
        impl = C.run_harness("payload", cases)
        t1 = time.time()
        model = C.run_model("payload", cases)
        t2 = time.time()
        diffs = [i for i in range(len(cases)) if impl[i] != model[i]]
        total += len(cases)
        bad += len(diffs)
        print("== %s: %d cases, %d differences (harness %.1fs, model %.1fs)" % (name, len(cases), len(diffs), t1 - t0, t2 - t1))
        hist = collections.Counter(classify(c, o) for c, o in zip(cases, impl))
        for k, v in sorted(hist.items(), key=lambda kv: -kv[1])[:12]:
            print("     %7d  %s" % (v, k))
        for i in diffs[:a.show]:
            print("  DIFF case : %s" % cases[i])
            print("       impl : %s" % impl[i])
            print("       model: %s" % model[i])
    print("TOTAL %d cases, %d differences" % (total, bad))
    return 1 if bad else 0


if __name__ == "__main__":
    try:
        sys.exit(main())
    except C.Broken as e:
        print("BROKEN:", e)
        sys.exit(2)
