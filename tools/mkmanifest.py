#!/usr/bin/env python3
"""writes MANIFEST.json from the table below (run after adding a property)"""
import json
import os
import subprocess

ROOT = os.path.dirname(os.path.dirname(os.path.abspath(__file__)))
NOTE = ("Trusted: Coq 8.16.1 kernel + vm_compute, tools/rs2v.py (constants from the Rust source), extraction "
        "(ExtrOcamlBasic only) + ocaml/driver.ml, the Rust harness; ntex-io/ntex-util/ntex-service/executor are "
        "modelled, not verified; the model/implementation tie is differential testing, not proof.")
TECH = "machine-checked proof in Coq (model + theorems) + model/implementation correspondence check"

CHECKS = {
    "C01": ("Coq theorems: var-int round trip for all 2^28 values; the packet-type bytes, property ids, reason codes, "
            "flag bits translated from the Rust source on every run equal the OASIS tables (a consistent "
            "encoder+decoder change breaks them); per-packet round-trip/layout theorems as listed in the evidence. "
            "Executable codec models (v3, v5) tied to the crate by differential runs of encoder and decoder, "
            "incl. frames from an independent spec encoder with shuffled properties.", "section 5, C01"),
    "C04": ("Coq theorem over all well-formed histories and every wrapping base value: what the response queue has "
            "written is exactly the responses of the longest completed prefix of requests in arrival order (none "
            "lost, none duplicated, none out of order); after a handler error still a prefix. The model of "
            "io.rs's queue is tied to the real io::Dispatcher by exhaustive completion interleavings.",
            "section 5, C04"),
    "C07": ("Coq theorems (Props/C07.v) about an executable model of io.rs's connection life cycle (Processing / "
            "Backpressure / Stop / Shutdown / ShutdownIo) for all event sequences: at most one Stop control call and "
            "exactly one when the task completes, which reason it carries, no return to Processing, stopping is notified "
            "only after the Stop call completed, Done needs Stop + service shutdown + io shutdown; two refutations are "
            "recorded findings. Model tied to the real io::Dispatcher by 1.6*10^5 event sequences (1.7*10^4 in quick). "
            "Partial: actual task cancellation, io shutdown and absence of hangs inside ntex are observed by the harness "
            "only; pending sink futures resolving Disconnected is carried by the sink model (C05/C06/C13).",
            "section 5, C07"),
    "C20": ("Coq theorems (Props/C20.v, 20) about an executable model of io.rs's timer flag machine over discrete time "
            "with an assumed one-slot restartable timer: a live peer is never timed out (default configuration: "
            "unconditionally; with frame_read_rate: outside the recorded finding), idle peers time out, keep-alive 0 "
            "disables, read-rate rule (slow frame / extension / max timeout), no underflow from any state, keep-alive "
            "factor in u16 arithmetic, connect timeout, client PINGREQ cadence. Tied to the real dispatcher by event "
            "sequences and to real v3/v5 servers/clients by ~100 real-time scenarios (1 s grid). Partial: the timer wheel "
            "and wall clock are assumed, only tested.", "section 5, C20"),
    "C09": ("Coq theorems on the size/limit arithmetic (var_int_len_from_size inverse for all lengths, truthful var-int "
            "lengths, panic branch reached iff out of range, limit scalars from the source) plus the per-packet "
            "size-agreement/limit theorems listed in the evidence; encoder models tied to the crate for every "
            "peer maximum 1..64 and samples to 2^28, debug and release builds.", "section 5, C09"),
    "C12": ("Coq theorems (Props/C12.v, 14) about an executable model of inflight.rs driven by io.rs's reading rule, "
            "for all legal operation sequences: at most max_receive non-chunk calls run at once, bytes in flight "
            "<= max_receive_size + last packet, chunks of a streamed publish bypass the limit and the final chunk "
            "ends the bypass, no lost wake-up (paused + available => woken), progress, no panic; plus the "
            "refutation witnesses of the pre-fix tree (spawned calls counted late). Model tied to the real "
            "InFlightServiceImpl by 5*10^5 exhaustive/random op sequences per quick run. The v5 receive-maximum half "
            "is carried by the inbound model.", "section 5, C12"),
    "C19": ("Coq theorems (Props/C19.v, 18): gate (handlers only after CONNECT + accepting answer, for any bytes and "
            "fragmentation), non-CONNECT first packet ends, refusal = CONNACK then close, routing of the combined "
            "server = sniffer result for every fragmentation, keep-alive factor in u16 arithmetic, cap = min rule, "
            "limits in force = negotiated values; two refutations recorded as findings. Handshake model composed "
            "with the codec and sniffer models, tied to real combined/v3/v5 servers on ~5*10^3 cases.",
            "section 5, C19"),
    "C18": ("Six Coq theorems (Props/C18.v) about an executable model of src/topic.rs, for all byte strings of any "
            "length: validator = section 4.7 validity, the two validators agree, matches_topic = the section 4.7 "
            "answer (independent spec), parse/display round trip, soundness of matches_filter as a covering "
            "relation. Tied to the code by 4*10^5 exhaustive pairs per quick run through the extracted model and a "
            "spec oracle.", "section 5, C18"),
}

ENGINES = [
    ("coq-proofs", "coq/", "Coq 8.16 models (Model/), independent specs (Spec/), proofs (Proofs/), statements (Props/)"),
    ("rs2v-translator", "tools/rs2v.py", "regenerates coq/Gen/Consts.v from the Rust source text on every run"),
    ("harness", "harness/", "Rust crate driving the real ntex-mqtt on case files (pure engines and async engines "
                            "over ntex_io::testing::IoTest)"),
    ("model-driver", "ocaml/driver.ml", "runs the extracted Coq engines and oracles on the same case files"),
]


def main():
    hooks = subprocess.run(["git", "-C", "/repo", "log", "--format=%h %s"], capture_output=True, text=True).stdout
    hook_commits = [l.split()[0] for l in hooks.splitlines() if "verif hooks" in l]
    m = {
        "version": 1,
        "setup_cmd": "python3 tools/setup.py",
        "hooks": {
            "guard": "ntex_mqtt_verif",
            "enable": "RUSTFLAGS=\"--cfg ntex_mqtt_verif\" (harness/.cargo/config.toml and tools/common.py set it)",
            "baseline_off_cmd": "cd /repo && cargo test --workspace --no-fail-fast --offline",
            "source_commits": hook_commits,
            "add_only": True,
        },
        "engines": [{"name": n, "path": p, "serves_properties": sorted(CHECKS), "kind_free_text": t}
                    for n, p, t in ENGINES],
        "checks": [],
        "not_applicable": [],
        "notes": "properties are added as their checks turn green; see DESIGN.md",
    }
    props = [json.loads(l)["id"] for l in open(os.path.join(ROOT, "properties.jsonl")) if l.strip()]
    for pid in props:
        if pid in CHECKS:
            text, ref = CHECKS[pid]
            m["checks"].append({
                "property_id": pid,
                "quick_cmd": "python3 tools/check.py %s --tier quick" % pid,
                "thorough_cmd": "python3 tools/check.py %s --tier thorough" % pid,
                "evidence_file": "evidence/%s.json" % pid,
                "replay_cmd_template": "python3 tools/check.py %s --replay {path}" % pid,
                "engine": "coq-proofs",
                "level_claimed": {"category": "proof", "text": text, "design_ref": "DESIGN.md " + ref},
                "level_note": NOTE,
                "technique": TECH,
            })
        else:
            m["not_applicable"].append({"property_id": pid, "reason": "check not finished yet in this revision "
                                        "(model/proofs under construction; the technique applies, see DESIGN.md)"})
    json.dump(m, open(os.path.join(ROOT, "MANIFEST.json"), "w"), indent=1)
    print(len(m["checks"]), "checks")


if __name__ == "__main__":
    main()
