#!/usr/bin/env python3
"""writes MANIFEST.json from the table below (run after adding a property)"""
import json
import os
import subprocess

ROOT = os.path.dirname(os.path.dirname(os.path.abspath(__file__)))
NOTE = ("Trusted: Coq 8.16.1 kernel + vm_compute, tools/rs2v.py (constants from the Rust source), extraction "
        "(ExtrOcamlBasic only) + ocaml/driver.ml, the Rust harness; ntex-io/ntex-util/ntex-service/executor are "
        "modelled, not verified; the model/implementation tie is differential testing, not proof.")
TECH = "machine-checked proof in Coq (model + theorems) + model/implementation correspondence check"

CHECKS = {
    "C01": ("Coq theorems: var-int round trip for all 2^28 values; the packet-type bytes, property ids, reason codes, "
            "flag bits translated from the Rust source on every run equal the OASIS tables (a consistent "
            "encoder+decoder change breaks them); per-packet round-trip/layout theorems as listed in the evidence. "
            "Executable codec models (v3, v5) tied to the crate by differential runs of encoder and decoder, "
            "incl. frames from an independent spec encoder with shuffled properties.", "section 5, C01"),
    "C02": ("Coq theorems (Props/C02.v, 41) on executable v3/v5 decoder models for ALL byte strings: decoding is total "
            "(no panic site reachable: every length subtraction is checked), every byte string gets exactly one of "
            "packet / need-more / error, malformed classes (reserved flags, bad remaining length, truncated fields, "
            "invalid UTF-8, duplicate properties, zero ids) are rejected with an error and never yield a packet, the "
            "size limit is enforced before the body is read. Decoder models tied to the crate's codecs on valid, "
            "mutated and random byte strings (debug and release), plus spec-level clauses checked on the "
            "implementation's own answers.", "section 5, C02"),
    "C08": ("Coq theorems (Props/C08.v, 9): for every sequence of encoder operations (packets, publishes with full / "
            "partial / no inline payload, payload chunks; succeeding or failing) issued under the sink's guard the "
            "bytes written are a concatenation of complete frames followed by at most one open frame missing exactly "
            "the payload bytes still owed (generic Section instantiated with the v3 and v5 encoder models); a failing "
            "operation appends nothing. Tied to the crate by encoder op sequences and by sink-level streaming runs "
            "whose peer-side byte stream is re-parsed.", "section 5, C08"),
    "C10": ("Coq theorems (Props/C10.v, 14 + Props/C10pl.v, 11): the decoder's item sequence is the same for every "
            "fragmentation of a byte stream (induction over cut sets, v3 and v5), payload pieces add up to the "
            "declared size with exactly one final piece and respect min-chunk; and, connection level, Payload::read / "
            "read_all over the bstream channel return exactly the bytes fed, in order, for every feed/poll/eof/error "
            "schedule, with no lost wake-up. Tied to the crate by streams x cut sets and 1.2*10^5 payload schedules "
            "per quick run. Partial: the sender-side pause of the dispatcher (payload buffer full) is not compared.",
            "section 5, C10"),
    "C05": ("Coq theorems (Props/C05.v, 7) about an executable model of the v3/v5 sink (send window, waiters, "
            "back-pressure) for every operation list, both versions and roles: the in-flight queue never exceeds the "
            "limit, packets written minus finally acknowledged never exceeds it, an entry is appended only by a step "
            "that started with room and back-pressure off. Tied to the real MqttSink by exhaustive short and random "
            "operation lists over the in-memory transport and a peer's-view oracle.", "section 5, C05"),
    "C06": ("Coq theorems (Props/C06.v, 12) on the sink model: outstanding ids pairwise distinct and non-zero, an "
            "explicit id in flight is refused, an acknowledgement completes only the head of the queue and only when "
            "type and id match, a send returns Ok only through its completed channel, a mismatch ends the connection "
            "and fails every pending send, a well-behaved peer never causes a close and every send completes. Tied "
            "to the real sink by the same operation lists.", "section 5, C06"),
    "C13": ("Coq theorems (Props/C13.v, 9) on the sink model, for every operation list outside the three recorded "
            "finding classes (executable predicate Known: a woken waiter is dropped / is a ready() future / ends with a "
            "local error): whenever a live sender is parked, the window is full counting the senders already woken, or "
            "back-pressure is on (no lost wake-up); at quiescence every sender is done; a cancelled waiter at the head "
            "is skipped; set_cap and back-pressure-off wake unconditionally; streamed sends resume; three refutation "
            "witnesses for the finding classes. Tied to the real sinks by op lists driven to quiescence, incl. "
            "cancelled waiters x every wake source.", "section 5, C13"),
    "C14": ("Coq theorems (Props/C14.v, 5) on the sink model: each release of a QoS 2 receipt (explicit or by drop) "
            "writes exactly one PUBREL with its own id, waits on the channel of its own id, leaves every other task "
            "and channel untouched, and completes on its own PUBCOMP; one recorded leniency (PUBCOMP before PUBREL is "
            "accepted). Tied to the real sink by QoS 2 orderings and random operation lists.", "section 5, C14"),
    "C03": ("Coq theorems (Props/C03.v, 12) on the protocol-decision layer of an executable model of the v3/v5 "
            "server and client dispatchers (Model/Inbound.v), for all states and packets: the handler invocation carries "
            "the packet's fields, exactly one handler record per accepted PUBLISH, no acknowledgement while the handler "
            "is parked, the acknowledgement matches the QoS (nothing / PUBACK / PUBREC), PUBCOMP(0) only for a PUBREL "
            "that reached the protocol service, a failing handler never yields a success acknowledgement and stops the "
            "connection; over whole runs of the server roles the PUBACK/PUBREC entries on the wire never outnumber the "
            "handler completions given so far (C03_one_ack_per_handler_run); one refutation is a recorded finding "
            "(client, unrouted QoS 2). Model tied to real servers and clients by 4.9*10^4 peer-packet/completion "
            "sequences per quick run plus peer's-view scans. Partial: the per-identifier form of the run-level "
            "accounting and the client roles are carried by the correspondence run.",
            "section 5, C03"),
    "C11": ("Coq theorems (Props/C11.v, 23), all states and packets: a packet whose id is in use is never delivered "
            "(v3: protocol error, v5: answered 0x91) and changes no protocol state; an id stays reserved across every "
            "other exchange's packets and completions and is free again exactly after its final acknowledgement "
            "(PUBACK / SUBACK / UNSUBACK / PUBCOMP / negative PUBREC); PUBREL is accepted only for ids whose positive "
            "PUBREC was produced, stray PUBREL refused. Tied to real endpoints by id histories over three ids and the "
            "id-life-cycle scans P3/P10/P11.", "section 5, C11"),
    "C15": ("Coq theorems (Props/C15.v, 24): over every operation list of the full operational model at most one "
            "DISCONNECT is on the wire, at most one Stop is delivered, every v5 DISCONNECT the endpoint writes for an "
            "error has reason >= 0x80, none after the peer's, nothing after its own (io closed); every emission site "
            "tests and sets the flag; dedicated codes for QoS / receive maximum / unknown alias proved on the decision "
            "layer, the whole SpecViolation -> reason table and from_proto_error table translated from the source and "
            "proved equal to the MQTT 5 table. One refutation recorded (service-supplied DISCONNECT never reaches the "
            "wire). Tied to real v5 endpoints by initiator sequences and scans P5/P12.", "section 5, C15"),
    "C16": ("Coq theorems (Props/C16.v, 5): every well-formed packet in every state is handed to the application, "
            "answered, ends the connection with a protocol error (reason >= 0x80, Stop kind Protocol) or is one of the "
            "listed ignored cases; an undecodable packet stops the dispatcher; at most one Stop over every run; "
            "C16_no_panic / C16_engines_never_panic: over every operation list (< 2^64 operations) of the full "
            "operational model, all four roles, the response-queue panic flag is never set (queue-index invariant W). "
            "The sink side is carried by the sink theorems for acknowledgements and by runs against busy endpoints. "
            "Partial: hangs inside ntex are observed only.", "section 5, C16"),
    "C17": ("Coq theorems (Props/C17.v, 13; Props/C17router.v, 4: with the router's own alias cache in the model, handler and topic of every PUBLISH of every history equal the cache-free routing by resolved topic, for any recognizer and any initial cache): an alias-only PUBLISH is delivered with the topic most recently bound "
            "to that alias on this connection, a PUBLISH with topic and alias rebinds exactly that alias, nothing else "
            "changes the table, unbound aliases are never delivered (0x94 once earlier checks pass), aliases over the "
            "maximum are neither delivered nor recorded, two connections' tables never influence each other (any "
            "interleaving = the two separate runs), client-side routing depends only on the resolved topic. Tied to "
            "real v5 servers/clients (v5::Router and ClientRouter resources log their own index) by alias sequences and "
            "scan P9, including publishes that sit behind the peer's DISCONNECT in the same read under "
            "handle_qos_after_disconnect (dropped publishes still re-bind). Partial: the router caches are not modelled, "
            "only observed.", "section 5, C17"),
    "C04": ("Coq theorem over all well-formed histories and every wrapping base value: what the response queue has "
            "written is exactly the responses of the longest completed prefix of requests in arrival order (none "
            "lost, none duplicated, none out of order); after a handler error still a prefix. The model of "
            "io.rs's queue is tied to the real io::Dispatcher by exhaustive completion interleavings.",
            "section 5, C04"),
    "C07": ("Coq theorems (Props/C07.v) about an executable model of io.rs's connection life cycle (Processing / "
            "Backpressure / Stop / Shutdown / ShutdownIo) for all event sequences: at most one Stop control call and "
            "exactly one when the task completes, which reason it carries, no return to Processing, stopping is notified "
            "only after the Stop call completed, Done needs Stop + service shutdown + io shutdown; two refutations are "
            "recorded findings. Model tied to the real io::Dispatcher by 1.6*10^5 event sequences (1.7*10^4 in quick). "
            "Partial: actual task cancellation, io shutdown and absence of hangs inside ntex are observed by the harness "
            "only; pending sink futures resolving Disconnected is carried by the sink model (C05/C06/C13).",
            "section 5, C07"),
    "C20": ("Coq theorems (Props/C20.v, 20) about an executable model of io.rs's timer flag machine over discrete time "
            "with an assumed one-slot restartable timer: a live peer is never timed out (default configuration: "
            "unconditionally; with frame_read_rate: outside the recorded finding), idle peers time out, keep-alive 0 "
            "disables, read-rate rule (slow frame / extension / max timeout), no underflow from any state, keep-alive "
            "factor in u16 arithmetic, connect timeout, client PINGREQ cadence. Tied to the real dispatcher by event "
            "sequences and to real v3/v5 servers/clients by ~100 real-time scenarios (1 s grid). Partial: the timer wheel "
            "and wall clock are assumed, only tested.", "section 5, C20"),
    "C09": ("Coq theorems on the size/limit arithmetic (var_int_len_from_size inverse for all lengths, truthful var-int "
            "lengths, panic branch reached iff out of range, limit scalars from the source) plus the per-packet "
            "size-agreement/limit theorems listed in the evidence (incl. the converse of the over-size rule for SUBACK/UNSUBACK: never refused when the packet without diagnostics fits); encoder models tied to the crate for every "
            "peer maximum 1..64 and samples to 2^28, debug and release builds.", "section 5, C09"),
    "C12": ("Coq theorems (Props/C12.v, 14) about an executable model of inflight.rs driven by io.rs's reading rule, "
            "for all legal operation sequences: at most max_receive non-chunk calls run at once, bytes in flight "
            "<= max_receive_size + last packet, chunks of a streamed publish bypass the limit and the final chunk "
            "ends the bypass, no lost wake-up (paused + available => woken), progress, no panic; plus the "
            "refutation witnesses of the pre-fix tree (spawned calls counted late). Model tied to the real "
            "InFlightServiceImpl by 5*10^5 exhaustive/random op sequences per quick run. MQTT 5 half (Props/C12v5.v, 5): "
            "over quota -> 0x93, within quota never refused for that reason, the quota counts unacknowledged QoS>0 "
            "publishes only; tied to real v5 endpoints by receive-maximum bursts and scan P13.", "section 5, C12"),
    "C19": ("Coq theorems (Props/C19.v, 18): gate (handlers only after CONNECT + accepting answer, for any bytes and "
            "fragmentation), non-CONNECT first packet ends, refusal = CONNACK then close, routing of the combined "
            "server = sniffer result for every fragmentation, keep-alive factor in u16 arithmetic, cap = min rule, "
            "limits in force = negotiated values; two refutations recorded as findings. Handshake model composed "
            "with the codec and sniffer models, tied to real combined/v3/v5 servers on ~5*10^3 cases.",
            "section 5, C19"),
    "C18": ("Ten Coq theorems (Props/C18.v) about an executable model of src/topic.rs, for all byte strings of any "
            "length: validator = section 4.7 validity, the two validators agree, matches_topic = the section 4.7 "
            "answer (independent spec), parse/display round trip, soundness of matches_filter as a covering "
            "relation, which is a preorder and never lets a first-position wildcard cover a $-level. Tied to the code by 4*10^5 exhaustive pairs per quick run through the extracted model and a "
            "spec oracle.", "section 5, C18"),
}


EXTRA = {
    "C04": " Connection level: real v3/v5 servers, the responses seen by the peer are in request order (scan P16), also "
           "when the requests arrive in one read (burst engines) and while the outbound side is busy (sink engines, "
           "inbound PUBLISH, clause 41); the client role answers the broker's requests in order too (cli3/cli5 parts, "
           "P16 restricted to cases with one request per packet id).",
    "C05": " The origin of the limit (min of configured/overridden max_send and the peer's Receive Maximum) is checked on "
           "real handshakes (engine hs, credit probes); a client's window after CONNACK is the announced limit "
           "(clause 53).",
    "C06": " A PUBLISH that cannot be encoded reserves nothing (C06_failed_publish_reserves_nothing, task kind 8).",
    "C08": " At sink level (Props/C08sink.v): in every reachable state the sink's and the codec's view of the owed "
           "payload agree, no packet is written while a payload is owed, a send that fails writes nothing and "
           "registers nothing, chunks stay within the declared size.",
    "C14": " An id stays owned until PUBCOMP (clause 63 on the wire log); a PUBREL leaves only when a receipt is "
           "released or dropped (clause 144). Every reachable receipt has its channel under the executable 'PUBCOMP only after our PUBREL' predicate "
           "(C14_receipt_has_channel), so the release theorems need no extra hypothesis.",
    "C07": " Payload readers at teardown: engines plstop3/plstop5 with Model/PlStop.v and Props/C07pl.v (a reader "
           "never finishes Ok with fewer bytes than announced; after the end it fails within buffered+1 polls)."
           " Pending sends at teardown: closing schedules on the real sinks (clause 71), including a close and a poll in "
           "ONE turn (operation 18) and a send owned by the executor (operation 19); Props/C07stop.v: once the queues "
           "have been cleared no send is registered and nobody is parked, also while a graceful close is in progress. "
           "A failing handler must end the connection without waiting for another event (clause 8).",
    "C10": " The glue to the in-flight limiter (impl SizedRequest for Decoded) is modelled (Model/Sized.v, engines "
           "sized3/sized5): a PUBLISH with an incomplete payload is flagged whatever piece came with the header. A reader "
           "that abandons a streamed payload leaves the connection intact for every way of cutting the payload into "
           "pieces (engines plstop3/plstop5, operation 10, clauses 31/32).",
    "C12": " Whole servers when several frames arrive in ONE read: engines inb3b/inb5b (Model/InboundBurst.v, "
           "Props/C12burst.v: the same server model plus a held write), scans P19 (v3: never more handlers at once than "
           "max_receive), P20 (everything handled once the handlers finish). The limiter's view of decoded items (what wf_stream assumes) is tied to the codec by engines sized3/sized5; "
           "the client role of the receive maximum is covered by the cli5 cases; the Receive Maximum in force is the one "
           "announced in CONNACK, handshake overrides included (handshake engine bursts, clause 11).",
    "C13": " The ControlService wrapper (engines ctlwrap3/ctlwrap5, Model/CtlWrap.v, Props/C13ctl.v): the flag is the "
           "last notification ISSUED, whatever the order in which the application's control calls complete."
           " Where the flag comes from: io.rs announces back-pressure off once the buffer is flushed and the service is "
           "ready (iostate back-pressure parts, clause 133); streamed chunk sends resume (clause 132) and a chunk send "
           "started without back-pressure never waits (clause 135); senders still pending after the connection ended "
           "(clause 71, with an executor-owned task).",
    "C15": " Busy endpoints: the DISCONNECT the sink layer writes for a rule-breaking acknowledgement carries 0x83 "
           "(wire log of Model/Sink.v carries the reason, clause 151); client role covered by scan P12. Limits set up "
           "by the handshake: a PUBLISH over the inbound packet size / maximum QoS is refused with 0x95 / 0x9B "
           "(handshake engine, clause 10). The zero-session-expiry flag of a v5 server is part of the model (configuration "
           "field 5): a DISCONNECT changing the expiry of a non-zero-expiry session is accepted silently "
           "(C15_peer_disconnect_with_expiry_accepted, scan P5).",
    "C16": " Busy endpoints (outstanding sends x every acknowledgement type, every (request kind, acknowledgement "
           "kind) pair with the same id), packets arriving in one read (burst engines), the in-flight limiter's wake-ups "
           "(limiter engine, clauses 4 and 6: a reader that is never woken again is a hang) and the limiter's view of streamed "
           "publishes (a mis-flagged PUBLISH stalls the connection) are part of the run.",
    "C18": " Where the validator is used: SUBSCRIBE / UNSUBSCRIBE with mixed-validity filter lists on real servers "
           "(scan P15).",
    "C19": " Client role: the window after CONNACK equals the announced Receive Maximum (sink engines, role 1).",
    "C20": " Props/C20cli.v: the period the client's loop runs with is the Server Keep Alive of CONNACK when there is "
           "one (also when the client asked for none), else its own. Client keep-alive loop (v3 and v5) with an exhausted send window and keep-alive values at the u16 boundary of the "
           "1.5x factor are among the real-time scenarios.",
}

ENGINES = [
    ("coq-proofs", "coq/", "Coq 8.16 models (Model/), independent specs (Spec/), proofs (Proofs/), statements (Props/)"),
    ("rs2v-translator", "tools/rs2v.py", "regenerates coq/Gen/Consts.v from the Rust source text on every run"),
    ("harness", "harness/", "Rust crate driving the real ntex-mqtt on case files (pure engines and async engines "
                            "over ntex_io::testing::IoTest)"),
    ("model-driver", "ocaml/driver.ml", "runs the extracted Coq engines and oracles on the same case files"),
]


def main():
    hooks = subprocess.run(["git", "-C", "/repo", "log", "--format=%h %s"], capture_output=True, text=True).stdout
    hook_commits = [l.split()[0] for l in hooks.splitlines() if "verif hooks" in l]
    m = {
        "version": 1,
        "setup_cmd": "python3 tools/setup.py",
        "hooks": {
            "guard": "ntex_mqtt_verif",
            "enable": "RUSTFLAGS=\"--cfg ntex_mqtt_verif\" (harness/.cargo/config.toml and tools/common.py set it)",
            "baseline_off_cmd": "cd /repo && cargo test --workspace --no-fail-fast --offline",
            "source_commits": hook_commits,
            "add_only": True,
        },
        "engines": [{"name": n, "path": p, "serves_properties": sorted(CHECKS), "kind_free_text": t}
                    for n, p, t in ENGINES],
        "checks": [],
        "not_applicable": [],
        "notes": "all 20 properties are claimed; partial parts are named in each level_claimed.text and in the evidence (coverage.partial); see DESIGN.md sections 10-12",
    }
    props = [json.loads(l)["id"] for l in open(os.path.join(ROOT, "properties.jsonl")) if l.strip()]
    for pid in props:
        if pid in CHECKS:
            text, ref = CHECKS[pid]
            text += EXTRA.get(pid, "")
            m["checks"].append({
                "property_id": pid,
                "quick_cmd": "python3 tools/check.py %s --tier quick" % pid,
                "thorough_cmd": "python3 tools/check.py %s --tier thorough" % pid,
                "evidence_file": "evidence/%s.json" % pid,
                "replay_cmd_template": "python3 tools/check.py %s --replay {path}" % pid,
                "engine": "coq-proofs",
                "level_claimed": {"category": "proof", "text": text, "design_ref": "DESIGN.md " + ref},
                "level_note": NOTE,
                "technique": TECH,
            })
        else:
            m["not_applicable"].append({"property_id": pid, "reason": "check not finished yet in this revision "
                                        "(model/proofs under construction; the technique applies, see DESIGN.md)"})
    json.dump(m, open(os.path.join(ROOT, "MANIFEST.json"), "w"), indent=1)
    print(len(m["checks"]), "checks")


if __name__ == "__main__":
    main()
