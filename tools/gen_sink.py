"""Case generators for the engines sink3 / sink5 (outbound bookkeeping: MqttShared + MqttSink).

Case syntax: see harness/src/engines/sink.rs (first field `cap,role`, then one field per operation).
Everything is a pure function of one `random.Random` and size knobs and returns a list of case lines.

`Sim` is a small python re-statement of coq/Model/Sink.v.  It is used ONLY to steer the generators towards
interesting schedules (which acknowledgement is expected next, which tasks are parked / woken / awaiting, is
the connection still open); nothing depends on it being right: a wrong guess just makes a duller case.
diff_sink.py can additionally print where it disagrees with the two real sides (--sim).
"""
import itertools

OPEN, FILLED, SDROPPED = 0, 1, 2


def line(fields):
    return ";".join(",".join(str(n) for n in f) for f in fields)


class Task:
    __slots__ = ("k", "id", "size", "st", "arg", "arg2", "ttx", "sm")

    def __init__(self, k, idq=0, size=0):
        self.k, self.id, self.size = k, idq, size
        self.st, self.arg, self.arg2 = "dropped", None, None   # st: parked/await/receipt/comp/ready/done/dropped
        self.ttx = False
        self.sm = None

    def clone(self):
        t = Task(self.k, self.id, self.size)
        t.st, t.arg, t.arg2, t.ttx = self.st, self.arg, self.arg2, self.ttx
        t.sm = dict(self.sm) if self.sm is not None else None
        return t

    def status(self):
        if self.st in ("parked", "await", "comp", "ready", "new", "deferred"):
            return 1
        if self.st == "receipt":
            return 2
        if self.st == "done":
            return self.arg
        return 0


class Sim:
    def __init__(self, ver, cap, client=False):
        self.ver, self.client, self.cap = ver, client, cap % 65536
        self.inflight, self.ids, self.waiters, self.rxm = [], [], [], {}
        self.idx, self.wrb, self.disc, self.srem, self.swait = 0, False, False, 0, None
        self.io, self.crem = 0, 0
        self.chans = []
        self.tasks = {}
        self.wire = []

    def clone(self):
        s = Sim.__new__(Sim)
        s.ver, s.client, s.cap = self.ver, self.client, self.cap
        s.inflight, s.ids, s.waiters, s.rxm = list(self.inflight), list(self.ids), list(self.waiters), dict(self.rxm)
        s.idx, s.wrb, s.disc, s.srem, s.swait = self.idx, self.wrb, self.disc, self.srem, self.swait
        s.io, s.crem = self.io, self.crem
        s.chans = [list(c) for c in self.chans]
        s.tasks = {t: x.clone() for t, x in self.tasks.items()}
        s.wire = list(self.wire)
        return s

    # ---- channels
    def new_chan(self):
        self.chans.append([OPEN, True])
        return len(self.chans) - 1

    def send(self, c):
        if self.chans[c][1]:
            self.chans[c][0] = FILLED
            return True
        return False

    def drop_tx(self, c):
        if c is not None and self.chans[c][0] == OPEN:
            self.chans[c][0] = SDROPPED

    def drop_rx(self, c):
        self.chans[c][1] = False

    def poll(self, c):
        return ("pending", "val", "canceled")[self.chans[c][0]]

    # ---- io / codec
    def closed(self):
        return self.io == 2

    def enc_packet(self, tag, pid):
        if self.io == 0:
            if self.crem:
                return False
            self.wire += [tag, pid]
        return True

    def enc_publish(self, tag, pid, rem):
        if self.io == 0:
            self.wire += [tag, pid]
            self.crem = rem

    def enc_chunk(self, n):
        if self.io == 0:
            if self.crem == 0 or self.crem < n:
                return False
            if n:
                self.wire += [8, n]
            self.crem -= n
        return True

    # ---- shared
    def credit(self):
        return max(0, self.cap - len(self.inflight))

    def next_id(self):
        if self.idx >= 65535:
            return None
        i = self.idx + 1
        if i == 65535:
            self.idx = 0
            return 65535
        self.idx = i
        return i

    def wait_readiness(self):
        if len(self.inflight) >= self.cap or self.wrb:
            c = self.new_chan()
            self.waiters.append(c)
            return c
        return None

    def wake(self, num):
        while num > 0 and self.waiters:
            c = self.waiters.pop(0)
            if self.send(c):
                num -= 1

    def clear_queues(self):
        for c in self.waiters:
            self.drop_tx(c)
        self.waiters = []
        self.drop_tx(self.swait)
        self.swait = None
        for (_, tx, _) in self.inflight:
            self.drop_tx(tx)
        self.inflight = []

    def io_close(self):
        if self.io == 0:
            self.io = 1

    def do_close(self, reason=0):
        """reason: the reason code of the v5 DISCONNECT (second slot of its wire entry); v3 has none: 0"""
        if self.ver == 3:
            if self.client:
                sent, self.disc = self.disc, True
                if not sent and not self.srem:
                    self.enc_packet(7, 0)
            self.io_close()
        elif not self.closed():
            sent, self.disc = self.disc, True
            if not sent:
                self.enc_packet(7, reason)
            self.io_close()
        self.clear_queues()

    def do_force_close(self):
        self.io = 2
        self.clear_queues()

    def do_wrb(self, on):
        if on:
            self.wrb = True
            return
        self.wrb = False
        if self.swait is not None:
            self.send(self.swait)
            self.swait = None
        if len(self.inflight) < self.cap:
            self.wake(self.cap - len(self.inflight))

    def pkt_ack_inner(self, k, pid):
        if not self.inflight:
            return False
        i, tx, tp = self.inflight.pop(0)
        if i != pid or k != tp:
            self.drop_tx(tx)
            return False
        if k == 2:
            self.send(tx)
            c = self.new_chan()
            if i in self.rxm:
                self.drop_rx(self.rxm[i])
            self.rxm[i] = c
            self.inflight.append((i, c, 3))
            return True
        if pid in self.ids:
            self.ids.remove(pid)
        if k == 3 and pid in self.rxm:
            self.drop_rx(self.rxm.pop(pid))
        self.send(tx)
        self.wake(1)
        return True

    def ack_one(self, k, pid):
        pid %= 65536
        if k == 6:
            k = 2                              # PUBREC with a failure reason code: a PUBREC for the sink layer
        if self.io != 0 or k == 0 or k > 5:
            return
        if pid == 0:
            self.do_close(131)                 # control path: Disconnect::from_proto_error -> ImplementationSpecificError
        elif k in (4, 5) and not self.client:
            return
        elif not self.pkt_ack_inner(k, pid):
            self.do_close(131)                 # pkt_ack: close(Some(Disconnect { ImplementationSpecificError }))

    def wait_publish_response(self, pid, ack, rem, tag, big=False):
        if self.io != 0:
            return None, 3           # check_stopped: the queues have been cleared
        if self.srem:
            return None, 5
        if pid in self.ids:
            return None, 4
        if big and self.io == 0:
            # the PUBLISH exceeds the maximum outbound packet size: the encoder refuses, nothing is registered
            return None, 5
        self.enc_publish(tag, pid, rem)
        self.srem = rem
        c = self.new_chan()
        self.inflight.append((pid, c, ack))
        self.ids.append(pid)
        return c, None

    def wait_response(self, pid, ack, tag):
        if self.io != 0:
            return None, 3
        if self.srem:
            return None, 5
        if pid in self.ids:
            return None, 4
        if not self.enc_packet(tag, pid):
            return None, 5
        c = self.new_chan()
        self.inflight.append((pid, c, ack))
        self.ids.append(pid)
        return c, None

    def release_publish(self, pid):
        if pid not in self.rxm:
            return None
        c = self.rxm.pop(pid)
        return c, self.enc_packet(4, pid)

    # ---- tasks
    def drop_sig(self, x):
        if x.ttx and x.sm is not None:
            self.drop_tx(x.sm["sg"])

    def set(self, x, st, arg=None, arg2=None):
        x.st, x.arg, x.arg2 = st, arg, arg2
        if st != "parked":
            x.ttx = False

    def proceed(self, x):
        pid = x.id if x.id else self.next_id()
        if pid is None:
            self.drop_sig(x)
            return self.set(x, "done", 9)
        if x.k in (3, 4):
            c, e = self.wait_response(pid, 4 if x.k == 3 else 5, 5 if x.k == 3 else 6)
        else:
            if x.k == 7 and not self.chans[x.sm["sg"]][1]:
                return self.set(x, "done", 7)
            c, e = self.wait_publish_response(pid, 2 if x.k == 2 else 1, x.size if x.k == 7 else 0,
                                              2 if x.k == 2 else 1, x.k == 8)
            if x.k == 7:
                self.send(x.sm["sg"])
        if e is None:
            self.set(x, "await", c, pid)
        else:
            self.drop_sig(x)
            self.set(x, "done", e)

    def window_then_proceed(self, x):
        if self.io != 0:
            # queues cleared: wait_readiness() hands out a receiver whose sender is gone, the send fails at once
            self.set(x, "done", 3)
            return
        c = self.wait_readiness()
        if c is not None:
            self.set(x, "parked", c)
        else:
            self.proceed(x)

    def start(self, t, k, idq=0, size=0):
        idq %= 65536
        if t in self.tasks or k == 0 or k > 8:
            return
        if k == 6:
            x = Task(k)
            if self.closed():
                self.set(x, "done", 3)
            elif self.srem:
                self.set(x, "done", 5)
            else:
                self.enc_publish(3, 0, 0)
                self.srem = 0
                self.set(x, "done", 2)
        elif k == 5:
            x = Task(k)
            if self.closed():
                self.set(x, "done", 3)
            else:
                c = self.wait_readiness()
                if c is None:
                    self.set(x, "done", 2)
                else:
                    self.set(x, "ready", c)
        else:
            x = Task(k, idq, size if k == 7 else 0)
            if k == 7:
                x.sm = {"sg": self.new_chan(), "rx": True, "inproc": False, "alive": True, "pend": None, "cstat": 0}
                x.ttx = True
            if self.closed():
                self.drop_sig(x)
                self.set(x, "done", 3)
            else:
                self.window_then_proceed(x)
            if x.sm is not None and x.st == "done" and x.arg == 9:
                # the call itself panicked: no StreamingPayload is returned
                x.sm.update(rx=False, alive=False, pend=None, cstat=0)
        self.tasks[t] = x

    def create(self, t, k, idq=0, size=0):
        """operation 16: the API call without the first poll"""
        idq %= 65536
        if t in self.tasks or k == 0 or k > 8:
            return
        if k == 6:
            return self.start(t, k, idq, size)
        if k == 5:
            x = Task(k)
            if self.closed():
                self.set(x, "deferred", 3)
            else:
                c = self.wait_readiness()
                if c is None:
                    self.set(x, "deferred", 2)
                else:
                    self.set(x, "ready", c)
        elif k in (3, 4):
            x = Task(k, idq, 0)
            self.set(x, "new")
        else:
            x = Task(k, idq, size if k == 7 else 0)
            if k == 7:
                x.sm = {"sg": self.new_chan(), "rx": True, "inproc": False, "alive": True, "pend": None, "cstat": 0}
                x.ttx = True
            if self.closed():
                self.drop_sig(x)
                self.set(x, "done", 3)
            else:
                self.window_then_proceed(x)
            if x.sm is not None and x.st == "done" and x.arg == 9:
                # the call itself panicked: no StreamingPayload is returned
                x.sm.update(rx=False, alive=False, pend=None, cstat=0)
            if x.st == "done" and x.arg != 9:
                self.set(x, "deferred", x.arg)
        self.tasks[t] = x

    def poll_task(self, t):
        x = self.tasks.get(t)
        if x is None:
            return
        if x.st == "new":
            if self.closed():
                self.set(x, "done", 3)
            else:
                self.window_then_proceed(x)
        elif x.st == "deferred":
            self.set(x, "done", x.arg)
        elif x.st == "parked":
            r = self.poll(x.arg)
            if r == "canceled" or (r == "val" and self.closed()):
                self.drop_sig(x)
                self.set(x, "done", 3)
            elif r == "val":
                self.window_then_proceed(x)
        elif x.st in ("await", "comp", "ready"):
            r = self.poll(x.arg)
            if r == "canceled":
                self.set(x, "done", 3)
            elif r == "val":
                if x.st == "await" and x.k == 2:
                    self.set(x, "receipt", x.arg2)
                else:
                    self.set(x, "done", 2)

    def drop_task(self, t):
        x = self.tasks.get(t)
        if x is None or x.st not in ("parked", "await", "comp", "ready", "new", "deferred"):
            return
        if x.st in ("new", "deferred"):
            return self.set(x, "dropped")
        self.drop_rx(x.arg)
        if x.st == "parked":
            self.drop_sig(x)
        self.set(x, "dropped")

    def release_task(self, t):
        x = self.tasks.get(t)
        if x is None or x.st != "receipt":
            return
        r = self.release_publish(x.arg)
        if r is None:
            self.set(x, "done", 6)
        elif not r[1]:
            self.drop_rx(r[0])
            self.set(x, "done", 5)
        else:
            p = self.poll(r[0])
            if p == "pending":
                self.set(x, "comp", r[0])
            else:
                self.set(x, "done", 2 if p == "val" else 3)

    def drop_receipt(self, t):
        x = self.tasks.get(t)
        if x is None or x.st != "receipt":
            return
        r = self.release_publish(x.arg)
        if r is not None:
            self.drop_rx(r[0])
        self.set(x, "dropped")

    # ---- StreamingPayload
    def chunk_payload(self, sm, n):
        if self.srem == 0:
            sm["cstat"] = 5
        elif self.srem < n:
            self.do_force_close()
            sm["cstat"] = 5
        elif not self.enc_chunk(n):
            sm["cstat"] = 5
        else:
            self.srem -= n
            sm["cstat"] = 2
            sm["inproc"] = self.srem != 0
        sm["pend"] = None

    def chunk_inprocess(self, sm, n):
        sm["pend"] = None
        if not sm["inproc"]:
            sm["cstat"] = 5
        elif self.closed():
            sm["cstat"] = 3
        elif self.wrb:
            c = self.new_chan()
            self.drop_tx(self.swait)
            self.swait = c
            sm["pend"] = ("wrb", c, n)
            sm["cstat"] = 1
        else:
            self.chunk_payload(sm, n)

    def chunk_signal(self, sm, n):
        sm["rx"] = False
        r = self.poll(sm["sg"])
        if r == "pending":
            sm["pend"] = ("sig", None, n)
            sm["cstat"] = 1
        elif r == "canceled":
            sm["pend"] = None
            sm["cstat"] = 7
        else:
            sm["inproc"] = True
            self.chunk_inprocess(sm, n)

    def chunk_task(self, t, n):
        x = self.tasks.get(t)
        if x is None or x.sm is None or not x.sm["alive"]:
            return
        sm = x.sm
        if sm["pend"] is None:
            if sm["rx"]:
                self.chunk_signal(sm, n)
            else:
                self.chunk_inprocess(sm, n)
        elif sm["pend"][0] == "sig":
            self.chunk_signal(sm, sm["pend"][2])
        else:
            _, c, m = sm["pend"]
            r = self.poll(c)
            if r == "canceled":
                sm["pend"] = None
                sm["cstat"] = 3
            elif r == "val":
                self.chunk_payload(sm, m)

    def drop_pending(self, sm):
        if sm["pend"] is None:
            return False
        self.drop_rx(sm["sg"] if sm["pend"][0] == "sig" else sm["pend"][1])
        sm["pend"] = None
        sm["cstat"] = 0
        return True

    def drop_chunk(self, t):
        x = self.tasks.get(t)
        if x is not None and x.sm is not None and x.sm["alive"]:
            self.drop_pending(x.sm)

    def drop_stream(self, t):
        x = self.tasks.get(t)
        if x is None or x.sm is None or not x.sm["alive"]:
            return
        sm = x.sm
        self.drop_pending(sm)
        if sm["rx"]:
            self.drop_rx(sm["sg"])
            sm["rx"] = False
        if sm["inproc"] and self.srem:
            self.do_force_close()
        sm["alive"] = False
        sm["cstat"] = 0

    # ---- operations
    auto = None       # the task owned by the executor (operation 19)

    def auto_poll(self):
        if self.auto is not None:
            self.poll_task(self.auto)

    def step(self, op):
        self.wire = []
        o = op[0] if op else 0
        a = lambda i: op[i] if len(op) > i else 0  # noqa: E731
        if o == 19 and len(op) >= 4:
            if self.auto is None and a(2) in (1, 3, 4) and a(1) not in self.tasks:
                self.start(a(1), a(2), a(3), 0)
                self.auto = a(1)
                if self.io == 1:
                    self.io = 2
                return self.observe()
        elif o in (2, 3) and len(op) >= 2 and a(1) == self.auto:
            pass
        elif o == 1 and len(op) >= 3:
            self.start(a(1), a(2), a(3), a(4))
        elif o == 2 and len(op) >= 2:
            self.poll_task(a(1))
        elif o == 3 and len(op) >= 2:
            self.drop_task(a(1))
        elif o in (4, 5):
            l = op[1:]
            for j in range(0, len(l) - 1, 2):
                self.ack_one(l[j], l[j + 1])
        elif o == 6 and len(op) >= 2:
            self.release_task(a(1))
        elif o == 7 and len(op) >= 2:
            self.drop_receipt(a(1))
        elif o == 8 and len(op) >= 2:
            self.do_wrb(a(1) != 0)
        elif o == 9 and len(op) >= 2:
            self.wake(a(1))
            self.cap = a(1)
        elif o == 10:
            self.do_close()
        elif o == 18 and len(op) >= 2:
            # graceful close and a poll of task t in the same turn: the poll sees the closing state (io 1)
            self.do_close()
            self.poll_task(a(1))
            self.auto_poll()
            if self.io == 1:
                self.io = 2
            self.clear_queues()          # the dispatcher's shutdown once the io has stopped
            return self.observe()
        elif o == 11:
            self.do_force_close()
        elif o == 12 and len(op) >= 2:
            self.idx = a(1) % 65536
        elif o == 13 and len(op) >= 2:
            self.chunk_task(a(1), a(2))
        elif o == 14 and len(op) >= 2:
            self.drop_stream(a(1))
        elif o == 15 and len(op) >= 2:
            self.drop_chunk(a(1))
        elif o == 16 and len(op) >= 3:
            self.create(a(1), a(2), a(3), a(4))
        elif o == 17 and len(op) >= 2:
            # an inbound QoS 1 PUBLISH answered at once: the PUBACK is the response of the request (io.encode, not the
            # sink's encode_packet); ignored when not open / id 0 / a streamed payload is owed / client role
            pid = a(1) % 65536
            if self.io == 0 and self.srem == 0 and pid != 0 and not self.client:
                self.wire += [104, pid]
        self.auto_poll()                 # a woken spawned task runs before the connection settles
        if self.io == 1:
            self.io = 2
        return self.observe()

    def observe(self):
        o = [len(self.inflight), len(self.waiters), self.cap, int(self.wrb), int(self.srem != 0), self.credit(),
             int(not self.closed() and self.credit() > 0 and not self.wrb), int(not self.closed())]
        for t in sorted(self.tasks):
            x = self.tasks[t]
            o += [t, x.status()]
            if x.sm is not None:
                o += [100 + t, x.sm["cstat"]]
        return o + [255] + self.wire

    # ---- generator helpers
    def woken(self, t):
        x = self.tasks[t]
        return x.st in ("parked", "ready") and self.chans[x.arg][0] == FILLED

    def ripe(self, t):
        """pending task whose next poll makes progress: unpolled, or its channel is no longer open"""
        x = self.tasks[t]
        if x.st in ("new", "deferred"):
            return True
        return x.st in ("parked", "await", "comp", "ready") and self.chans[x.arg][0] != OPEN

    def pending(self):
        return [t for t, x in sorted(self.tasks.items()) if x.status() == 1]

    def receipts(self):
        return [t for t, x in sorted(self.tasks.items()) if x.st == "receipt"]


def run_sim(ver, case_line):
    fs = [[int(x) for x in f.split(",")] if f.strip() else [] for f in case_line.split(";")]
    cfg = fs[0]
    s = Sim(ver, cfg[0] if cfg else 1, bool(cfg[1]) if len(cfg) > 1 else False)
    return line([s.step(op) for op in fs[1:]])


# ---------------------------------------------------------------- exhaustive schedules
def choices_small(s, ntasks, kinds, role, create=False):
    """state-aware alphabet of the exhaustive enumeration; create: tasks are created without being polled
    (operation 16) as well"""
    ch = []
    n = len(s.tasks)
    if n < ntasks:
        for k in kinds:
            ch.append([1, n + 1, k, 0])
        # a QoS 1 send that cannot be encoded (kind 8): only as the second task of the cap 1 schedules (it parks
        # behind the first send, or fails at once when that one is gone), which keeps the enumeration within ~15 %
        fail8 = n == 1 and s.cap == 1
        if fail8:
            ch.append([1, n + 1, 8, 0])
        if create:
            for k in kinds:
                ch.append([16, n + 1, k, 0])
            if fail8:
                ch.append([16, n + 1, 8, 0])
    for t in s.pending():
        ch.append([2, t])
        ch.append([3, t])
    for t in s.receipts():
        ch.append([6, t])
        ch.append([7, t])
    if s.io == 0:
        if s.inflight:
            i, _, tp = s.inflight[0]
            ch.append([4, tp, i])                              # the expected acknowledgement
            if tp == 2:
                ch.append([4, 6, i])                           # .. as a PUBREC refusing the publish
            ch.append([4, 1 if tp != 1 else 2, i])             # wrong kind
            if len(s.inflight) > 1:
                j, _, tq = s.inflight[1]
                ch.append([4, tq, j])                          # out of order
                ch.append([5, tp, i, tq, j])                   # two in one write
            else:
                ch.append([4, tp, i + 1])                      # wrong id
        else:
            ch.append([4, 1, 1])                               # unsolicited
        ch.append([8, 0 if s.wrb else 1])
        ch.append([10])
    return ch


def exhaustive(ver, maxlen, caps=(1, 2), ntasks=3, kinds=(1, 2, 5), role=0, limit=None, rng=None, create=False):
    """all operation lists of length maxlen (shorter ones when nothing more can happen) over the state-aware
    alphabet; every prefix is covered because every operation has its own observation"""
    out = []

    def rec(s, ops):
        if len(ops) == maxlen:
            out.append(ops)
            return
        ch = choices_small(s, ntasks, kinds, role, create)
        if create and not any(o[0] == 16 for o in ops) and len(ops) >= maxlen - 2:
            # only schedules that use the new operation
            ch = [o for o in ch if o[0] == 16]
        if not ch:
            out.append(ops)
            return
        for op in ch:
            s2 = s.clone()
            s2.step(op)
            rec(s2, ops + [op])

    for cap in caps:
        start = len(out)
        rec(Sim(ver, cap, role != 0), [])
        for i in range(start, len(out)):
            out[i] = line([[cap, role]] + out[i])
    if limit is not None and len(out) > limit:
        out = rng.sample(out, limit)
    return out


# ---------------------------------------------------------------- random schedules
def rand_case(rng, ver, role=0, maxlen=40, flavour=None, p_create=0.0):
    """p_create: probability that a task is created without the first poll (operation 16) instead of started;
    flavour "create": several tasks created back to back before any of them is polled"""
    flavour = flavour or rng.choice(["mixed", "mixed", "window", "qos2", "ids", "stream", "stream", "wrap", "errors"])
    burst = flavour == "create"
    if burst:
        flavour = rng.choice(["window", "window", "mixed", "qos2", "stream", "ids"])
        p_create = max(p_create, 0.7)
    cap = rng.randint(1, 4)
    if (flavour == "stream" and rng.random() < 0.6) or (burst and rng.random() < 0.7):
        cap = rng.randint(1, 2)
    if role == 0 and rng.random() < 0.01:
        cap = 0
    s = Sim(ver, cap, role != 0)
    ops = []
    n = rng.randint(6, maxlen)
    next_t = 1
    explicit = flavour == "ids" or (flavour == "mixed" and rng.random() < 0.2)
    p_close = {"errors": 0.04}.get(flavour, 0.006)
    p_badack = {"errors": 0.25}.get(flavour, 0.02)
    if flavour == "wrap":
        ops.append([12, rng.choice([65533, 65533, 65532, 65534] + ([65535] if rng.random() < 0.1 else []))])
        s.step(ops[-1])
    kinds = {"window": [1, 1, 1, 5, 5, 3, 2, 8], "qos2": [2, 2, 2, 2, 1], "ids": [1, 2, 3, 4, 1, 2, 8, 8],
             "stream": [7, 7, 7, 1, 1, 3, 6, 2, 5], "wrap": [1, 1, 2, 3, 8], "errors": [1, 2, 3, 5, 7, 6, 8, 8],
             "mixed": [1, 1, 2, 2, 3, 4, 5, 6, 7, 8]}[flavour]
    if role == 0:
        # a server never sees the SUBACK/UNSUBACK (its dispatcher ignores them): such an entry jams the
        # in-flight queue for good, keep them rare on that side
        kinds = [k for k in kinds if k not in (3, 4)] * 6 + [3, 4]
    while len(ops) < n:
        r = rng.random()
        pend = s.pending()
        woken = [t for t in pend if s.woken(t)]
        filled = [t for t in pend if s.tasks[t].st in ("await", "comp") and s.chans[s.tasks[t].arg][0] != OPEN]
        rec = s.receipts()
        streams = [t for t, x in s.tasks.items() if x.sm is not None and x.sm["alive"]]
        op = None
        if r < 0.24 or not s.tasks:
            k = rng.choice(kinds)
            idq = 0
            if explicit and k != 6 and rng.random() < 0.8:
                used = list(s.ids)
                idq = rng.choice(used) if used and rng.random() < 0.25 else rng.randint(1, 6)
            if flavour == "wrap" and rng.random() < 0.1:
                idq = rng.choice([65535, 1, 65534])
            op = [16 if rng.random() < p_create else 1, next_t, k, idq]
            if k == 7:
                op.append(rng.choice([0, 1, 4, 10, 10, 25]))
            next_t += 1
            if burst and op[0] == 16 and rng.random() < 0.6:
                # a burst: more tasks created before anything is polled
                for _ in range(rng.randint(1, 3)):
                    ops.append(op)
                    s.step(op)
                    k2 = rng.choice(kinds)
                    op = [16, next_t, k2, 0]
                    if k2 == 7:
                        op.append(rng.choice([0, 1, 4, 10]))
                    next_t += 1
        elif r < 0.44:
            # resume something: prefer tasks that have something to do
            unpolled = [t for t in pend if s.tasks[t].st in ("new", "deferred") or
                        (s.tasks[t].st in ("parked", "await", "ready") and rng.random() < 0.15)]
            first = filled + woken + (unpolled if p_create else [])
            cands = first if first and rng.random() < 0.85 else pend
            if cands:
                op = [2, rng.choice(cands)]
        elif r < 0.50:
            cands = woken if woken and rng.random() < 0.5 else pend
            if cands:
                op = [3, rng.choice(cands)]
        elif r < 0.72:
            # acknowledgements
            infl = list(s.inflight)
            if role == 0:
                # a server ignores SUBACK/UNSUBACK: those entries can never be acknowledged
                pass
            if rng.random() < p_badack or not infl:
                kind = rng.choice(["wrongkind", "wrongid", "dup", "unsolicited", "zero"])
                if kind == "zero" and rng.random() < 0.7:
                    kind = "wrongid"
                if infl and kind == "wrongkind":
                    i, _, tp = infl[0]
                    op = [4, rng.choice([k for k in (1, 2, 3, 4, 5) if k != tp]), i]
                elif infl and kind == "wrongid":
                    i, _, tp = infl[0]
                    op = [4, tp, rng.choice([i + 1, i + 2, max(1, i - 1) if i > 1 else i + 3])]
                elif kind == "dup" and ops and any(o[0] == 4 for o in ops):
                    op = list(rng.choice([o for o in ops if o[0] == 4]))
                elif kind == "zero":
                    op = [4, rng.randint(1, 3), 0]
                else:
                    op = [4, rng.randint(1, 5), rng.randint(1, 5)]
            else:
                m = 1
                if len(infl) > 1 and rng.random() < 0.3:
                    m = rng.randint(2, min(4, len(infl)))
                # simulate the queue order (PUBREC re-queues at the back)
                q = [(i, tp) for (i, _, tp) in infl]
                acks = []
                for _ in range(m):
                    if not q:
                        break
                    i, tp = q.pop(0)
                    acks += [tp, i]
                    if tp == 2:
                        q.append((i, 3))
                if m > 1 and rng.random() < 0.15:
                    j = rng.randrange(0, len(acks), 2)
                    acks[j] = rng.randint(1, 3)
                op = ([4] if len(acks) == 2 else [5]) + acks
        elif r < 0.80:
            if rec:
                op = [6 if rng.random() < 0.8 else 7, rng.choice(rec)]
        elif r < 0.87:
            op = [8, 0 if (s.wrb and rng.random() < 0.8) else rng.choice([0, 1, 1])]
        elif r < 0.90:
            op = [9, rng.choice([0, 1, 1, 2, 2, 3, 4, 5])]
        elif r < 0.90 + p_close:
            op = [rng.choice([10, 10, 11])]
        elif r < 0.97 and streams:
            t = rng.choice(streams)
            sm = s.tasks[t].sm
            q = rng.random()
            parked = s.tasks[t].st == "parked"
            if sm["pend"] is not None and q < (0.4 if parked else 0.25):
                op = [15, t]
            elif q < (0.3 if parked else 0.1):
                op = [14, t]
            else:
                rem = s.srem or 10
                op = [13, t, rng.choice([0, 1, rem, rem, max(1, rem // 2), max(1, rem // 2), rem + 1, 3])]
        elif r < 0.985:
            op = [12, rng.choice([65533, 65534, 0, 5, 65535 if rng.random() < 0.03 else 65532])]
        else:
            op = rng.choice([[2, rng.randint(1, max(1, next_t))], [3, rng.randint(1, max(1, next_t))], [6, 1], [7, 1],
                             [13, 1, 2], [14, 1], [15, 1], [1, 1, 1, 0]])
        if op is not None and rng.random() < 0.05:
            # an inbound request in between (rare): the peer publishes with QoS 1
            op = [17, rng.choice([1, 2, 3, 4, 5, 6, 7, 8, 9, 9, 300, 65535, 0])]
        if op is None:
            continue
        ops.append(op)
        s.step(op)
    return line([[cap, role]] + ops)


def qos2_orders(rng, ver, role=0, count=200):
    """2..4 overlapping QoS2 exchanges, every interleaving family of PUBREC / poll / release / PUBCOMP"""
    out = []
    for _ in range(count):
        m = rng.randint(2, 4)
        cap = rng.choice([m, m, m + 1, max(1, m - 1)])
        s = Sim(ver, cap, role != 0)
        ops = []
        for t in range(1, m + 1):
            ops.append([1, t, 2, 0])
            s.step(ops[-1])
        steps = 0
        while steps < 40:
            steps += 1
            cand = []
            for t in s.pending():
                cand.append([2, t])
            for t in s.receipts():
                cand.append([6, t])
                if rng.random() < 0.1:
                    cand.append([7, t])
            if s.io == 0 and s.inflight:
                i, _, tp = s.inflight[0]
                cand += [[4, tp, i]] * 3
                if tp == 2:
                    cand += [[4, 6, i]]
                if len(s.inflight) > 1 and rng.random() < 0.3:
                    j, _, tq = s.inflight[rng.randrange(1, len(s.inflight))]
                    cand.append([4, tq, j])
                if len(s.inflight) > 1 and rng.random() < 0.3:
                    j, _, tq = s.inflight[1]
                    cand.append([5, tp, i, tq, j])
            if not cand:
                break
            op = rng.choice(cand)
            ops.append(op)
            s.step(op)
            if all(x.st in ("done", "dropped") for x in s.tasks.values()) and not s.inflight:
                break
        out.append(line([[cap, role]] + ops))
    return out


def quiesce(s, ops, role, rounds=80, polls_only=False):
    """epilogue: lift back-pressure, acknowledge everything outstanding in order, resume every pending task,
    release every receipt, until nothing changes.  polls_only: no acknowledgements and no releases, only poll
    rounds (the epilogue then does not depend on what the simulation believes is outstanding)"""
    if s.wrb:
        ops.append([8, 0])
        s.step(ops[-1])
    for _ in range(0 if polls_only else rounds):
        before = len(ops)
        for t in s.pending():
            x = s.tasks[t]
            if s.ripe(t):
                ops.append([2, t])
                s.step(ops[-1])
        for t in s.receipts():
            ops.append([6, t])
            s.step(ops[-1])
        for t, x in sorted(s.tasks.items()):
            if x.sm is not None and x.sm["alive"] and s.srem and x.sm["inproc"] and s.io == 0:
                ops.append([13, t, s.srem])
                s.step(ops[-1])
        if s.io == 0 and s.inflight:
            i, _, tp = s.inflight[0]
            if not (role == 0 and tp in (4, 5)):
                ops.append([4, tp, i])
                s.step(ops[-1])
        if len(ops) == before:
            break
    # a final idle round: every task that was started and not dropped is polled once more (twice: the first poll
    # of the round may still change something); stuck_report reads quiescence off these observations
    for _ in range(2):
        for t in sorted(s.tasks):
            if s.tasks[t].st != "dropped":
                ops.append([2, t])
                s.step(ops[-1])
    return ops


def cancelled_waiter_case(rng, ver, role):
    """every wake source (back-pressure lifted, set_cap, acknowledgement) against a waiter queue in which some
    parked senders were cancelled: senders park, a subset is dropped while still parked, the wake source fires"""
    src = rng.choice(["wrb", "cap", "ack"])
    kinds = [1, 1, 2, 5] if role == 0 else [1, 2, 3, 5]
    n = rng.randint(2, 5)
    ops = []
    if src == "wrb":
        cfg = [rng.randint(1, 3), role]
        ops.append([8, 1])
        first = 1
    elif src == "cap":
        cfg = [0, role]
        first = 1
    else:
        cfg = [1, role]
        ops.append([1, 1, 1, 0])
        first = 2
    ts = list(range(first, first + n))
    for t in ts:
        ops.append([1, t, rng.choice(kinds), 0])
    dropped = [t for t in ts if rng.random() < 0.45]
    rng.shuffle(dropped)
    for t in dropped:
        ops.append([3, t])
    if src == "wrb":
        ops.append([8, 0])
    elif src == "cap":
        ops.append([9, rng.randint(1, 3)])
    else:
        ops.append([4, 1, 1])
    return [cfg] + ops


def auto_of(ops):
    """the task handed to the executor (first valid operation 19), or None"""
    seen = set()
    for o in ops:
        if o and o[0] == 19 and len(o) >= 4 and o[2] in (1, 3, 4) and o[1] not in seen:
            return o[1]
        if o and o[0] in (1, 16) and len(o) >= 3:
            seen.add(o[1])
    return None


def idle_suffix(case, obs):
    """(tasks polled in the trailing idle round, tasks pending at the end): the trailing poll operations during
    which the observation did not change and nothing was written"""
    fs = [[int(x) for x in f.split(",")] if f else [] for f in case.split(";")]
    ops = fs[1:]
    of = obs.split(";")
    if len(of) != len(ops) or not ops:
        return set(), []
    last = [int(x) for x in of[-1].split(",")]
    if len(last) < 9 or 255 not in last:
        return set(), []
    body = last[8:last.index(255)]
    pend = [body[j] for j in range(0, len(body) - 1, 2) if body[j] < 100 and body[j + 1] == 1]
    polled = set()
    j = len(ops) - 1
    while j >= 1 and ops[j] and ops[j][0] == 2 and len(ops[j]) == 2 and of[j] == of[j - 1] and of[j].endswith(",255"):
        polled.add(ops[j][1])
        j -= 1
    a = auto_of(ops)
    if a is not None:
        polled.add(a)                    # the executor polls its task whenever it is woken
    return polled, pend


def closing_cases(rng, ver, role=0, count=600):
    """a random schedule, optionally an acknowledgement that wakes a parked sender, then the end of the connection
    (close, force_close, or a mismatching acknowledgement in the same write as a good one), then every task is
    polled until nothing changes: every pending future must have resolved"""
    out = []
    for _ in range(count):
        c = rand_case(rng, ver, role, maxlen=rng.choice([6, 10, 16, 24]),
                      flavour=rng.choice(["window", "window", "mixed", "stream", "qos2"]))
        fs = [[int(x) for x in f.split(",")] for f in c.split(";")]
        s = Sim(ver, fs[0][0], role != 0)
        ops = fs[1:]
        for op in ops:
            s.step(op)
        end = rng.choice(["close", "force", "badack", "ack+close", "ack+force", "ack+badack"])
        head = None
        if s.io == 0 and s.inflight:
            i, _, tp = s.inflight[0]
            if not (role == 0 and tp in (4, 5)):
                head = [tp, i]
        if end.startswith("ack+") and head is not None and end != "ack+badack":
            ops.append([4] + head)
            s.step(ops[-1])
        if end.endswith("close"):
            # half of the graceful closes are followed IN THE SAME TURN by the poll of a task that is still pending
            # (operation 18: what an executor does with a sender woken just before the teardown)
            pend = [t for t in sorted(s.tasks) if s.tasks[t].st not in ("dropped", "done", "receipt")]
            if pend and rng.random() < 0.5:
                ops.append([18, rng.choice(pend)])
            else:
                ops.append([10])
        elif end.endswith("force"):
            ops.append([11])
        elif end == "ack+badack" and head is not None:
            ops.append([5] + head + [1, 60000])
        else:
            ops.append([4, 1, 60000])
        s.step(ops[-1])
        for _ in range(3):
            for t in sorted(s.tasks):
                if s.tasks[t].st != "dropped":
                    ops.append([2, t])
                    s.step(ops[-1])
        ln = line([fs[0]] + ops)
        out.append(spawnify(ln, rng, role) if rng.random() < 0.35 else ln)
    # the fixed shapes: a sender parked on the window (or not yet polled) resumes in the turn of the teardown
    for cap, pre in ((1, [[1, 1, 1, 0], [1, 2, 1, 0], [4, 1, 1]]), (1, [[1, 1, 2, 0], [1, 2, 2, 0], [4, 2, 1]]),
                     (1, [[1, 1, 1, 0], [1, 2, 3, 0], [4, 1, 1]]), (1, [[1, 1, 1, 0], [1, 2, 7, 0, 4], [4, 1, 1]]),
                     (2, [[16, 1, 3, 0]]), (2, [[16, 1, 4, 0]]), (1, [[8, 1], [1, 1, 1, 0], [8, 0]]),
                     (2, [[1, 1, 2, 0], [4, 2, 1]])):
        t = 2 if len(pre) == 3 and pre[1][0] == 1 else 1
        if role == 0 and any(o[0] in (1, 16) and o[2] in (3, 4) for o in pre):
            continue
        out.append(line([[cap, role]] + pre + [[18, t], [2, t], [2, 1], [2, 2]]))
    return out


def quiesced_cases(rng, ver, role=0, count=1000):
    out = []
    for _ in range(count // 4):
        fs = cancelled_waiter_case(rng, ver, role)
        sm = Sim(ver, fs[0][0], role != 0)
        ops = fs[1:]
        for op in ops:
            sm.step(op)
        quiesce(sm, ops, role, polls_only=True)
        out.append(line([fs[0]] + ops))
    for _ in range(count):
        c = rand_case(rng, ver, role, maxlen=rng.choice([8, 12, 20, 30]),
                      flavour=rng.choice(["window", "window", "mixed", "ids", "stream", "qos2"]))
        fs = [[int(x) for x in f.split(",")] for f in c.split(";")]
        s = Sim(ver, fs[0][0], role != 0)
        ops = fs[1:]
        for op in ops:
            s.step(op)
        quiesce(s, ops, role, polls_only=rng.random() < 0.4)
        out.append(line([fs[0]] + ops))
    return out


def stuck_report(ver, case, obs):
    """implementation observation of a quiesced case: None, or (why, task) when a task is still parked although
    the connection is open, nothing is in flight, no back-pressure, cap > 0.  `why` lists the known causes seen in
    the schedule (replayed on the Sim): Q woken waiter dropped, Q2 ready() absorbed a wake, Qerr woken waiter
    ended with an error without sending"""
    last = [int(x) for x in obs.split(";")[-1].split(",")]
    if len(last) < 9 or 255 not in last:
        return None
    inflight, _, cap, wrb, _, _, _, is_open = last[:8]
    if not is_open or wrb or inflight or cap == 0:
        return None
    body = last[8:last.index(255)]
    pend = [body[j] for j in range(0, len(body) - 1, 2) if body[j] < 100 and body[j + 1] == 1]
    if not pend:
        return None
    fs = [[int(x) for x in f.split(",")] if f else [] for f in case.split(";")]
    s = Sim(ver, fs[0][0] if fs[0] else 1, len(fs[0]) > 1 and fs[0][1] != 0)
    why = set()
    for op in fs[1:]:
        t = op[1] if len(op) > 1 else None
        was_woken = op and op[0] in (2, 3) and t in s.tasks and s.tasks[t].status() == 1 and s.woken(t)
        s.step(op)
        if was_woken:
            x = s.tasks[t]
            if op[0] == 3:
                why.add("Q")
            elif x.k == 5:
                why.add("Q2")
            elif x.st == "done" and x.arg != 2:
                why.add("Qerr")
    # quiescence is read off the implementation's own observations: the case must end with a round of polls
    # that covers every pending task and during which nothing changed and nothing was written (a task that is
    # pending with nothing in flight, polled and still pending, is parked on the window)
    ops = fs[1:]
    of = obs.split(";")
    if len(of) != len(ops):
        return None
    polled = set()
    j = len(ops) - 1
    while j >= 1 and ops[j] and ops[j][0] == 2 and len(ops[j]) == 2 and of[j] == of[j - 1] and of[j].endswith(",255"):
        polled.add(ops[j][1])
        j -= 1
    a = auto_of(ops)
    if a is not None and polled:
        polled.add(a)
    if not set(pend) <= polled:
        return None
    return ("+".join(sorted(why)) or "UNEXPLAINED", pend[0])


SEEDS = [
    # a chunk send parked on write back-pressure while the window is FULL (the streamed publish itself, or other
    # packets, hold every slot): it must resume when back-pressure lifts
    "1,0;1,1,7,0,10;8,1;13,1,4;8,0;13,1,0;13,1,6;4,1,1;2,1",
    "2,0;1,1,1,0;1,2,7,0,10;8,1;13,2,4;8,0;13,2,0;13,2,6",
    "2,0;1,1,7,0,10;1,2,2,0;8,1;13,1,5;8,0;13,1,0;13,1,5;4,1,1;4,2,2",
    "1,0;8,1;1,1,7,0,6;8,0;2,1;8,1;13,1,3;8,0;13,1,0;13,1,3",
    # window race: waiter woken by an ack, a fresh sender slips in before it resumes
    "1,0;1,1,1,0;1,2,1,0;4,1,1;1,3,1,0;2,2;2,1;4,1,2;2,3;2,2;4,1,3;2,2",
    # Q: woken waiter dropped before it resumes
    "1,0;1,1,1,0;1,2,1,0;1,3,1,0;4,1,1;3,2;2,1;2,3",
    # Q2: ready() absorbs a wake
    "1,0;1,1,1,0;1,2,5,0;1,3,1,0;4,1,1;2,2;2,3;2,1",
    # QoS1 acknowledged by PUBREC
    "2,0;1,1,1,0;4,2,1;2,1",
    # two releases
    "2,0;1,1,2,0;1,2,2,0;4,2,1;4,2,2;2,1;2,2;6,1;6,2;4,3,1;4,3,2;2,1;2,2",
    # id wrap
    "2,0;12,65533;1,1,1,0;1,2,1,0;4,1,65534;4,1,65535;1,3,1,0;2,1;2,2",
    # streaming, subscribe during streaming, back-pressure around a chunk
    "2,0;1,1,7,0,10;1,2,3,0;13,1,4;8,1;13,1,3;8,0;13,1,0;13,1,3;4,1,1;2,1",
    "2,0;1,1,7,0,10;13,1,4;8,1;13,1,3;10;13,1,0",
    "2,0;1,1,7,0,4;13,1,5;1,2,1,0",
    "1,0;12,65535;1,1,1,0;1,2,7,0,3;13,2,1",
    # a streamed send parked behind the window whose StreamingPayload / pending chunk send goes away first
    "1,0;1,1,1,0;1,2,7,0,5;14,2;4,1,1;2,2;2,1",
    "1,0;1,1,1,0;1,2,7,0,5;13,2,2;15,2;4,1,1;2,2;13,2,2",
    "1,0;1,1,1,0;1,2,7,0,5;13,2,2;4,1,1;2,2;13,2,2;13,2,3;4,1,2;2,2",
    "1,0;1,1,1,0;1,2,7,0,5;3,2;13,2,2",
    # the window is closed from the start
    "0,0;1,1,1,0;1,2,5,0;9,1;2,1;2,2",
    # kind 8: a PUBLISH larger than the maximum outbound packet size fails with the Encode error and reserves
    # nothing: the explicit id 7 fails to encode, then the same id is used successfully
    "2,0;1,1,8,7;1,2,1,7;4,1,7;2,2",
    # ... parked behind a full window, woken by the ack, fails when polled (automatic id: one id is consumed)
    "1,0;1,1,1,0;1,2,8,0;4,1,1;2,2;2,1;1,3,1,0;4,1,3;2,3",
    # ... and does not pass the wake on: the sender parked behind it stays parked (recorded finding woken-waiter-fails)
    "1,0;1,1,1,0;1,2,8,0;1,3,1,0;4,1,1;2,2;2,1;2,3",
    # ... parked with the explicit id of the packet in flight: free again when it is woken, the encode fails, the
    # next send takes the id;  the id still in use: PacketIdInUse comes before the encode
    "1,0;1,1,1,5;1,2,8,5;4,1,5;2,2;2,1;1,3,1,5;4,1,5;2,3",
    "2,0;1,1,1,5;1,2,8,5;4,1,5;2,1;1,3,8,5;1,4,1,5",
    # ... automatic ids (also across the wrap): every failed send has consumed one
    "3,0;12,65533;1,1,8,0;1,2,1,0;1,3,8,0;1,4,1,0;4,1,65535;4,1,2;2,2;2,4",
    # ... while a streamed payload is owed (ExpectPayload comes first), created without the first poll, closed while parked
    "2,0;1,1,7,0,4;1,2,8,0;13,1,4;1,3,8,0;16,4,8,3;16,5,1,3;2,4;2,5;4,1,1;4,1,3;2,1;2,5",
    "1,0;1,1,1,0;1,2,8,0;16,3,8,0;10;2,2;2,3;2,1",
    # op 17 (inbound QoS 1 PUBLISH): the window is full (cap 1, one QoS 1 send outstanding): the PUBACK must be written
    "1,0;1,1,1,0;17,9;4,1,1;2,1;17,9",
    # ... write back-pressure is on; ... ignored while a streamed payload is owed, with id 0 and after the close
    "2,0;8,1;17,9;1,1,1,0;17,10;8,0;2,1;17,11",
    "2,0;1,1,7,0,4;17,5;13,1,4;17,5;17,0;10;17,6",
]


def wrong_kind_cases(role):
    """every (outstanding request kind, acknowledgement kind) pair with the SAME packet id: the acknowledgement of
    the wrong type must end the connection cleanly, whatever the pair (25 pairs incl. the right ones)"""
    out = []
    for k, exp in ((1, 1), (2, 2), (3, 4), (4, 5), (7, 1)):
        for a in (1, 2, 3, 4, 5, 6):
            start = "1,1,%d,0" % k + (",4" if k == 7 else "")
            out.append("2,%d;%s;4,%d,1;2,1;1,2,1,0;2,2" % (role, start, a))
            out.append("2,%d;1,9,1,0;%s;4,1,1;2,9;4,%d,2;2,1" % (role, start, a))
    return out


def spawnify(c, rng, role=0):
    """hand one send of the case (kind 1, or 3 / 4 for a client) to the executor: its start becomes operation 19 and
    the polls / the drop of that task disappear (the executor polls it whenever it is woken)"""
    fs = [[int(x) for x in f.split(",")] if f else [] for f in c.split(";")]
    ok = (1,) if role == 0 else (1, 3, 4)
    seen = set()
    cand = []
    for j, o in enumerate(fs[1:], 1):
        if o and o[0] in (1, 16) and len(o) >= 4 and o[1] not in seen:
            if o[2] in ok:
                cand.append(j)
            seen.add(o[1])
    if not cand:
        return c
    j = rng.choice(cand)
    t = fs[j][1]
    fs[j] = [19, t, fs[j][2], fs[j][3]]
    out = [fs[0]] + [o for k, o in enumerate(fs[1:], 1) if k == j or not (o and o[0] in (2, 3) and len(o) >= 2 and o[1] == t)]
    return line(out)


SPAWN_SEEDS = [
    # a spawned sender parked on the window; the acknowledgement that wakes it and the teardown arrive in one write
    "1,0;1,1,1,0;19,2,1,0;5,1,1,1,60000;2,1",
    # .. with write back-pressure flagged: it must not park again (391c248)
    "1,0;1,1,1,0;19,2,1,0;8,1;5,1,1,1,60000;2,1",
    "1,0;1,1,2,0;19,2,1,0;8,1;5,2,1,1,60000;2,1",
    # woken, then closed by the application in the same turn as another task's poll
    "1,0;1,1,1,0;19,2,1,0;4,1,1;8,1;18,1;2,1",
    "1,0;1,1,1,0;19,2,1,0;8,1;4,1,1;10;2,1",
    "2,0;1,1,1,0;1,2,1,0;19,3,1,0;8,1;4,1,1;11;2,1;2,2",
    # the plain life of a spawned send: parked, woken, written, acknowledged
    "1,0;1,1,1,0;19,2,1,0;4,1,1;2,1;4,1,2",
    "1,0;19,1,1,0;19,2,1,0;4,1,1;10",
    "1,0;8,1;19,1,1,0;8,0;4,1,1",
    "1,0;9,0;19,1,1,0;9,1;4,1,1",
]


def gen_all(rng, ver, role=0, exh_len=6, exh_limit=None, n_random=8000, n_qos2=800):
    cases = list(SEEDS) if role == 0 else [c.replace(",0;", ",%d;" % role, 1) for c in SEEDS]
    cases += list(SPAWN_SEEDS) if role == 0 else [c.replace(",0;", ",%d;" % role, 1) for c in SPAWN_SEEDS]
    if role != 0:
        cases += ["2,%d;19,1,3,0;4,4,1" % role, "2,%d;19,1,4,0;8,1;5,5,1,1,60000" % role,
                  "1,%d;1,1,1,0;19,2,3,0;8,1;5,1,1,1,60000;2,1" % role]
    cases += [spawnify(rand_case(rng, ver, role, flavour=rng.choice(["window", "window", "mixed", "errors"])), rng, role)
              for _ in range(n_random // 6)]
    cases += wrong_kind_cases(role)
    cases += exhaustive(ver, exh_len, role=role, limit=exh_limit, rng=rng, kinds=(1, 2, 5) if role == 0 else (1, 2, 3))
    cases += qos2_orders(rng, ver, role, n_qos2)
    cases += [rand_case(rng, ver, role) for _ in range(n_random)]
    return cases


CREATE_SEEDS = [
    # two sends created back to back with ONE free slot, then polled (the window must hold)
    "1,0;16,1,1,0;16,2,1,0;2,1;2,2;4,1,1;2,1;2,2;4,1,2;2,2",
    "1,0;16,1,2,0;16,2,2,0;2,2;2,1",
    "1,0;16,1,7,0,4;16,2,7,0,4;2,1;2,2;13,1,4;13,2,4",
    "2,0;16,1,1,0;16,2,7,0,3;16,3,2,0;2,3;2,2;2,1",
    # ready() checks in the call; subscribe / unsubscribe do nothing before the first poll
    "1,0;16,1,5,0;16,2,1,0;16,3,5,0;2,1;2,3;4,1,1;2,3",
    "1,0;16,1,3,0;16,2,1,0;2,1;2,2",
    "1,0;16,1,4,0;10;2,1",
    # created and dropped / closed before the first poll
    "1,0;16,1,1,0;3,1;4,1,1;1,2,1,0",
    "1,0;16,1,1,0;16,2,1,0;3,2;4,1,1;1,3,1,0;2,3",
    "1,0;10;16,1,1,0;16,2,5,0;16,3,7,0,2;2,1;2,2;2,3;13,3,1",
    "1,0;16,1,1,5;16,2,1,5;2,2;2,1",
    "1,0;1,1,7,0,9;16,2,1,0;16,3,6,0;2,2",
    "1,0;12,65535;16,1,1,0;16,2,7,0,3;2,1;2,2;13,2,1",
]


def gen_create(rng, ver, role=0, exh_len=5, n_random=8000, exh_limit=None):
    """schedules using operation 16 (create without polling)"""
    cases = list(CREATE_SEEDS) if role == 0 else [c.replace(",0;", ",%d;" % role, 1) for c in CREATE_SEEDS]
    cases += exhaustive(ver, exh_len, role=role, limit=exh_limit, rng=rng, create=True,
                        kinds=(1, 2, 5) if role == 0 else (1, 2, 3))
    cases += [rand_case(rng, ver, role, flavour="create") for _ in range(n_random // 2)]
    cases += [rand_case(rng, ver, role, p_create=0.35) for _ in range(n_random - n_random // 2)]
    return cases


if __name__ == "__main__":
    import random
    import sys
    r = random.Random(int(sys.argv[2]) if len(sys.argv) > 2 else 1)
    for c in gen_all(r, int(sys.argv[1]) if len(sys.argv) > 1 else 3, exh_len=4, n_random=20, n_qos2=5):
        print(c)
