#!/bin/bash
# seedcollect.sh <srcdir> <name>: take a seeded change delivered in <srcdir>/seeded into /verif/seeded/<name>,
# confirm it (tools/seedverify.sh) and remove the scratch worktree
src=$1; name=$2
[ -f $src/seeded/patch.diff ] || { echo "no patch in $src"; exit 3; }
mkdir -p /verif/seeded/$name
cp $src/seeded/patch.diff $src/seeded/demo.rs $src/seeded/meta.json /verif/seeded/$name/
bash /verif/tools/seedverify.sh $name 2>&1 | tee /verif/seeded/$name/verify.log
git -C /repo worktree remove --force $src 2>/dev/null
rm -rf $src
