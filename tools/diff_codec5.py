#!/usr/bin/env python3
"""Differential run of the MQTT v5 codec model (coq/Model/CodecV5.v, Sniff.v through ocaml/driver) against the
real crate (harness engines dec5 / enc5 / sniff).

usage: diff_codec5.py [--seed N] [--size N] [--engines dec5,enc5,sniff] [--no-build] [--show K] [--save DIR]
exit status 0 iff every observation is identical line by line."""
import argparse
import collections
import os
import random
import sys
import time

sys.path.insert(0, os.path.dirname(os.path.abspath(__file__)))
import common as C  # noqa: E402
import gen_codec5 as G  # noqa: E402

SUITES = {"dec5": G.suite_dec5, "enc5": G.suite_enc5, "sniff": G.suite_sniff}


def summarize(engine, cases, obs):
    """coarse classification of the observations, to see what the suites exercised"""
    cnt = collections.Counter()
    for c, o in zip(cases, obs):
        f = o.split(";")
        if o == C.PANIC or f[-1] == C.PANIC:
            cnt["panic"] += 1
        elif engine == "dec5":
            last = f[-1].split(",")
            if last[0] == "4":
                cnt["error %s" % last[1]] += 1
            else:
                cnt["clean end (state %s)" % last[2]] += 1
            cnt["items"] += len(f) - 1
        elif engine == "enc5":
            for x in f:
                h = x.split(",")
                cnt["op ok" if h[0] == "0" else "op err %s" % (h[1] if len(h) > 1 else h[0])] += 1
        else:
            cnt[o.split(",")[0] + ("," + o.split(",")[1] if "," in o else "")] += 1
    return cnt


def anomalies(engine, cases, obs):
    """observations of the real code that deserve a look even when the model agrees"""
    out = collections.OrderedDict()
    for c, o in zip(cases, obs):
        f = o.split(";")
        if o == C.PANIC or f[-1] == C.PANIC:
            out.setdefault("panic", []).append(c)
        if "7777" in f:
            out.setdefault("earlier buffer content damaged", []).append(c)
        if engine == "dec5" and f[-1].startswith("5,") and f[-1].split(",")[2] == "0":
            # clean end between frames: the frames announced by the items must tile the consumed bytes
            st = c.split(";")[2]
            stream = [int(x) for x in st.split(",")] if st else []
            pos, okk = 0, True
            for x in f[:-1]:
                h = x.split(",", 2)
                if h[0] in ("1", "2"):
                    v, m, w = 0, 1, 0
                    while True:
                        if pos + 1 + w >= len(stream):
                            okk = False
                            break
                        b = stream[pos + 1 + w]
                        v += (b & 127) * m
                        m *= 128
                        w += 1
                        if b < 128:
                            break
                    if not okk or v != int(h[1]):
                        okk = False
                        break
                    pos += 1 + w + v
            if not okk or pos + int(f[-1].split(",")[1]) != len(stream):
                out.setdefault("decoded frames do not tile the consumed bytes", []).append(c)
        if engine == "enc5":
            cfg = c.split(";")[0].split(",")
            peer = int(cfg[0])
            ops = c.split(";")[1:]
            for opline, x in zip(ops, f):
                h = x.split(",")
                kind = opline.split(",")[0]
                if h[0] == "1" and len(h) > 2:
                    out.setdefault("bytes left after a failed encode", []).append(c)
                if h[0] == "0" and kind in ("1", "2"):
                    size = int(h[1])
                    data = h[2:]
                    # frame = first byte + var-int(size) + size bytes, of which a publish payload may be partial
                    vlen = 1 if size < 128 else 2 if size < 16384 else 3 if size < 2097152 else 4
                    frame_len = 1 + vlen + size
                    if kind == "1" and len(data) != frame_len:
                        out.setdefault("size estimate differs from the bytes written", []).append(c)
                    if kind == "2" and len(data) > frame_len:
                        out.setdefault("publish wrote more than its announced frame", []).append(c)
                    if peer != 0 and frame_len > peer:
                        out.setdefault("frame above the peer limit", []).append(c)
    return out


def main():
    ap = argparse.ArgumentParser()
    ap.add_argument("--seed", type=int, default=20260925)
    ap.add_argument("--size", type=int, default=40)
    ap.add_argument("--engines", default="dec5,enc5,sniff")
    ap.add_argument("--no-build", action="store_true")
    ap.add_argument("--show", type=int, default=5)
    ap.add_argument("--save", default="")
    a = ap.parse_args()

    if not a.no_build:
        ok, lg = C.build_driver()
        if not ok:
            print("driver build failed:\n" + lg)
            return 2
        ok, lg = C.build_harness()
        if not ok:
            print("harness build failed:\n" + lg)
            return 2

    bad = 0
    # the python wire encoder (written from the MQTT 5 specification) against the crate's decoder
    cases, exp = G.selfcheck(random.Random(a.seed + 1), a.size * 5)
    got = C.run_harness("dec5", cases)
    wrong = [i for i in range(len(cases)) if got[i] != exp[i]]
    print("selfcheck: %d valid frames decoded by the crate, %d not as expected" % (len(cases), len(wrong)))
    for i in wrong[:a.show]:
        print("  case     %s" % cases[i][:600])
        print("  crate    %s" % got[i][:600])
        print("  expected %s" % exp[i][:600])
    bad += len(wrong)
    # round trip through the crate: decode(encode(p)) must give p back (no limit, problem info allowed)
    rrng = random.Random(a.seed + 2)
    pk = [x for x in G.all_reason_code_packets(rrng)]
    for t in G.KINDS:
        if t != G.T_PUBLISH:
            pk += [G.gen_packet(rrng, t, big=rrng.random() < 0.03) for _ in range(a.size * 3)]
    enc = C.run_harness("enc5", [G.enc_case(0, 0, [G.op_packet(x)]) for x in pk])
    streams, want = [], []
    for x, o in zip(pk, enc):
        h = o.split(",")
        if h[0] != "0":
            print("  roundtrip: valid packet not encoded: %s -> %s" % (G.nums(G.dump_packet(x))[:300], o[:100]))
            bad += 1
            continue
        streams.append("0,0;;" + ",".join(h[2:]))
        npi = 1 if (x["t"] == G.T_CONNECT and not x["req_problem"]) else 0
        want.append("1,%s,%s;5,0,0,%d" % (h[1], G.nums(G.dump_packet(x)), npi))
    back = C.run_harness("dec5", streams)
    wrong = [i for i in range(len(streams)) if back[i] != want[i]]
    print("roundtrip: %d packets encoded and decoded by the crate, %d not identical" % (len(streams), len(wrong)))
    for i in wrong[:a.show]:
        print("  frame    %s" % streams[i][:600])
        print("  crate    %s" % back[i][:600])
        print("  expected %s" % want[i][:600])
    bad += len(wrong)
    for eng in a.engines.split(","):
        rng = random.Random(a.seed)
        t0 = time.time()
        cases = SUITES[eng](rng, a.size)
        t1 = time.time()
        impl = C.run_harness(eng, cases)
        t2 = time.time()
        model = C.run_model(eng, cases)
        t3 = time.time()
        diffs = [i for i in range(len(cases)) if impl[i] != model[i]]
        print("%s: %d cases (gen %.1fs, harness %.1fs, model %.1fs): %d differences" % (
            eng, len(cases), t1 - t0, t2 - t1, t3 - t2, len(diffs)))
        for i in diffs[:a.show]:
            print("  case   %s" % cases[i][:600])
            print("  crate  %s" % impl[i][:600])
            print("  model  %s" % model[i][:600])
        cnt = summarize(eng, cases, impl)
        print("  coverage: " + ", ".join("%s=%d" % kv for kv in sorted(cnt.items())))
        for what, cs in anomalies(eng, cases, impl).items():
            cs = sorted(cs, key=len)
            print("  ANOMALY (real code) %s: %d cases, shortest: %s" % (what, len(cs), cs[0][:400]))
        if a.save:
            os.makedirs(a.save, exist_ok=True)
            with open(os.path.join(a.save, eng + ".cases"), "w") as f:
                f.write("\n".join(cases) + "\n")
            with open(os.path.join(a.save, eng + ".crate"), "w") as f:
                f.write("\n".join(impl) + "\n")
            with open(os.path.join(a.save, eng + ".model"), "w") as f:
                f.write("\n".join(model) + "\n")
        bad += len(diffs)
    return 0 if bad == 0 else 1


if __name__ == "__main__":
    sys.exit(main())
