#!/usr/bin/env python3
"""Case generator for engine "payload" (number 41): the publish payload handed to a handler
(ntex_mqtt::Payload over ntex-util bstream), connection-level clause of property C10.

case syntax (see harness/src/engines/payload.rs): `mode,buf_size,first_len;op;op;...`
  mode 0 streamed payload + read() loop, 1 streamed payload + read_all(), 2 from_bytes + read() loop,
  3 from_bytes + read_all();  op `1,len` feed_data(len bytes of the running counter), `2` feed_eof,
  `3` set_error(Disconnected), `4` poll the reader once, `5` Payload::take by the handler.
Nothing here knows what the answers should be: the cases are plain enumerations / random draws.
"""
import itertools
import random

CORE = ["1,2", "2", "3", "4"]
WIDE = ["1,0", "1,1", "1,3", "2", "3", "4", "5"]


def fmt(mode, size, first, ops):
    return "%d,%d,%d;" % (mode, size, first) + ";".join(ops)


def exhaustive(alpha, modes, cfgs, maxlen):
    """every op sequence of length 1..maxlen over `alpha`, for every mode and (buf_size, first_len)"""
    out = []
    for n in range(1, maxlen + 1):
        for ops in itertools.product(alpha, repeat=n):
            for m in modes:
                for (size, first) in cfgs:
                    out.append(fmt(m, size, first, ops))
    return out


def random_case(rng, maxlen=30):
    mode = rng.choice([0, 0, 0, 1, 1, 1, 2, 3])
    size = rng.choice([0, 1, 4, 16, 64, 32768])
    first = rng.choice([0, 0, 1, 2, 5, 17, 300])
    n = rng.randint(9, maxlen)
    # the pace of the reader and the moment of eof / error vary from case to case
    p_poll = rng.choice([0.15, 0.35, 0.6])
    p_eof = rng.choice([0.02, 0.08, 0.2])
    p_err = rng.choice([0.0, 0.0, 0.03, 0.1])
    p_take = rng.choice([0.0, 0.05, 0.15])
    ops = []
    for _ in range(n):
        r = rng.random()
        if r < p_poll:
            ops.append("4")
        elif r < p_poll + p_eof:
            ops.append("2")
        elif r < p_poll + p_eof + p_err:
            ops.append("3")
        elif r < p_poll + p_eof + p_err + p_take:
            ops.append("5")
        else:
            ops.append("1,%d" % rng.choice([0, 1, 1, 2, 3, 7, 20, 256, rng.randint(0, 40)]))
    return fmt(mode, size, first, ops)


def random_disciplined(rng, maxlen=30):
    """what a dispatcher does: chunks, then either the final chunk + eof or drop_payload; the reader
    is polled at a random pace and a few more times at the end"""
    mode = rng.choice([0, 1])
    size = rng.choice([0, 1, 8, 64, 32768])
    first = rng.choice([0, 1, 4, 33])
    n = rng.randint(6, maxlen - 4)
    p_poll = rng.choice([0.0, 0.2, 0.5, 0.8])
    ops = []
    while len(ops) < n:
        if rng.random() < p_poll:
            ops.append("4")
        else:
            ops.append("1,%d" % rng.choice([1, 2, 3, 9, rng.randint(0, 30)]))
    ops.append("3" if rng.random() < 0.2 else "2")
    ops += ["4"] * rng.randint(1, 3)
    return fmt(mode, size, first, ops)


def all_cases(rng, tier="quick"):
    """(name, cases) parts; quick: core sequences to length 7, full: to length 8"""
    full = tier != "quick"
    core_len = 8 if full else 7
    wide_len = 5 if full else 4
    n_random = 40000 if full else 6000
    core = exhaustive(CORE, [0, 1], [(8, 0), (8, 3)], core_len)
    wide = exhaustive(WIDE, [0, 1, 2, 3], [(2, 0), (2, 2)], wide_len)
    rnd = [random_case(rng, 30) for _ in range(n_random)]
    dis = [random_disciplined(rng, 30) for _ in range(n_random)]
    return [("exhaustive-core<=%d" % core_len, core), ("exhaustive-wide<=%d" % wide_len, wide),
            ("random-any<=30", rnd), ("random-dispatcher-order<=30", dis)]


if __name__ == "__main__":
    import sys
    rng = random.Random(int(sys.argv[1]) if len(sys.argv) > 1 else 1)
    for name, cs in all_cases(rng, sys.argv[2] if len(sys.argv) > 2 else "quick"):
        print("# %s: %d" % (name, len(cs)), file=sys.stderr)
        for c in cs:
            print(c)
