#!/usr/bin/env python3
"""whole-development audit: forbidden vernacular anywhere under coq/, every Props/*.v theorem closed under the
global context, statement hashes. Exit 0 when clean."""
import os
import sys

sys.path.insert(0, os.path.dirname(os.path.abspath(__file__)))
import common as C  # noqa: E402

bad = C.grep_forbidden()
for b in bad:
    print("forbidden:", b)
rc = 1 if bad else 0
for f in sorted(os.listdir(os.path.join(C.COQ, "Props"))):
    if f.endswith(".v"):
        n, d, probs, _ = C.audit(f[:-2])
        print(f[:-2], n, "obligations", d, "discharged")
        for p in probs:
            print("  ", p)
            rc = 1
sys.exit(rc)
