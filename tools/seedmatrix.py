#!/usr/bin/env python3
"""seedmatrix.py [<seeded dir name>...] -- runs the quick check of each seeded change's property against a scratch
worktree with the change applied (tools/seedtest.py) and records the outcome in seeded/<name>/meta.json under
"detection": {"check", "result": failing-input | no-failing-input-found | MISSED, "violation_line", "summary_line"}.
The table of DESIGN.md section 11 is printed at the end (markdown)."""
import json
import os
import re
import subprocess
import sys

ROOT = os.path.dirname(os.path.dirname(os.path.abspath(__file__)))
SEEDED = os.path.join(ROOT, "seeded")


def run_one(name):
    d = os.path.join(SEEDED, name)
    meta = json.load(open(os.path.join(d, "meta.json")))
    prop = meta["property"]
    extra = meta.get("also_check", [])
    r = subprocess.run([sys.executable, os.path.join(ROOT, "tools", "seedtest.py"), name,
                        os.path.join(d, "patch.diff"), prop] + extra, capture_output=True, text=True)
    out = r.stdout
    res = {}
    for blk in re.split(r"^== ", out, flags=re.M)[1:]:
        head, _, body = blk.partition("\n")
        pid = head.split()[0]
        vio = [l for l in body.split("\n") if l.startswith("VIOLATION")]
        summ = [l for l in body.split("\n") if re.match(r"C\d\d quick:", l)]
        if not vio:
            result = "MISSED"
        elif vio[0].rstrip().endswith("no-failing-input-found"):
            result = "no-failing-input-found"
        else:
            result = "failing-input"
        res[pid] = {"result": result, "violation_line": vio[0] if vio else "", "summary_line": summ[0] if summ else ""}
    meta["detection"] = {"check": prop, **res.get(prop, {"result": "NOT-RUN"}),
                         "other_checks": {k: v["result"] for k, v in res.items() if k != prop},
                         "how": "tools/seedtest.py: scratch worktree of /repo HEAD + patch, scratch harness copy, "
                                "`tools/check.py <id> --tier quick`"}
    json.dump(meta, open(os.path.join(d, "meta.json"), "w"), indent=1)
    return prop, meta["detection"]


def main():
    names = sys.argv[1:] or sorted(os.listdir(SEEDED))
    rows = []
    for n in names:
        if not os.path.exists(os.path.join(SEEDED, n, "patch.diff")):
            continue
        prop, det = run_one(n)
        print(n, prop, det["result"], det.get("other_checks", {}), flush=True)
        rows.append((n, prop, det))
    print("\n| seeded change | property | quick check verdict |\n|---|---|---|")
    for n, prop, det in rows:
        print("| seeded/%s | %s | %s |" % (n, prop, det["result"]))


if __name__ == "__main__":
    main()
