#!/usr/bin/env python3
"""seedtest.py <name> <patch.diff> <property> [<property>...]
Runs the quick checks of the given properties against a scratch worktree of /repo with the patch applied
(scratch harness copy, own target dir) -- used while other work goes on in /repo. For the record the official
procedure is `git -C /repo apply <patch>; <quick_cmd>; git -C /repo checkout -- .`."""
import os
import shutil
import subprocess
import sys

name, patch, props = sys.argv[1], os.path.abspath(sys.argv[2]), sys.argv[3:]
base = "/tmp/sv"
wt = os.path.join(base, "wt_" + name)
hd = os.path.join(base, "h_" + name)
os.makedirs(base, exist_ok=True)
subprocess.run(["git", "-C", "/repo", "worktree", "remove", "--force", wt], capture_output=True)
subprocess.run(["git", "-C", "/repo", "worktree", "add", "-q", "--detach", wt, "HEAD"], check=True)
r = subprocess.run(["git", "-C", wt, "apply", patch], capture_output=True, text=True)
if r.returncode != 0:
    print("patch does not apply:", r.stderr)
    sys.exit(3)
shutil.rmtree(hd, ignore_errors=True)
shutil.copytree("/verif/harness", hd, ignore=shutil.ignore_patterns("target"))
ct = open(os.path.join(hd, "Cargo.toml")).read().replace('path = "/repo"', 'path = "%s"' % wt)
open(os.path.join(hd, "Cargo.toml"), "w").write(ct)
tgt = os.path.join(base, "target_" + name)          # own target dir: concurrent runs must not share a binary
if not os.path.exists(tgt) and os.path.exists(os.path.join(base, "target")):
    subprocess.run(["cp", "-a", "--reflink=auto", os.path.join(base, "target"), tgt])
env = dict(os.environ, MV_REPO=wt, MV_HARNESS=hd, CARGO_TARGET_DIR=tgt)
rc_all = 0
for p in props:
    r = subprocess.run([sys.executable, "/verif/tools/check.py", p, "--tier", "quick"], env=env, capture_output=True,
                       text=True)
    print("== %s on %s: rc=%d" % (p, name, r.returncode))
    print(r.stdout.strip())
    print("\n".join(r.stderr.strip().split("\n")[-6:]))
    rc_all |= r.returncode
subprocess.run(["git", "-C", "/repo", "worktree", "remove", "--force", wt], capture_output=True)
shutil.rmtree(hd, ignore_errors=True)
shutil.rmtree(tgt, ignore_errors=True)
# restore Gen/Consts.v from the real repo
subprocess.run([sys.executable, "/verif/tools/rs2v.py"], capture_output=True)
sys.exit(rc_all)
