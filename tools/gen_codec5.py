"""Case generators for the MQTT v5 codec engines dec5 / enc5 / sniff (see coq/Model/EnginesV5.v).

Every generator takes a random.Random and a size knob and returns a list of case lines.
The wire encoder in this file is written from the MQTT 5.0 specification (not from the crate):
properties are emitted in a shuffled legal order, default-valued properties are sometimes emitted
explicitly, and the positions of all length fields are recorded so that the hostile generators can
inflate / deflate them at every nesting level."""
import struct

# ------------------------------------------------------------------ reason codes (MQTT 5.0 tables)
PUBACK_RC = [0, 16, 128, 131, 135, 144, 145, 151, 153]
PUBREL_RC = [0, 146]
CONNACK_RC = [0, 128, 129, 130, 131, 132, 133, 134, 135, 136, 137, 138, 140, 144, 149, 151, 153, 154, 155, 156,
              157, 159]
SUBACK_RC = [0, 1, 2, 128, 131, 135, 143, 145, 151, 158, 161, 162]
UNSUBACK_RC = [0, 17, 128, 131, 135, 143, 145]
DISCONNECT_RC = [0, 4, 128, 129, 130, 131, 135, 137, 139, 140, 141, 142, 143, 144, 147, 148, 149, 150, 151, 152,
                 153, 154, 155, 156, 157, 158, 159, 160, 161, 162]
AUTH_RC = [0, 24, 25]

KNOWN_PROPS = [1, 2, 3, 8, 9, 11, 17, 18, 19, 21, 22, 23, 24, 25, 26, 28, 31, 33, 34, 35, 36, 37, 38, 39, 40, 41, 42]

T_CONNECT, T_CONNACK, T_PUBLISH, T_PUBACK, T_PUBREC, T_PUBREL, T_PUBCOMP, T_SUBSCRIBE, T_SUBACK, T_UNSUBSCRIBE, \
    T_UNSUBACK, T_PINGREQ, T_PINGRESP, T_DISCONNECT, T_AUTH = range(1, 16)
KINDS = list(range(1, 16))
FIRST_BYTE = {T_CONNECT: 0x10, T_CONNACK: 0x20, T_PUBACK: 0x40, T_PUBREC: 0x50, T_PUBREL: 0x62, T_PUBCOMP: 0x70,
              T_SUBSCRIBE: 0x82, T_SUBACK: 0x90, T_UNSUBSCRIBE: 0xa2, T_UNSUBACK: 0xb0, T_PINGREQ: 0xc0,
              T_PINGRESP: 0xd0, T_DISCONNECT: 0xe0, T_AUTH: 0xf0}


# ------------------------------------------------------------------ wire primitives
def vi(n):
    out = bytearray()
    while True:
        b = n % 128
        n //= 128
        if n > 0:
            b |= 128
        out.append(b)
        if n == 0:
            return bytes(out)


class W:
    """byte writer that remembers where the length fields are: marks = (offset, width, kind)"""

    def __init__(self):
        self.b = bytearray()
        self.marks = []

    def u8(self, v):
        self.b.append(v & 255)
        return self

    def u16(self, v):
        self.b += struct.pack(">H", v & 0xffff)
        return self

    def u32(self, v):
        self.b += struct.pack(">I", v & 0xffffffff)
        return self

    def raw(self, bs):
        self.b += bs
        return self

    def lstr(self, bs, kind="str"):
        self.marks.append((len(self.b), 2, kind))
        self.u16(len(bs))
        self.b += bs
        return self

    def vint(self, v, kind="vint"):
        e = vi(v)
        self.marks.append((len(self.b), len(e), kind))
        self.b += e
        return self

    def embed(self, w):
        off = len(self.b)
        self.marks += [(o + off, n, k) for (o, n, k) in w.marks]
        self.b += w.b
        return self


def prop(pid):
    return W().u8(pid)


def props_block(w, entries, rng, hook=None):
    entries = list(entries)
    if hook:
        hook(entries, rng)
    if rng is not None:
        # any order is legal; repeated properties (user properties, subscription ids) keep their relative order
        shuffled = list(entries)
        rng.shuffle(shuffled)
        queues = {}
        for e in entries:
            queues.setdefault(bytes(e.b[:1]), []).append(e)
        entries = [queues[bytes(e.b[:1])].pop(0) for e in shuffled]
    body = W()
    for e in entries:
        body.embed(e)
    w.vint(len(body.b), "proplen")
    w.embed(body)


def frame(first_byte, body):
    """returns (bytes, marks) with the remaining-length mark first"""
    rl = vi(len(body.b))
    off = 1 + len(rl)
    return bytes([first_byte]) + rl + bytes(body.b), [(1, len(rl), "rl")] + [(o + off, n, k) for (o, n, k) in body.marks]


# ------------------------------------------------------------------ random values
SMALL_LENS = [0, 1, 2, 127, 128, 200]
BIG_LENS = [16383, 16384, 65535]
CHARS = ["a", "b", "z", "0", "/", "+", "#", "$", " ", "\u00e9", "\u20ac", "\U0001d11e", "\u0000", "\ud7ff", "\ue000",
         "\uffff", "\U0010ffff", "\u0080", "\u07ff", "\u0800", "\U00010000"]


def rlen(rng, big):
    x = rng.random()
    if big and x < 0.02:
        return rng.choice(BIG_LENS)
    if x < 0.25:
        return rng.choice(SMALL_LENS)
    return rng.randint(0, 8)


def rstr(rng, big=False, n=None):
    """valid UTF-8 of an exact byte length"""
    if n is None:
        n = rlen(rng, big)
    out = bytearray()
    ascii_only = rng.random() < 0.5 or n > 300
    while len(out) < n:
        c = "a" if ascii_only else rng.choice(CHARS)
        e = c.encode("utf-8")
        if len(out) + len(e) <= n:
            out += e
        else:
            out += b"x" * (n - len(out))
    if ascii_only and n > 0:
        out[rng.randrange(n)] = rng.choice(b"abc/+#$")
    return bytes(out)


def rbin(rng, big=False, n=None):
    if n is None:
        n = rlen(rng, big)
    if n > 300:
        return bytes([rng.randrange(256)]) * n
    return bytes(rng.randrange(256) for _ in range(n))


def opt(rng, f, p=0.5):
    return f() if rng.random() < p else None


def rups(rng, big=False, maxn=4):
    n = rng.choice([0, 0, 0, 1, 1, 2, 3, 4][:4 + maxn])
    return [(rstr(rng, big), rstr(rng, big)) for _ in range(n)]


def ru16(rng):
    return rng.choice([0, 1, 2, 255, 256, 65534, 65535, rng.randint(0, 65535)])


def rnz16(rng):
    return rng.choice([1, 2, 255, 256, 65535, rng.randint(1, 65535)])


def ru32(rng):
    return rng.choice([0, 1, 65535, 65536, 2 ** 31, 2 ** 32 - 1, rng.randint(0, 2 ** 32 - 1)])


def rnz32(rng):
    return rng.choice([1, 65535, 65536, 2 ** 32 - 1, rng.randint(1, 2 ** 32 - 1)])


VI_BOUNDS = [1, 2, 127, 128, 16383, 16384, 2097151, 2097152, 268435455]


def rsubid(rng):
    return rng.choice(VI_BOUNDS + [rng.randint(1, 268435455)])


def rpayload_size(rng):
    x = rng.random()
    if x < 0.03:
        return rng.choice([16383, 16384, 16385])
    if x < 0.15:
        return rng.choice([0, 1, 126, 127, 128, 129])
    return rng.randint(0, 12)


# ------------------------------------------------------------------ packet values (Rust struct level)
def gen_publish(rng, big=False):
    qos = rng.randint(0, 2)
    return {"t": T_PUBLISH, "dup": rng.random() < 0.3, "retain": rng.random() < 0.3, "qos": qos,
            "pid": None if qos == 0 else rnz16(rng), "topic": rstr(rng, big), "payload_size": rpayload_size(rng),
            "topic_alias": opt(rng, lambda: rnz16(rng), 0.3), "corr": opt(rng, lambda: rbin(rng, big), 0.3),
            "expiry": opt(rng, lambda: rnz32(rng), 0.3), "ctype": opt(rng, lambda: rstr(rng, big), 0.3),
            "ups": rups(rng, big), "utf8": rng.random() < 0.3, "resp_topic": opt(rng, lambda: rstr(rng, big), 0.3),
            "sub_ids": [rsubid(rng) for _ in range(rng.choice([0, 0, 0, 1, 1, 2, 3]))]}


def gen_will(rng, big=False):
    return {"qos": rng.randint(0, 2), "retain": rng.random() < 0.5, "topic": rstr(rng, big), "message": rbin(rng, big),
            "will_delay": opt(rng, lambda: ru32(rng)), "corr": opt(rng, lambda: rbin(rng, big)),
            "expiry": opt(rng, lambda: rnz32(rng)), "ctype": opt(rng, lambda: rstr(rng, big)), "ups": rups(rng, big),
            "utf8": opt(rng, lambda: rng.random() < 0.5), "resp_topic": opt(rng, lambda: rstr(rng, big))}


def gen_connect(rng, big=False):
    return {"t": T_CONNECT, "clean_start": rng.random() < 0.5, "keep_alive": ru16(rng),
            "session_expiry": rng.choice([0, 0, ru32(rng)]), "auth_method": opt(rng, lambda: rstr(rng, big), 0.3),
            "auth_data": opt(rng, lambda: rbin(rng, big), 0.3), "req_problem": rng.random() < 0.6,
            "req_response": rng.random() < 0.4, "receive_max": opt(rng, lambda: rnz16(rng)),
            "topic_alias_max": rng.choice([0, 0, ru16(rng)]), "ups": rups(rng, big),
            "max_packet_size": opt(rng, lambda: rnz32(rng)), "will": opt(rng, lambda: gen_will(rng, big)),
            "client_id": rstr(rng, big), "username": opt(rng, lambda: rstr(rng, big)),
            "password": opt(rng, lambda: rbin(rng, big))}


def gen_connack(rng, big=False, rc=None):
    return {"t": T_CONNACK, "session_present": rng.random() < 0.5,
            "rc": rng.choice(CONNACK_RC) if rc is None else rc,
            "session_expiry": opt(rng, lambda: ru32(rng), 0.3), "receive_max": rng.choice([65535, 65535, rnz16(rng)]),
            "max_qos": rng.choice([2, 2, 1, 0]), "max_packet_size": opt(rng, lambda: ru32(rng), 0.3),
            "assigned_client_id": opt(rng, lambda: rstr(rng, big), 0.3),
            "topic_alias_max": rng.choice([0, 0, ru16(rng)]), "retain_available": rng.random() < 0.7,
            "wildcard": rng.random() < 0.7, "sub_ids_avail": rng.random() < 0.7, "shared": rng.random() < 0.7,
            "server_ka": opt(rng, lambda: ru16(rng), 0.3), "response_info": opt(rng, lambda: rstr(rng, big), 0.3),
            "server_reference": opt(rng, lambda: rstr(rng, big), 0.3),
            "auth_method": opt(rng, lambda: rstr(rng, big), 0.3), "auth_data": opt(rng, lambda: rbin(rng, big), 0.3),
            "reason_string": opt(rng, lambda: rstr(rng, big), 0.4), "ups": rups(rng, big)}


def gen_ack(rng, t, big=False, rc=None):
    codes = PUBACK_RC if t in (T_PUBACK, T_PUBREC) else PUBREL_RC
    return {"t": t, "pid": rnz16(rng), "rc": rng.choice(codes) if rc is None else rc, "ups": rups(rng, big),
            "reason_string": opt(rng, lambda: rstr(rng, big), 0.4)}


def gen_subopts(rng):
    return {"qos": rng.randint(0, 2), "no_local": rng.random() < 0.5, "rap": rng.random() < 0.5,
            "rh": rng.randint(0, 2)}


def gen_subscribe(rng, big=False):
    return {"t": T_SUBSCRIBE, "pid": rnz16(rng), "id": opt(rng, lambda: rsubid(rng)), "ups": rups(rng, big),
            "filters": [(rstr(rng, big), gen_subopts(rng)) for _ in range(rng.choice([0, 1, 1, 2, 3]))]}


def gen_suback(rng, big=False, status=None):
    return {"t": T_SUBACK, "pid": rnz16(rng), "ups": rups(rng, big),
            "reason_string": opt(rng, lambda: rstr(rng, big), 0.4),
            "status": [rng.choice(SUBACK_RC) for _ in range(rng.choice([0, 1, 1, 2, 5]))] if status is None else status}


def gen_unsubscribe(rng, big=False):
    return {"t": T_UNSUBSCRIBE, "pid": rnz16(rng), "ups": rups(rng, big),
            "filters": [rstr(rng, big) for _ in range(rng.choice([0, 1, 1, 2, 3]))]}


def gen_unsuback(rng, big=False, status=None):
    return {"t": T_UNSUBACK, "pid": rnz16(rng), "ups": rups(rng, big),
            "reason_string": opt(rng, lambda: rstr(rng, big), 0.4),
            "status": [rng.choice(UNSUBACK_RC) for _ in range(rng.choice([0, 1, 1, 2, 5]))] if status is None else status}


def gen_disconnect(rng, big=False, rc=None):
    return {"t": T_DISCONNECT, "rc": rng.choice(DISCONNECT_RC) if rc is None else rc,
            "session_expiry": opt(rng, lambda: ru32(rng), 0.3),
            "server_reference": opt(rng, lambda: rstr(rng, big), 0.3),
            "reason_string": opt(rng, lambda: rstr(rng, big), 0.4), "ups": rups(rng, big)}


def gen_auth(rng, big=False, rc=None):
    return {"t": T_AUTH, "rc": rng.choice(AUTH_RC) if rc is None else rc,
            "auth_method": opt(rng, lambda: rstr(rng, big), 0.4), "auth_data": opt(rng, lambda: rbin(rng, big), 0.4),
            "reason_string": opt(rng, lambda: rstr(rng, big), 0.4), "ups": rups(rng, big)}


def gen_packet(rng, t, big=False):
    if t == T_CONNECT:
        return gen_connect(rng, big)
    if t == T_CONNACK:
        return gen_connack(rng, big)
    if t == T_PUBLISH:
        return gen_publish(rng, big)
    if t in (T_PUBACK, T_PUBREC, T_PUBREL, T_PUBCOMP):
        return gen_ack(rng, t, big)
    if t == T_SUBSCRIBE:
        return gen_subscribe(rng, big)
    if t == T_SUBACK:
        return gen_suback(rng, big)
    if t == T_UNSUBSCRIBE:
        return gen_unsubscribe(rng, big)
    if t == T_UNSUBACK:
        return gen_unsuback(rng, big)
    if t == T_DISCONNECT:
        return gen_disconnect(rng, big)
    if t == T_AUTH:
        return gen_auth(rng, big)
    return {"t": t}


def all_reason_code_packets(rng):
    out = []
    for rc in PUBACK_RC:
        out += [gen_ack(rng, T_PUBACK, rc=rc), gen_ack(rng, T_PUBREC, rc=rc)]
    for rc in PUBREL_RC:
        out += [gen_ack(rng, T_PUBREL, rc=rc), gen_ack(rng, T_PUBCOMP, rc=rc)]
    out += [gen_connack(rng, rc=rc) for rc in CONNACK_RC]
    out += [gen_suback(rng, status=[rc]) for rc in SUBACK_RC] + [gen_suback(rng, status=list(SUBACK_RC))]
    out += [gen_unsuback(rng, status=[rc]) for rc in UNSUBACK_RC] + [gen_unsuback(rng, status=list(UNSUBACK_RC))]
    out += [gen_disconnect(rng, rc=rc) for rc in DISCONNECT_RC]
    out += [gen_auth(rng, rc=rc) for rc in AUTH_RC]
    return out


# ------------------------------------------------------------------ dump grammar (coq/Model/EnginesV5.v)
def d_bytes(b):
    return [len(b)] + list(b)


def d_opt(f, v):
    return [0] if v is None else [1] + f(v)


def d_num(n):
    return [int(n)]


def d_bool(b):
    return [1 if b else 0]


def d_ups(l):
    out = [len(l)]
    for k, v in l:
        out += d_bytes(k) + d_bytes(v)
    return out


def d_list(f, l):
    out = [len(l)]
    for x in l:
        out += f(x)
    return out


def dump_publish(p):
    return (d_bool(p["dup"]) + d_bool(p["retain"]) + [p["qos"]] + d_opt(d_num, p["pid"]) + d_bytes(p["topic"])
            + [p["payload_size"]] + d_opt(d_num, p["topic_alias"]) + d_opt(d_bytes, p["corr"])
            + d_opt(d_num, p["expiry"]) + d_opt(d_bytes, p["ctype"]) + d_ups(p["ups"]) + d_bool(p["utf8"])
            + d_opt(d_bytes, p["resp_topic"]) + d_list(d_num, p["sub_ids"]))


def dump_will(w):
    return ([w["qos"]] + d_bool(w["retain"]) + d_bytes(w["topic"]) + d_bytes(w["message"])
            + d_opt(d_num, w["will_delay"]) + d_opt(d_bytes, w["corr"]) + d_opt(d_num, w["expiry"])
            + d_opt(d_bytes, w["ctype"]) + d_ups(w["ups"]) + d_opt(d_bool, w["utf8"]) + d_opt(d_bytes, w["resp_topic"]))


def dump_packet(p):
    t = p["t"]
    if t == T_CONNECT:
        return ([1] + d_bool(p["clean_start"]) + [p["keep_alive"], p["session_expiry"]]
                + d_opt(d_bytes, p["auth_method"]) + d_opt(d_bytes, p["auth_data"]) + d_bool(p["req_problem"])
                + d_bool(p["req_response"]) + d_opt(d_num, p["receive_max"]) + [p["topic_alias_max"]] + d_ups(p["ups"])
                + d_opt(d_num, p["max_packet_size"]) + d_opt(dump_will, p["will"]) + d_bytes(p["client_id"])
                + d_opt(d_bytes, p["username"]) + d_opt(d_bytes, p["password"]))
    if t == T_CONNACK:
        return ([2] + d_bool(p["session_present"]) + [p["rc"]] + d_opt(d_num, p["session_expiry"])
                + [p["receive_max"], p["max_qos"]] + d_opt(d_num, p["max_packet_size"])
                + d_opt(d_bytes, p["assigned_client_id"]) + [p["topic_alias_max"]] + d_bool(p["retain_available"])
                + d_bool(p["wildcard"]) + d_bool(p["sub_ids_avail"]) + d_bool(p["shared"])
                + d_opt(d_num, p["server_ka"]) + d_opt(d_bytes, p["response_info"])
                + d_opt(d_bytes, p["server_reference"]) + d_opt(d_bytes, p["auth_method"])
                + d_opt(d_bytes, p["auth_data"]) + d_opt(d_bytes, p["reason_string"]) + d_ups(p["ups"]))
    if t in (T_PUBACK, T_PUBREC, T_PUBREL, T_PUBCOMP):
        return [t, p["pid"], p["rc"]] + d_ups(p["ups"]) + d_opt(d_bytes, p["reason_string"])
    if t == T_SUBSCRIBE:
        return ([8, p["pid"]] + d_opt(d_num, p["id"]) + d_ups(p["ups"])
                + d_list(lambda f: d_bytes(f[0]) + [f[1]["qos"]] + d_bool(f[1]["no_local"]) + d_bool(f[1]["rap"])
                         + [f[1]["rh"]], p["filters"]))
    if t in (T_SUBACK, T_UNSUBACK):
        return [t, p["pid"]] + d_ups(p["ups"]) + d_opt(d_bytes, p["reason_string"]) + d_list(d_num, p["status"])
    if t == T_UNSUBSCRIBE:
        return [10, p["pid"]] + d_ups(p["ups"]) + d_list(d_bytes, p["filters"])
    if t in (T_PINGREQ, T_PINGRESP):
        return [t]
    if t == T_DISCONNECT:
        return ([14, p["rc"]] + d_opt(d_num, p["session_expiry"]) + d_opt(d_bytes, p["server_reference"])
                + d_opt(d_bytes, p["reason_string"]) + d_ups(p["ups"]))
    if t == T_AUTH:
        return ([15, p["rc"]] + d_opt(d_bytes, p["auth_method"]) + d_opt(d_bytes, p["auth_data"])
                + d_opt(d_bytes, p["reason_string"]) + d_ups(p["ups"]))
    raise ValueError(t)


# ------------------------------------------------------------------ wire encoder (MQTT 5.0 sections 3.x)
def p_ups(ups):
    return [prop(38).lstr(k).lstr(v) for k, v in ups]


def p_str(pid, v):
    return [] if v is None else [prop(pid).lstr(v)]


def p_u32(pid, v):
    return [] if v is None else [prop(pid).u32(v)]


def p_u16(pid, v):
    return [] if v is None else [prop(pid).u16(v)]


def p_byte(pid, v):
    return [] if v is None else [prop(pid).u8(int(v))]


def p_default(rng, pid, v, default, enc):
    """a property whose absence means `default`: sometimes sent explicitly anyway"""
    if v != default or (rng is not None and rng.random() < 0.2):
        return enc(pid, v)
    return []


def wire_body(p, rng, hook=None, short=True):
    """variable header + payload of every packet but PUBLISH, as a W"""
    t = p["t"]
    w = W()
    if t == T_CONNECT:
        flags = ((0x80 if p["username"] is not None else 0) | (0x40 if p["password"] is not None else 0)
                 | (0x02 if p["clean_start"] else 0))
        wl = p["will"]
        if wl is not None:
            flags |= 0x04 | (wl["qos"] << 3) | (0x20 if wl["retain"] else 0)
        flags |= p.get("flags_or", 0)
        w.lstr(p.get("proto", b"MQTT"), "proto").u8(p.get("level", 5)).u8(flags).u16(p["keep_alive"])
        props_block(w, p_default(rng, 17, p["session_expiry"], 0, p_u32) + p_str(21, p["auth_method"])
                    + p_str(22, p["auth_data"]) + p_default(rng, 23, p["req_problem"], True, p_byte)
                    + p_default(rng, 25, p["req_response"], False, p_byte) + p_u16(33, p["receive_max"])
                    + p_default(rng, 34, p["topic_alias_max"], 0, p_u16) + p_ups(p["ups"])
                    + p_u32(39, p["max_packet_size"]), rng, hook)
        w.lstr(p["client_id"])
        if wl is not None:
            props_block(w, p_u32(24, wl["will_delay"]) + p_str(9, wl["corr"]) + p_u32(2, wl["expiry"])
                        + p_str(3, wl["ctype"]) + p_byte(1, wl["utf8"]) + p_str(8, wl["resp_topic"])
                        + p_ups(wl["ups"]), rng, hook)
            w.lstr(wl["topic"]).lstr(wl["message"])
        if p["username"] is not None:
            w.lstr(p["username"])
        if p["password"] is not None:
            w.lstr(p["password"])
    elif t == T_CONNACK:
        w.u8(int(p["session_present"]) | p.get("flags_or", 0)).u8(p["rc"])
        props_block(w, p_u32(17, p["session_expiry"]) + p_default(rng, 33, p["receive_max"], 65535, p_u16)
                    + p_default(rng, 36, p["max_qos"], 2, p_byte) + p_default(rng, 37, p["retain_available"], True, p_byte)
                    + p_u32(39, p["max_packet_size"]) + p_str(18, p["assigned_client_id"])
                    + p_default(rng, 34, p["topic_alias_max"], 0, p_u16) + p_str(31, p["reason_string"])
                    + p_ups(p["ups"]) + p_default(rng, 40, p["wildcard"], True, p_byte)
                    + p_default(rng, 41, p["sub_ids_avail"], True, p_byte) + p_default(rng, 42, p["shared"], True, p_byte)
                    + p_u16(19, p["server_ka"]) + p_str(26, p["response_info"]) + p_str(28, p["server_reference"])
                    + p_str(21, p["auth_method"]) + p_str(22, p["auth_data"]), rng, hook)
    elif t in (T_PUBACK, T_PUBREC, T_PUBREL, T_PUBCOMP):
        w.u16(p["pid"])
        noprops = not p["ups"] and p["reason_string"] is None and hook is None
        form = rng.randint(0, 2) if (rng is not None and short) else 2
        if noprops and p["rc"] == 0 and form == 0:
            pass                                   # 3.4.2.1: reason code and property length omitted
        elif noprops and form <= 1:
            w.u8(p["rc"])                          # remaining length 3: no property length
        else:
            w.u8(p["rc"])
            props_block(w, p_str(31, p["reason_string"]) + p_ups(p["ups"]), rng, hook)
    elif t == T_SUBSCRIBE:
        w.u16(p["pid"])
        props_block(w, ([] if p["id"] is None else [prop(11).vint(p["id"], "subid")]) + p_ups(p["ups"]), rng, hook)
        for f, o in p["filters"]:
            w.lstr(f).u8(o["qos"] | (int(o["no_local"]) << 2) | (int(o["rap"]) << 3) | (o["rh"] << 4)
                         | o.get("reserved", 0))
    elif t in (T_SUBACK, T_UNSUBACK):
        w.u16(p["pid"])
        props_block(w, p_str(31, p["reason_string"]) + p_ups(p["ups"]), rng, hook)
        w.raw(bytes(p["status"]))
    elif t == T_UNSUBSCRIBE:
        w.u16(p["pid"])
        props_block(w, p_ups(p["ups"]), rng, hook)
        for f in p["filters"]:
            w.lstr(f)
    elif t in (T_PINGREQ, T_PINGRESP):
        pass
    elif t == T_DISCONNECT:
        entries = (p_u32(17, p["session_expiry"]) + p_str(31, p["reason_string"]) + p_ups(p["ups"])
                   + p_str(28, p["server_reference"]))
        form = rng.randint(0, 2) if (rng is not None and short) else 2
        if not entries and hook is None and p["rc"] == 0 and form == 0:
            pass
        elif not entries and hook is None and form <= 1:
            w.u8(p["rc"])
        else:
            w.u8(p["rc"])
            props_block(w, entries, rng, hook)
    elif t == T_AUTH:
        entries = (p_str(21, p["auth_method"]) + p_str(22, p["auth_data"]) + p_str(31, p["reason_string"])
                   + p_ups(p["ups"]))
        form = rng.randint(0, 2) if (rng is not None and short) else 2
        if not entries and hook is None and p["rc"] == 0 and form == 0:
            pass
        elif not entries and hook is None and form <= 1:
            w.u8(p["rc"])
        else:
            w.u8(p["rc"])
            props_block(w, entries, rng, hook)
    else:
        raise ValueError(t)
    return w


def wire_publish(p, payload, rng, hook=None):
    w = W()
    w.lstr(p["topic"], "topic")
    if p["qos"] > 0 or p.get("force_pid"):
        w.u16(p["pid"] or 0)
    props_block(w, p_u16(35, p["topic_alias"]) + p_str(9, p["corr"]) + p_u32(2, p["expiry"]) + p_str(3, p["ctype"])
                + p_ups(p["ups"]) + p_default(rng, 1, p["utf8"], False, p_byte) + p_str(8, p["resp_topic"])
                + [prop(11).vint(i, "subid") for i in p["sub_ids"]], rng, hook)
    w.raw(payload)
    fb = 0x30 | (int(p["dup"]) << 3) | (p["qos"] << 1) | int(p["retain"])
    return frame(fb, w)


def wire(p, rng, hook=None, payload=None):
    """(frame bytes, marks) of a packet value"""
    if p["t"] == T_PUBLISH:
        if payload is None:
            payload = rbin(rng, n=p["payload_size"])
        return wire_publish(p, payload, rng, hook)
    return frame(p.get("first_byte", FIRST_BYTE[p["t"]]), wire_body(p, rng, hook))


# ------------------------------------------------------------------ case lines
def nums(b):
    return ",".join(str(x) for x in b)


def dec_case(stream, cuts=(), max_in=0, min_chunk=0):
    return "%d,%d;%s;%s" % (max_in, min_chunk, nums(cuts), nums(stream))


def rand_cuts(rng, n):
    if n <= 1:
        return []
    k = rng.choice([0, 1, 1, 2, 3, 5])
    return sorted(set(rng.randint(0, n) for _ in range(k)))


def rl_of(fr):
    """remaining length of a well-formed frame"""
    v, m = 0, 1
    for b in fr[1:5]:
        v += (b & 127) * m
        m *= 128
        if b < 128:
            break
    return v


def configs_for(fr, rng):
    rl = rl_of(fr)
    return [(m, c) for m in sorted(set([0, 1, max(rl - 1, 0), rl, rl + 1])) for c in (0, 1, 4)]


# ---- (a) structured valid packets as dec5 streams
def dec5_valid(rng, n):
    out = []
    packets = all_reason_code_packets(rng)
    for t in KINDS:
        for _ in range(n):
            packets.append(gen_packet(rng, t, big=False))
    for _ in range(max(n // 4, 3)):
        for t in KINDS:
            packets.append(gen_packet(rng, t, big=True))
    frames = []
    for p in packets:
        fr, _ = wire(p, rng)
        frames.append(fr)
        m, c = rng.choice(configs_for(fr, rng)) if rng.random() < 0.3 else (0, rng.choice([0, 0, 1, 4]))
        out.append(dec_case(fr, rand_cuts(rng, len(fr)), m, c))
        if len(fr) <= 300 and rng.random() < 0.3:
            out.append(dec_case(fr, range(1, len(fr)), 0, rng.choice([0, 1, 4])))        # byte at a time
        if len(fr) <= 48 and rng.random() < 0.5:
            c = rng.choice([0, 1, 4])
            out += [dec_case(fr, [k], 0, c) for k in range(0, len(fr) + 1)]            # every single cut
    # streams of 1..3 frames
    small = [f for f in frames if len(f) <= 400]
    for _ in range(n * 6):
        k = rng.randint(1, 3)
        s = b"".join(rng.choice(small) for _ in range(k))
        mode = rng.random()
        if mode < 0.25 and len(s) <= 300:
            cuts = range(1, len(s))
        else:
            cuts = rand_cuts(rng, len(s))
        out.append(dec_case(s, cuts, 0, rng.choice([0, 0, 1, 4, 16])))
    # publishes with larger payloads, chunked delivery
    for _ in range(n):
        p = gen_publish(rng)
        p["payload_size"] = rng.choice([0, 1, 5, 127, 128, 300, 16383, 16384]) if rng.random() < 0.5 else rng.randint(0, 40)
        fr, _ = wire(p, rng)
        for c in (0, 1, 4, rng.choice([2, 8, 100, 20000])):
            out.append(dec_case(fr + b"\xc0\x00", rand_cuts(rng, len(fr) + 2), 0, c))
            out.append(dec_case(fr, rand_cuts(rng, len(fr)), rng.choice([0, rl_of(fr), rl_of(fr) - 1 if rl_of(fr) else 0]), c))
    return out


# ---- (b) hostile streams
def all_short(rng=None, n=None):
    out = [dec_case(b"")]
    out += [dec_case(bytes([a])) for a in range(256)]
    out += [dec_case(bytes([a, b])) for a in range(256) for b in range(256)]
    return out


def set_mark(fr, mark, value):
    o, n, kind = mark
    if n == 2 and kind in ("str", "topic", "proto"):
        return fr[:o] + struct.pack(">H", max(0, min(65535, value))) + fr[o + n:]
    return fr[:o] + vi(max(0, value)) + fr[o + n:]


def get_mark(fr, mark):
    o, n, kind = mark
    if n == 2 and kind in ("str", "topic", "proto"):
        return struct.unpack(">H", fr[o:o + 2])[0]
    v, m = 0, 1
    for b in fr[o:o + n]:
        v += (b & 127) * m
        m *= 128
    return v


def fix_rl(fr):
    """recompute the remaining length from the actual body (keeps inner lies, repairs the frame boundary)"""
    # the old header is first byte + var-int
    i = 1
    while i < 5 and i < len(fr) and fr[i] >= 128:
        i += 1
    body = fr[i + 1:]
    return fr[:1] + vi(len(body)) + body


def hook_unknown(entries, rng):
    pid = rng.choice([0, 4, 5, 6, 7, 10, 12, 16, 20, 27, 29, 30, 32, 43, 44, 127, 128, 255] + KNOWN_PROPS)
    e = prop(pid)
    k = rng.randint(0, 3)
    if k == 0:
        e.u8(rng.randrange(256))
    elif k == 1:
        e.u16(rng.randrange(65536))
    elif k == 2:
        e.lstr(rstr(rng))
    entries.append(e)


def hook_dup(entries, rng):
    if entries:
        e = rng.choice(entries)
        c = W()
        c.embed(e)
        entries.append(c)


def hook_badvalue(entries, rng):
    """a known property with a wrong-size / out-of-range value"""
    pid = rng.choice(KNOWN_PROPS)
    e = prop(pid)
    k = rng.randint(0, 4)
    if k == 0:
        pass
    elif k == 1:
        e.u8(rng.choice([0, 1, 2, 3, 255]))
    elif k == 2:
        e.u16(0)
    elif k == 3:
        e.u32(0)
    else:
        e.raw(vi(rng.choice([0, 128, 2 ** 28 - 1, 2 ** 28, 2 ** 35 - 1])))
    entries.append(e)


BAD_UTF8 = [b"\xff", b"\xc0\x80", b"\xed\xa0\x80", b"\xf4\x90\x80\x80", b"\xe2\x82", b"a\x80", b"\xf8\x88\x80\x80\x80",
            b"\xc1\xbf", b"\xe0\x9f\xbf", b"\xf0\x8f\xbf\xbf"]


def small_packet(rng, t):
    for _ in range(50):
        p = gen_packet(rng, t)
        if p["t"] == T_PUBLISH:
            p["payload_size"] = rng.randint(0, 6)
        fr, marks = wire(p, rng)
        if len(fr) <= 90:
            return p, fr, marks
    return p, fr, marks


def dec5_hostile(rng, n):
    out = []
    ping = b"\xc0\x00"
    for t in KINDS:
        for _ in range(n):
            p, fr, marks = small_packet(rng, t)
            nxt = rng.choice([ping, b"", small_packet(rng, rng.choice(KINDS))[1]])
            # inflate / deflate every length field
            for mk in marks:
                v = get_mark(fr, mk)
                for nv in sorted(set([v - 2, v - 1, v + 1, v + 2, 0, v + 128, 65535 if mk[1] == 2 else 2 ** 28 - 1])):
                    if nv < 0 or nv == v:
                        continue
                    m = set_mark(fr, mk, nv)
                    out.append(dec_case(m + nxt, rand_cuts(rng, len(m)) if rng.random() < 0.3 else ()))
                    if mk[2] != "rl" and rng.random() < 0.5:
                        out.append(dec_case(fix_rl(m) + nxt))
            # configs around the remaining length
            for (m, c) in configs_for(fr, rng):
                out.append(dec_case(fr + nxt, rand_cuts(rng, len(fr)), m, c))
            # truncation at every offset, alone and followed by another frame
            for k in range(len(fr)):
                out.append(dec_case(fr[:k]))
                if rng.random() < 0.3:
                    out.append(dec_case(fr[:k] + nxt, [k]))
                if rng.random() < 0.2:
                    out.append(dec_case(fix_rl(fr[:k]) + nxt) if k >= 2 else dec_case(fr[:k] + ping))
            # bit flips in the first 12 bytes
            for bit in range(min(len(fr), 12) * 8):
                m = bytearray(fr)
                m[bit // 8] ^= 1 << (bit % 8)
                out.append(dec_case(bytes(m) + nxt))
            # property level attacks
            for hook in (hook_unknown, hook_dup, hook_badvalue, hook_unknown, hook_dup):
                if t in (T_PINGREQ, T_PINGRESP):
                    continue
                fr2, _ = wire(p, rng, hook)
                out.append(dec_case(fr2 + nxt))
            # spliced frames
            o, fo, _ = small_packet(rng, rng.choice(KINDS))
            for _ in range(3):
                a, b = rng.randint(0, len(fr)), rng.randint(0, len(fo))
                out.append(dec_case(fr[:a] + fo[b:]))
                out.append(dec_case(fix_rl(fr[:a] + fo[b:]) + ping) if a >= 2 else dec_case(fo[b:] + fr[:a]))
    # value level attacks
    for _ in range(n * 4):
        t = rng.choice([T_PUBLISH, T_PUBACK, T_PUBREC, T_PUBREL, T_PUBCOMP, T_SUBSCRIBE, T_SUBACK, T_UNSUBSCRIBE,
                        T_UNSUBACK])
        p = gen_packet(rng, t)
        if t == T_PUBLISH:
            p["payload_size"] = rng.randint(0, 5)
            k = rng.randint(0, 3)
            if k == 0:
                p["qos"], p["pid"] = rng.choice([1, 2]), 0          # zero packet id
            elif k == 1:
                p["qos"], p["pid"] = 3, rng.choice([0, 1, 7])       # QoS 3
            elif k == 2:
                p["sub_ids"] = [0] + p["sub_ids"]                   # zero subscription id
            else:
                p["topic_alias"] = 0
        else:
            k = rng.randint(0, 2)
            if k == 0:
                p["pid"] = 0
            elif k == 1 and "rc" in p:
                p["rc"] = rng.choice([1, 2, 3, 15, 17, 127, 129, 146, 147, 163, 255])
            elif "status" in p:
                p["status"] = p["status"] + [rng.choice([3, 4, 16, 18, 127, 129, 144, 163, 255])]
            elif t == T_SUBSCRIBE and p["filters"]:
                p["filters"][0][1][rng.choice(["qos", "rh"])] = 3
                if rng.random() < 0.3:
                    p["filters"][0][1]["reserved"] = rng.choice([0x40, 0x80, 0xc0])
            elif t == T_SUBSCRIBE:
                p["id"] = 0
        fr, _ = wire(p, rng)
        out.append(dec_case(fr + ping))
    # invalid reason codes on CONNACK / DISCONNECT / AUTH, reserved flags, protocol names / levels
    for _ in range(n * 3):
        p = gen_packet(rng, rng.choice([T_CONNACK, T_DISCONNECT, T_AUTH]))
        p["rc"] = rng.choice([1, 2, 3, 5, 23, 26, 127, 139, 141, 158, 163, 255])
        out.append(dec_case(wire(p, rng)[0] + ping))
        p = gen_connack(rng)
        p["flags_or"] = rng.choice([2, 4, 128, 254])
        out.append(dec_case(wire(p, rng)[0] + ping))
        p = gen_connack(rng)
        p["max_qos"] = rng.choice([3, 4, 255])
        out.append(dec_case(wire(p, rng)[0] + ping))
        p = gen_connect(rng)
        k = rng.randint(0, 4)
        if k == 0:
            p["flags_or"] = 1
        elif k == 1:
            p["proto"] = rng.choice([b"MQTS", b"MQIsdp", b"MQT", b"mqtt", b"", b"MQTTT"])
        elif k == 2:
            p["level"] = rng.choice([0, 3, 4, 6, 255])
        elif k == 3:
            p["flags_or"] = rng.choice([0x18, 0x20, 0x08, 0x10, 0x38])     # will qos / retain without (or with) will
        else:
            p["will"] = gen_will(rng)
            p["will"]["qos"] = 3
        out.append(dec_case(wire(p, rng)[0] + ping))
    # bad UTF-8 in every string position
    for _ in range(n * 3):
        t = rng.choice([x for x in KINDS if x not in (T_PINGREQ, T_PINGRESP)])
        p, fr, marks = small_packet(rng, t)
        smarks = [mk for mk in marks if mk[1] == 2]
        if not smarks:
            continue
        mk = rng.choice(smarks)
        bad = rng.choice(BAD_UTF8)
        o = mk[0]
        ln = get_mark(fr, mk)
        m = fr[:o] + struct.pack(">H", len(bad)) + bad + fr[o + 2 + ln:]
        out.append(dec_case(fix_rl(m) + ping))
        out.append(dec_case(m + ping))
    # long var-ints as remaining length
    for fb in (0x10, 0x30, 0x32, 0x40, 0xc0, 0xe0, 0x00, 0xff):
        for tail in (b"\x80", b"\x80\x80", b"\x80\x80\x80", b"\x80\x80\x80\x80", b"\xff\xff\xff\x7f", b"\xff\xff\xff\xff",
                     b"\x80\x80\x80\x00", b"\x80\x00", b"\xff\xff\xff\xff\x7f", b"\x80\x80\x80\x80\x00"):
            out.append(dec_case(bytes([fb]) + tail + b"\x00" * 4, rand_cuts(rng, 6), rng.choice([0, 1, 1000]), 0))
    # publish header attacks: topic length vs remaining length, var-int property length across the frame end
    for _ in range(n * 6):
        qos = rng.randint(0, 3)
        tl = rng.randint(0, 6)
        topic = rstr(rng, n=tl)
        body = struct.pack(">H", rng.choice([tl, tl, tl + 1, tl + 2, tl + 5, 0, 65535])) + topic
        if qos:
            body += struct.pack(">H", rng.choice([0, 1, 513]))
        pl = rng.choice([b"\x00", b"\x00", b"\x80", b"\x80\x80", b"\x80\x80\x80\x80", b"\x02\x01\x01", b"\x05\x01\x01",
                         b"\x7f", b"\x80\x01", b"\xff\xff\xff\x7f", b"\x81\x00", b""])
        body += pl + bytes(rng.randrange(256) for _ in range(rng.randint(0, 4)))
        rl = rng.choice([len(body), len(body), len(body) - 1, len(body) + 1, 0, 1, 2, 3, tl + 2, tl + 3, tl + 4, tl + 5])
        rl = max(rl, 0)
        fr = bytes([0x30 | (qos << 1) | rng.choice([0, 1, 8, 9])]) + vi(rl) + body
        out.append(dec_case(fr + ping * 2, rand_cuts(rng, len(fr) + 4), rng.choice([0, 0, rl, max(rl - 1, 0)]),
                            rng.choice([0, 1, 4])))
    return out


# ---- (c) enc5
def enc_case(peer_max, npi, ops):
    return "%d,%d;%s" % (peer_max, npi, ";".join(nums(o) for o in ops))


def op_packet(p):
    return [1] + dump_packet(p)


def op_publish(p, buf):
    return [2, 0 if buf is None else 1] + dump_publish(p) + (list(buf) if buf is not None else [])


def op_chunk(b):
    return [3] + list(b)


PEER_SAMPLES = [65, 66, 100, 127, 128, 129, 130, 131, 132, 133, 134, 135, 136, 200, 255, 256, 300, 1000, 16383, 16384,
                16385, 16388, 16389, 16390, 16391, 65535, 65536, 70000, 2097151, 2097152, 2097157, 2 ** 28 - 1, 2 ** 28,
                2 ** 28 + 4, 2 ** 28 + 5, 2 ** 28 + 6, 2 ** 31, 2 ** 32 - 1]


def diag_packet(rng, t, total=None):
    """a packet of the limited kinds with reason string and user properties sized to straddle small limits"""
    p = gen_packet(rng, t)
    nprops = rng.choice([0, 1, 2, 3, 5, 8])
    p["ups"] = [(rstr(rng, n=rng.randint(0, 4)), rstr(rng, n=rng.randint(0, 4))) for _ in range(nprops)]
    p["reason_string"] = opt(rng, lambda: rstr(rng, n=rng.choice([0, 1, 2, 3, 5, 10, 20, 40])), 0.7)
    if t == T_CONNACK:
        for k in ("assigned_client_id", "response_info", "server_reference", "auth_method", "auth_data"):
            if p[k] is not None and len(p[k]) > 6:
                p[k] = p[k][:0] + b"ab"
    if t in (T_DISCONNECT,):
        if p["server_reference"] is not None and len(p["server_reference"]) > 6:
            p["server_reference"] = b"srv"
    if t == T_AUTH:
        for k in ("auth_method", "auth_data"):
            if p[k] is not None and len(p[k]) > 6:
                p[k] = b"m"
    return p


LIMITED = [T_PUBACK, T_PUBREC, T_PUBREL, T_PUBCOMP, T_CONNACK, T_DISCONNECT, T_SUBACK, T_UNSUBACK, T_AUTH]


def enc5_limits(rng, n):
    out = []
    for t in LIMITED:
        for _ in range(n):
            p = diag_packet(rng, t)
            op = op_packet(p)
            for npi in (0, 1):
                for pm in range(1, 65):
                    out.append(enc_case(pm, npi, [op]))
                for pm in rng.sample(PEER_SAMPLES, 6):
                    out.append(enc_case(pm, npi, [op]))
                out.append(enc_case(0, npi, [op]))
    # long diagnostics against mid-size limits (var-int width changes of the property length / remaining length)
    for _ in range(n * 12):
        t = rng.choice(LIMITED)
        p = gen_packet(rng, t)
        p["ups"] = [(rstr(rng, n=rng.choice([0, 1, 30, 60])), rstr(rng, n=rng.choice([0, 1, 30, 57, 58, 59, 60, 61])))
                    for _ in range(rng.choice([0, 1, 2, 3]))]
        p["reason_string"] = opt(rng, lambda: rstr(rng, n=rng.choice([0, 100, 118, 119, 120, 121, 122, 123, 124, 125, 126,
                                                                      127, 128, 129, 130, 200, 16370, 16380, 16384])), 0.8)
        op = op_packet(p)
        for pm in rng.sample(range(100, 300), 6) + rng.sample(PEER_SAMPLES, 3) + [0]:
            out.append(enc_case(pm, rng.choice([0, 0, 0, 1]), [op]))
    return out


def enc5_caps(rng, n):
    """acknowledgements with diagnostics after a CONNECT that declines problem information, with the capability
    setters the server calls after the handshake (third configuration field)"""
    out = []
    for t in (T_PUBACK, T_PUBREC, T_PUBREL, T_PUBCOMP, T_SUBACK, T_UNSUBACK):
        for _ in range(n):
            p = diag_packet(rng, t)
            op = op_packet(p)
            for caps in (1, 2, 3, 4, 8, 5, 10):
                for npi in (0, 1):
                    c = enc_case(rng.choice([0, 0, 64, 300]), npi, [op])
                    f = c.split(";")
                    f[0] = f[0] + ",%d" % caps
                    out.append(";".join(f))
    return out


def enc5_shorten_pairs(rng, n):
    """(full case, bare case) pairs for the shortening rule: the same packet of a limited kind with and without its
    Reason String / User Properties, under the same peer maximum (1..80 and samples): when the bare packet can be
    sent, the full one must be sent too (possibly without its diagnostics), never refused"""
    import copy
    out = []
    for t in LIMITED:
        for _ in range(n):
            p = diag_packet(rng, t)
            if not p["ups"] and p["reason_string"] is None:
                continue
            bare = copy.deepcopy(p)
            bare["ups"] = []
            bare["reason_string"] = None
            op, opb = op_packet(p), op_packet(bare)
            for pm in list(range(1, 81)) + rng.sample(PEER_SAMPLES, 3):
                out.append((enc_case(pm, 0, [op]), enc_case(pm, 0, [opb])))
    # deterministic: acknowledgements with many reason codes (the payload that follows the properties has to come
    # off the budget of the diagnostics), a 20-byte reason string or one user property, every limit 1..80
    for gen, codes in ((gen_suback, SUBACK_RC), (gen_unsuback, UNSUBACK_RC)):
        for ncodes in (4, 8, 16):
            for rs, ups in ((b"r" * 20, []), (None, [(b"k" * 6, b"v" * 8)]), (b"rs", [(b"k", b"v")])):
                p = gen(rng, status=[codes[i % len(codes)] for i in range(ncodes)])
                p["reason_string"], p["ups"] = rs, ups
                bare = copy.deepcopy(p)
                bare["ups"] = []
                bare["reason_string"] = None
                op, opb = op_packet(p), op_packet(bare)
                for pm in range(1, 81):
                    out.append((enc_case(pm, 0, [op]), enc_case(pm, 0, [opb])))
    return out


def enc5_valid(rng, n):
    """every kind, through the dump syntax, several ops on one codec"""
    out = []
    packets = all_reason_code_packets(rng)
    for t in KINDS:
        if t == T_PUBLISH:
            continue
        for _ in range(n):
            packets.append(gen_packet(rng, t, big=rng.random() < 0.05))
    for p in packets:
        out.append(enc_case(rng.choice([0, 0, 0] + PEER_SAMPLES + list(range(1, 65))), rng.choice([0, 0, 1]),
                            [op_packet(p)]))
    for _ in range(n * 3):
        ops = [op_packet(rng.choice(packets)) for _ in range(rng.randint(2, 4))]
        out.append(enc_case(rng.choice([0, 0, 20, 40, 64, 100, 1000]), rng.choice([0, 1]), ops))
    return out


def enc5_publish(rng, n):
    out = []
    ping = op_packet({"t": T_PINGREQ})
    for _ in range(n):
        p = gen_publish(rng, big=rng.random() < 0.03)
        ps = p["payload_size"]
        payload = rbin(rng, n=ps)
        pm = rng.choice([0, 0, 0, 0] + PEER_SAMPLES + list(range(1, 65)))
        npi = rng.choice([0, 0, 1])
        # full inline payload, then another packet
        out.append(enc_case(pm, npi, [op_publish(p, payload), ping]))
        # no inline payload, exact chunks
        k = rng.randint(0, ps)
        out.append(enc_case(pm, npi, [op_publish(p, None), op_chunk(payload[:k]), op_chunk(payload[k:]), ping]))
        # partial inline payload + exact rest
        out.append(enc_case(pm, npi, [op_publish(p, payload[:k]), op_chunk(payload[k:]), ping, op_chunk(b"x")]))
        # chunk too long
        out.append(enc_case(pm, npi, [op_publish(p, payload[:k]), op_chunk(payload[k:] + b"z"), op_chunk(payload[k:]), ping]))
        # short chunk then another packet (ExpectPayload), then the rest
        if ps - k >= 1:
            out.append(enc_case(pm, npi, [op_publish(p, payload[:k]), op_chunk(payload[k:ps - 1]), ping,
                                          op_packet(gen_ack(rng, T_PUBACK)), op_chunk(payload[ps - 1:]), ping]))
            # a second publish while the first is incomplete
            out.append(enc_case(pm, npi, [op_publish(p, payload[:k]), op_publish(p, payload), ping]))
        # chunk without publish, empty chunk
        out.append(enc_case(pm, npi, [op_chunk(b"abc"), op_chunk(b""), op_publish(p, None), op_chunk(b""), ping]))
        # inline buffer longer than payload_size
        out.append(enc_case(pm, npi, [ping, op_publish(p, payload + b"!"), ping]))
    # invalid values
    for _ in range(n):
        p = gen_publish(rng)
        k = rng.randint(0, 5)
        if k == 0:
            p["qos"], p["pid"] = 0, rnz16(rng)                       # QoS0 with packet id
        elif k == 1:
            p["qos"], p["pid"] = rng.choice([1, 2]), None            # QoS>0 without
        elif k == 2:
            p["topic"] = rstr(rng, n=rng.choice([65536, 65537, 70000]))
        elif k == 3:
            p[rng.choice(["corr", "ctype", "resp_topic"])] = rstr(rng, n=rng.choice([65536, 66000]))
        elif k == 4:
            p["ups"] = p["ups"] + [(rstr(rng, n=rng.choice([3, 65536])), rstr(rng, n=65536))]
        else:
            p["sub_ids"] = p["sub_ids"] + [rng.choice([2 ** 28, 2 ** 28 + 1, 2 ** 32 - 1])]
        payload = rbin(rng, n=p["payload_size"])
        pre = op_packet(gen_ack(rng, T_PUBACK))
        out.append(enc_case(rng.choice([0, 0, 100000]), rng.choice([0, 1]), [pre, op_publish(p, payload), pre]))
    # payload sizes at the limits of the representation
    for _ in range(n):
        p = gen_publish(rng)
        p["payload_size"] = rng.choice([2 ** 28 - 1, 2 ** 28 - 20, 2 ** 28 - 5 - len(p["topic"]), 2 ** 28, 2 ** 28 + 7,
                                        2 ** 31, 2 ** 32 - 1, 2 ** 32 - 2 - len(p["topic"]), 2 ** 32 - 3 - len(p["topic"]),
                                        2 ** 32 - 4 - len(p["topic"]), 2 ** 32 - 5 - len(p["topic"]), 2 ** 32 - 40,
                                        rng.randint(2 ** 28 - 200, 2 ** 28 + 10), rng.randint(2 ** 32 - 300, 2 ** 32 - 1)])
        out.append(enc_case(rng.choice([0, 0, 2 ** 28 + 5, 2 ** 32 - 1, 100]), 0,
                            [op_publish(p, None), op_chunk(b"abc"), op_packet({"t": T_PINGREQ})]))
    return out


def enc5_invalid(rng, n):
    out = []
    pre = op_packet(gen_ack(rng, T_PUBREL))
    for _ in range(n):
        t = rng.choice([T_CONNECT, T_CONNACK, T_SUBSCRIBE, T_UNSUBSCRIBE, T_SUBACK, T_UNSUBACK, T_DISCONNECT, T_AUTH,
                        T_PUBACK, T_PUBCOMP])
        p = gen_packet(rng, t)
        L = rng.choice([65536, 65537, 66000])
        if t == T_CONNECT:
            k = rng.choice(["client_id", "username", "password", "auth_method", "auth_data", "will", "ups"])
            if k == "will":
                p["will"] = gen_will(rng)
                p["will"][rng.choice(["topic", "message", "corr", "ctype", "resp_topic"])] = rstr(rng, n=L)
            elif k == "ups":
                p["ups"] = p["ups"] + [(rstr(rng, n=L), b"v")]
            else:
                p[k] = rstr(rng, n=L)
        elif t == T_CONNACK:
            p[rng.choice(["assigned_client_id", "response_info", "server_reference", "auth_method", "auth_data",
                          "reason_string"])] = rstr(rng, n=L)
        elif t == T_SUBSCRIBE:
            if rng.random() < 0.5:
                p["id"] = rng.choice([2 ** 28, 2 ** 28 + 1, 2 ** 31, 2 ** 32 - 1])
            else:
                p["filters"] = p["filters"] + [(rstr(rng, n=L), gen_subopts(rng))]
        elif t == T_UNSUBSCRIBE:
            p["filters"] = p["filters"] + [rstr(rng, n=L)]
        elif t in (T_DISCONNECT,):
            p[rng.choice(["server_reference", "reason_string"])] = rstr(rng, n=L)
        elif t == T_AUTH:
            p[rng.choice(["auth_method", "auth_data", "reason_string"])] = rstr(rng, n=L)
        else:
            if rng.random() < 0.5:
                p["reason_string"] = rstr(rng, n=L)
            else:
                p["ups"] = p["ups"] + [(b"k", rstr(rng, n=L))]
        out.append(enc_case(rng.choice([0, 0, 70000, 200000]), rng.choice([0, 0, 1]), [pre, op_packet(p), pre]))
    # undecodable dumps (both sides must answer 97)
    out.append(enc_case(0, 0, [[1, 4, 0, 0, 0, 0]]))          # packet id 0
    out.append(enc_case(0, 0, [[1, 4, 1, 1, 0, 0]]))          # unknown reason code
    out.append(enc_case(0, 0, [[1, 3]]))
    out.append(enc_case(0, 0, [[1, 14, 0, 0, 0, 1, 1, 255, 0]]))   # invalid UTF-8
    out.append(enc_case(0, 0, [[1, 12, 0]]))                  # trailing number
    out.append(enc_case(0, 0, [[4]]))
    return out


# ---- (d) sniff
def wire_connect3(rng):
    """MQTT 3.1.1 CONNECT (spec 3.1)"""
    w = W()
    flags = 0
    user, pwd, will = rng.random() < 0.5, rng.random() < 0.3, rng.random() < 0.3
    flags |= (0x80 if user else 0) | (0x40 if pwd else 0) | (0x02 if rng.random() < 0.5 else 0)
    if will:
        flags |= 0x04 | (rng.randint(0, 2) << 3) | (0x20 if rng.random() < 0.5 else 0)
    w.lstr(b"MQTT").u8(4).u8(flags).u16(ru16(rng)).lstr(rstr(rng))
    if will:
        w.lstr(rstr(rng)).lstr(rbin(rng))
    if user:
        w.lstr(rstr(rng))
    if pwd:
        w.lstr(rbin(rng))
    return frame(0x10, w)[0]


def sniff_cases(rng, n):
    out = []

    def add(b):
        out.append(nums(b))

    bases = []
    for _ in range(n):
        bases.append(wire_connect3(rng))
        bases.append(wire(gen_connect(rng), rng)[0])
    # non-minimal remaining-length var-ints of 2..4 bytes (accepted by decode_variable_length)
    for fr in list(bases[:n]):
        if fr[1] < 128:
            for pad in (b"\x00", b"\x80\x00", b"\x80\x80\x00"):
                bases.append(bytes([0x10, fr[1] | 128]) + pad + fr[2:])
    for fr in bases:
        for k in range(0, min(len(fr), 16) + 1):
            add(fr[:k])
        add(fr)
    for fr in bases[:max(4, n // 2)]:
        i = 1
        while fr[i] >= 128:
            i += 1
        i += 1   # start of the variable header
        for name in (b"MQTS", b"mqtt", b"MQIs", b"\x00\x00\x00\x00", b"MQT\x00"):
            add(fr[:i + 2] + name + fr[i + 6:])
        for l16 in (0, 3, 5, 6, 1024, 65535):
            add(fr[:i] + struct.pack(">H", l16) + fr[i + 2:])
        for lvl in (0, 1, 2, 3, 6, 7, 255):
            add(fr[:i + 6] + bytes([lvl]) + fr[i + 7:])
        for fb in (0x00, 0x11, 0x12, 0x18, 0x20, 0x30, 0xe0, 0xf0, 0xff):
            add(bytes([fb]) + fr[1:])
            add(bytes([fb]) + fr[1:3])
    for fb in (0x10, 0x20, 0x00):
        for tail in (b"\x80", b"\x80\x80", b"\x80\x80\x80", b"\x80\x80\x80\x80", b"\xff\xff\xff\xff", b"\xff\xff\xff\x7f",
                     b"\x80\x80\x80\x80\x00", b"\xff\xff\xff\xff\xff\xff"):
            for extra in (b"", b"\x00\x04MQTT\x05", b"\x00\x04MQTT\x04\x00", b"\x00\x04MQT"):
                add(bytes([fb]) + tail + extra)
    for a in range(256):
        add(bytes([a]))
        add(bytes([a, 0]))
        add(bytes([0x10, a]))
        add(bytes([0x10, a]) + b"\x00\x04MQTT\x05")
        add(bytes([0x10, 0x07, 0x00, 0x04]) + b"MQTT" + bytes([a]))
        add(bytes([a, 0x07, 0x00, 0x04]) + b"MQTT\x04")
    add(b"")
    return out


# ---- conformance self-check: what a spec-conformant decoder must answer for the valid frames
def selfcheck(rng, n):
    """(cases, expected observations) for single valid frames delivered at once"""
    cases, exp = [], []
    packets = all_reason_code_packets(rng)
    for t in KINDS:
        for _ in range(n):
            packets.append(gen_packet(rng, t, big=rng.random() < 0.03))
    for p in packets:
        if p["t"] == T_PUBLISH:
            payload = rbin(rng, n=p["payload_size"])
            fr, _ = wire(p, rng, payload=payload)
            item = [2, rl_of(fr)] + dump_publish(p) + d_bytes(payload)
            npi = 0
        else:
            fr, _ = wire(p, rng)
            item = [1, rl_of(fr)] + dump_packet(p)
            npi = 1 if (p["t"] == T_CONNECT and not p["req_problem"]) else 0
        cases.append(dec_case(fr))
        exp.append(nums(item) + ";5,0,0,%d" % npi)
    return cases, exp


# ------------------------------------------------------------------ suites
def suite_dec5(rng, n=40):
    return dec5_valid(rng, n * 10) + all_short() + dec5_hostile(rng, n)


def suite_enc5(rng, n=40):
    return (enc5_limits(rng, max(n // 2, 2)) + enc5_valid(rng, n * 8) + enc5_publish(rng, n * 12)
            + enc5_invalid(rng, n * 3) + enc5_caps(rng, max(n // 8, 2)))


def suite_sniff(rng, n=40):
    return sniff_cases(rng, n * 3)


if __name__ == "__main__":
    import random
    import sys
    r = random.Random(int(sys.argv[2]) if len(sys.argv) > 2 else 1)
    for line in {"dec5": suite_dec5, "enc5": suite_enc5, "sniff": suite_sniff}[sys.argv[1]](r, int(sys.argv[3]) if len(sys.argv) > 3 else 4):
        print(line)
