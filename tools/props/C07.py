"""C07 -- however a connection ends, it is torn down completely and exactly once (io.rs life cycle)."""
import gen_iostate as G
from props import sink_common as SC
from props.base import Part

PROPS_FILES = ["C07", "C07pl", "C07stop"]
RULE = ("scenarios for the real io::Dispatcher (engine iostate): peer writes (complete frames, undecodable bytes), "
        "gated handler completions with every result code, peer close / read error, local close / terminate, "
        "control-call completion, service readiness changes, timer expiry, control readiness error, gated "
        "service shutdown; exhaustive up to the stated lengths over the stated alphabets plus random sequences "
        "of 7..30 operations; non-trivial = the connection ended (a Stop was delivered) in the case")
ASSUMPTIONS = [
    "the real io::Dispatcher is driven through the cfg(ntex_mqtt_verif) hook with a fixed-length frame codec over "
    "ntex_io::testing::IoTest; 40 scheduler yields are taken as quiescence",
    "one event of Model/IoState.v = the answers of ONE iteration of the loop in Dispatcher::poll; the environment "
    "(Model/IoEnv.v: read buffer, io open/closed, handler gates, response queue, stopping condition) is a model "
    "of the harness, validated only through the differential run",
    "bytes AND a close piling up while the io read task is paused (service not ready) are not generated: what "
    "ntex-io's in-memory transport does with them is not modelled",
    "while write back-pressure may be on (a 1100-byte response was produced for a peer that accepts nothing) "
    "undecodable frames and failing handlers are not generated until the peer accepts bytes again: the order in "
    "which the dispatcher reports two causes that pile up during Backpressure is not modelled",
    "write back-pressure is produced with 1100-byte responses against a 1024-byte write-buffer watermark and a peer "
    "that accepts either nothing or everything",
]
PARTIAL = [
    "actual cancellation of handler tasks, completion of the io shutdown and absence of hangs inside ntex "
    "(ntex-io, ntex-service, ntex-util Condition) are observed by the harness only; the theorems are about the "
    "dispatcher's state machine (Model/IoState.v)",
    "`every pending send or readiness future resolves with a disconnected error` is checked on the real sinks "
    "(engines sink3/sink5, closing schedules) against Model/Sink.v and by the peer's-view clause 71; the sink-level "
    "theorems are those of Props/C06.v (C06_mismatch_fails_pending); payload readers: Props/C10pl.v (error observed)",
    "recorded findings: the control service's own readiness failure ends the task without a Stop "
    "(C07_stop_once_refuted, signature control-readiness-error-no-stop); a later handler error overwrites an "
    "earlier one before poll_service reads it (C07_stop_reason_first_refuted, signature handler-error-overwritten)",
    "IO_ERR is read by ShutdownIo but set by no code path of io.rs; the theorems quantify over its value",
]


def nums(f):
    return [int(x) for x in f.split(",")] if f.strip() else []


class IoPart(Part):
    has_oracle = False
    NO_SHRINK_FIELDS = (0,)

    def parse(self, obs):
        out = []
        for st in obs.split(";"):
            f = nums(st)
            n = f[3]
            out.append((f[0], f[1], f[2], f[4:4 + n], f[4 + n:]))
        return out

    def nontrivial(self, case, obs):
        if obs == "9999":
            return True
        return any(10 <= c < 40 for c in self.parse(obs)[-1][3])

    def classify(self, case, obs):
        if obs == "9999":
            return "panic"
        fin, _, _, codes, _ = self.parse(obs)[-1]
        stops = [c for c in codes if 10 <= c < 40]
        return "%s stop=%s" % ({0: "running", 1: "done Ok", 2: "done Err"}.get(fin, fin), stops[0] if stops else "-")

    def py_oracle(self, case, obs):
        try:
            return self._oracle(case, obs)
        except (IndexError, ValueError):
            return "1"     # a malformed (shrunk) case: no verdict

    def _oracle(self, case, obs):
        """facts of the property that can be read off the observation alone:
        1 nothing panics; 2 at most one Stop; 3 a finished connection task got exactly one Stop;
        4 no handler is left once the task finished; 5 the Stop reason class of an unambiguous first cause;
        6 the task completes once Stop was handled and the service shutdown may complete;
        7 handler failures: the reason is the error of the first failing handler"""
        if obs == "9999":
            return "0,1,0"
        fields = case.split(";")
        cfg = nums(fields[0]) + [0] * 8
        ops = [nums(f) or [0] for f in fields[1:]]      # an empty field (shrunk case) does nothing: benign op 0
        steps = self.parse(obs)
        for i, (fin, pending, _tm, codes, _w) in enumerate(steps):
            stops = [c for c in codes if 10 <= c < 40]
            if len(stops) > 1:
                return "0,2,%d" % i
            if fin != 0:
                if len(stops) != 1:
                    return "0,3,%d" % i
                if pending != 0:
                    return "0,4,%d" % i
        # 5: reason of the first cause, when everything before it is benign (frames, successful handlers, gates)
        if cfg[1] in (0, 1):
            for i, op in enumerate(ops):
                benign = ((op[0] == 1 and 255 not in op[1:] and all(b < 200 for b in op[1:])) or
                          (op[0] == 2 and all(r in (0, 1) for r in op[2::2])) or op[0] in (0, 5, 11))
                if benign:
                    continue
                want = None
                if op[0] == 2:
                    # handler failures: the application's / protocol error of the FIRST failing handler
                    errs = [r for r in op[2::2] if r in (2, 3)]
                    stops = [c for c in steps[i][3] if 10 <= c < 40]
                    if errs and stops and stops[0] in (15, 20) and stops[0] != {2: 20, 3: 15}[errs[0]]:
                        return "0,7,%d" % i
                    if errs and not stops:
                        # a handler failed: the connection must end (one Stop) without waiting for another event
                        return "0,8,%d" % i
                    break
                if op in ([3], [6], [7]):
                    want = 30
                elif op == [4]:
                    want = 31
                elif op[0] == 1 and op[1] == 255:
                    want = 11
                elif op[:2] == [8, 1] and len(op) == 2:
                    want = 20
                elif op[:2] == [8, 2] and len(op) == 2:
                    want = 15
                if want is not None:
                    stops = [c for c in steps[i][3] if 10 <= c < 40]
                    if stops != [want]:
                        return "0,5,%d" % i
                break
        # 6: completion
        fin, _, _, codes, _ = steps[-1]
        stopped = any(10 <= c < 40 for c in codes)
        ctl_done = cfg[2] == 1 or any(op[0] == 5 for op in ops)
        sd_done = cfg[3] != 1 or any(op == [11] for op in ops)
        # (a peer that accepts no bytes keeps the graceful io shutdown waiting for ntex-io's disconnect timeout)
        blocked = any(op[:2] == [12, 0] for op in ops)
        if stopped and ctl_done and sd_done and fin == 0 and not blocked:
            return "0,6,%d" % (len(steps) - 1)
        return "1"


import gen_plstop as GPS


class PlStopPart(Part):
    """engines plstop3 / plstop5 (42 / 43): the reader of a streamed PUBLISH payload when the connection ends"""
    has_oracle = False
    project_is_identity = True
    SHRINK_FIELDS_FIRST = True
    SHRINK_FIELDS_ONLY = True
    NO_SHRINK_FIELDS = (0,)

    @staticmethod
    def _parse(case, obs):
        f = case.split(";")
        cfg = [int(x) for x in f[0].split(",")]
        if len(cfg) != 4:
            raise ValueError(case)
        ops = [[int(x) for x in o.split(",")] if o.strip() else [] for o in f[1:]]
        steps = [[int(x) for x in o.split(",")] for o in obs.split(";")]
        if len(steps) != len(ops) or any(len(s) < 4 for s in steps):
            raise ValueError(obs)
        return cfg, ops, steps

    def py_oracle(self, case, obs):
        """read off the observation alone (nothing of the model): 21 the connection task panicked;
        72 the reader finished Ok (status 2) holding fewer bytes than the PUBLISH announced: a truncated payload
        reported as complete;  73 the connection has ended, the reader was polled at least twice after that
        without anything changing, and at the end of the case it is still pending: nothing will ever resolve it;
        74 more than one Stop notification"""
        if obs == "9999":
            return "0,21,0"
        if obs in ("9998", "9997"):
            return "1"
        try:
            cfg, ops, steps = self._parse(case, obs)
        except (ValueError, IndexError):
            return "1"      # a malformed (shrunk) case: no verdict
        declared = min(cfg[2], 1024)
        ended_at = None
        for i, st in enumerate(steps):
            status, held, stops, is_open = st[:4]
            if status == 2 and held < declared:
                return "0,72,%d" % i
            if stops > 1:
                return "0,74,%d" % i
            if ended_at is None and is_open == 0:
                ended_at = i
        if ended_at is not None and steps and steps[-1][0] == 1:
            # trailing polls of the reader after the end that changed nothing
            k = len(steps) - 1
            idle = 0
            while k > ended_at and ops[k] == [7] and steps[k][:2] == steps[k - 1][:2]:
                idle += 1
                k -= 1
            if idle >= 2:
                return "0,73,%d" % (len(steps) - 1)
        return "1"

    def nontrivial(self, case, obs):
        # the connection ended while the reader had not finished, and the reader was polled afterwards
        if obs in ("9999", "9998", "9997"):
            return False
        try:
            _cfg, ops, steps = self._parse(case, obs)
        except (ValueError, IndexError):
            return False
        for i, st in enumerate(steps):
            if st[3] == 0:
                return st[0] < 2 and any(o == [7] for o in ops[i + 1:])
        return False

    def classify(self, case, obs):
        if obs in ("9999", "9998", "9997"):
            return "panic/err"
        last = obs.split(";")[-1].split(",")
        return "%s %s" % ({"0": "reader-not-polled", "1": "reader-pending", "2": "reader-ok", "3": "reader-err"}.get(
            last[0], "other"), "ended" if last[3] == "0" else "open")

    def readable(self, case):
        return {"config(min_chunk,max_payload_buffer,declared,reader_mode)": case.split(";")[0],
                "ops": case.split(";")[1:]}


PLSTOP_RULE = ("one streamed inbound PUBLISH on a real v3 / v5 server: every operation sequence after the header "
               "up to the stated length over {more bytes, readiness fails, peer closes, force_close, poll reader, "
               "handler done} with a payload buffer that is full from the first piece / after one chunk, the same "
               "with a roomy buffer and PINGREQ, whole sequences incl. sink.close(), plus random sequences to 20 "
               "operations and random 'payload partly received, optionally readiness fails, the connection ends, "
               "the reader is polled to the end' schedules; non-trivial = the connection ended before the reader "
               "finished and the reader was polled afterwards")

PLSTOP_CLAUSES = {
    "21": "the connection task panicked",
    "72": "a payload reader finished Ok (Ok(None) / read_all Ok) holding fewer bytes than the PUBLISH announced: "
          "a truncated payload was reported as complete",
    "73": "the connection has ended but the payload reader is still pending after repeated polls: nothing will "
          "ever resolve it",
    "74": "the control service received more than one Stop notification",
}


def plstop_parts(tier, rng):
    out = []
    for name, cases in GPS.all_cases(rng, tier):
        for eng in ("plstop3", "plstop5"):
            out.append(PlStopPart("payload-reader-%s-%s" % (eng[-1], name), eng, cases, shards=16, rule=PLSTOP_RULE))
    return out


def parts(tier, rng):
    out = []
    for name, rule, cases in G.iostate_cases(rng, tier):
        out.append(IoPart(name, "iostate", cases, shards=16, rule=rule))
    # "every pending send or readiness future resolves with a disconnected error": the real v3/v5 sinks, schedules
    # that end the connection (close, force_close, protocol error) with senders parked / just woken / awaiting acks
    for p in SC.make_parts(tier, rng, {7}, closing=True):
        p.name = "sink-" + p.name
        p.rule = ("random sink schedules, optionally an acknowledgement that wakes a parked sender, then close / "
                  "force_close / a mismatching acknowledgement, then poll rounds of every task")
        out.append(p)
    out += plstop_parts(tier, rng)
    return out


def replay_parts(rp):
    if rp.get("engine", "").startswith("plstop"):
        return [PlStopPart("replay", rp["engine"], [rp["case"]], shards=1)]
    if rp.get("engine", "").startswith("sink"):
        return SC.replay_parts(rp, {7})
    return [IoPart("replay", rp.get("engine", "iostate"), [rp["case"]], shards=1)]


def known_signature(part, case, impl_obs, oracle):
    """recorded deviations of the current tree (see known_findings.json); anything else is None"""
    if isinstance(part, (SC.SinkPart, PlStopPart)):
        return None
    f = oracle.split(",")
    if len(f) < 3 or f[0] != "0":
        return None
    ops = [nums(x) or [0] for x in case.split(";")[1:]]
    step = int(f[2])
    if f[1] == "3" and any(op[:2] == [10, 1] for op in ops[:step + 1]):
        # `ready!(control.poll_ready(cx))?`: the control service's own readiness error ends the task at once
        return "control-readiness-error-no-stop"
    if f[1] == "7" and step < len(ops) and ops[step][0] == 2 and \
            len([r for r in ops[step][2::2] if r in (2, 3)]) >= 2:
        # DispatcherState.error is one cell: the LAST handler error stored before poll_service decides
        return "handler-error-overwritten"
    return None


CLAUSES = {
    "1": "the connection task panicked",
    "2": "the control service received more than one Stop notification",
    "3": "the connection task completed without exactly one Stop notification",
    "4": "a handler was still alive after the connection task completed",
    "5": "the Stop reason does not match the cause that ended the connection",
    "7": "several handlers failed: the Stop reason is not the error of the first one",
    "8": "a handler failed but no Stop notification was delivered (the connection stays up until an unrelated "
         "event wakes the dispatcher)",
    "6": "the Stop notification was handled and the service shutdown could complete, but the connection task "
         "did not complete",
}


def clause_text(part, oracle):
    if isinstance(part, PlStopPart):
        f = oracle.split(",")
        return "%s (operation %s)" % (PLSTOP_CLAUSES.get(f[1] if len(f) > 1 else "", "property violated"),
                                      f[2] if len(f) > 2 else "?")
    if isinstance(part, SC.SinkPart):
        return SC.clause_text(part, oracle)
    f = oracle.split(";")[0].split(",")
    return "%s (operation %s)" % (CLAUSES.get(f[1] if len(f) > 1 else "", "property violated"),
                                  f[2] if len(f) > 2 else "?")
