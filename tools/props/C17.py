"""C17 -- inbound property (see properties.jsonl); parts, oracle and clauses in props/inbound_common.py"""
from props import inbound_common as B
from props import C19 as HS

RULE = ("sequences of peer packets (all packet kinds, ids 1..3, QoS 0/1/2, aliases, valid and invalid filters) "
        "interleaved with completions of gated publish handlers (ok / error / negative ack) and of the gated protocol "
        "service, against real v3/v5 servers and clients over the in-memory transport: all sequences up to length 3 "
        "over ~28 packet instances with all completion placements, id histories, alias sequences, receive-maximum "
        "bursts, QoS 2 flows, control-path stress, shutdown sequences, random longer ones; non-trivial = at least "
        "one handler or protocol-service completion in the case")
ASSUMPTIONS = ["handlers and the protocol service are gated by the harness; 40 scheduler rounds are taken as quiescence",
               "streamed payloads, timers and write back-pressure are not part of these cases"]
PARTIAL = ["the theorems are proved for the protocol-decision layer of Model/Inbound.v (and for the full operational "
           "model where stated in Props/C17.v); that the executor really awaits handlers and the absence of hangs are "
           "carried by the correspondence run only"]
USES_GEN = True
WANT = ("C17",)
PROPS_FILES = ["C17", "C17router"]


class AliasLimitAtHandshake(HS.HsPart):
    """where the limit comes from: the Topic Alias Maximum in force after the handshake is the one announced in
    CONNACK (configured value or the application's override, 0 included) -- the handshake engine's cases that send
    a PUBLISH with a topic alias; clauses 8 (announced limits) and 9 (limits in force) of its scan"""

    def py_oracle(self, case, obs):
        v = HS.py_oracle(case, obs)
        return v if v.startswith("0,8") or v.startswith("0,9") else "1"


def parts(tier, rng):
    res = B.make_parts(tier, rng, WANT)
    # frames behind a DISCONNECT in one read, handle_qos_after_disconnect: dropped publishes still (re)bind (burst engines)
    res += [p for p in B.burst_parts(tier, rng, WANT) if p.ver == 5]
    for p in HS.parts(tier, rng):
        if not isinstance(p, HS.HsPart):
            continue
        cases = [c for c in p.cases if any(f.startswith("2,") and ",35," in f for f in c.split(";")[3:])]
        if cases:
            res.append(AliasLimitAtHandshake("alias-limit-at-handshake-" + p.name, "hs", cases, shards=16, rule=p.rule))
    return res


def replay_parts(rp):
    if rp.get("engine") == "hs":
        return [AliasLimitAtHandshake("replay", "hs", [rp["case"]], shards=1)]
    return B.replay_parts(rp, WANT)


def known_signature(part, case, impl_obs, oracle):
    if isinstance(part, HS.HsPart):
        return None
    return B.known_signature(part, case, impl_obs, oracle)


def clause_text(part, oracle):
    if isinstance(part, HS.HsPart):
        return HS.clause_text(part, oracle)
    return B.clause_text(part, oracle)
