"""Part: one stream of cases for one engine, with the property's projection of observations."""


class Part:
    engine = ""
    name = ""
    has_oracle = True
    project_is_identity = True
    vm_slice = 300
    rule = ""

    def __init__(self, name, engine, cases, **kw):
        self.name = name
        self.engine = engine
        self.cases = cases
        for k, v in kw.items():
            setattr(self, k, v)

    def project(self, case, obs):
        return obs

    def nontrivial(self, case, obs):
        return True

    def classify(self, case, obs):
        return "all"

    def readable(self, case):
        return case


def bstr(fields_text):
    """decimal byte list `97,47` -> python str (latin-1 safe display)"""
    if not fields_text.strip():
        return ""
    return bytes(int(x) for x in fields_text.split(",")).decode("utf-8", "replace")
