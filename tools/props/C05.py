"""C05 -- outbound sink property (see properties.jsonl); parts, oracle and clauses in props/sink_common.py"""
from props import sink_common as S
from props import C19 as HS

RULE = ("operation sequences on the real sink of a v3/v5 connection (server and client role): tasks started, polled "
        "by hand, dropped; peer acknowledgements singly or batched, of the right or wrong kind/id; back-pressure "
        "toggles; set_cap; close; QoS 2 release/drop; streamed sends; exhaustive for short lists, random to length "
        "40; non-trivial = at least one acknowledgement processed and one counter non-zero")
ASSUMPTIONS = ["tasks are polled only when the case says so (hand polling); 40 scheduler rounds are taken as quiescence",
               "write back-pressure and set_cap are induced through cfg(ntex_mqtt_verif) hooks on MqttSink"]
PARTIAL = []
USES_GEN = False
WANT = {5}


class WindowAtHandshake(HS.HsPart):
    """where the limit comes from: after the handshake the send window is min(configured or overridden max_send,
    peer Receive Maximum) -- the handshake engine's cases that read sink.credit(), clause 7 of its scan only"""

    def py_oracle(self, case, obs):
        v = HS.py_oracle(case, obs)
        return v if v.startswith("0,7") else "1"


def parts(tier, rng):
    res = S.make_parts(tier, rng, WANT, quiesced=False)
    for p in HS.parts(tier, rng):
        cases = [c for c in p.cases if any(f == "1" for f in c.split(";")[3:])]
        if cases:
            res.append(WindowAtHandshake("window-at-handshake-" + p.name, "hs", cases, shards=16, rule=p.rule))
    return res


def replay_parts(rp):
    if rp.get("engine") == "hs":
        return [WindowAtHandshake("replay", "hs", [rp["case"]], shards=1)]
    return S.replay_parts(rp, WANT)


def known_signature(part, case, impl_obs, oracle):
    if isinstance(part, HS.HsPart):
        return None
    return S.known_signature_c13(part, case, impl_obs, oracle) if 13 in WANT else None


def clause_text(part, oracle):
    if isinstance(part, HS.HsPart):
        return HS.clause_text(part, oracle)
    return S.clause_text(part, oracle)
