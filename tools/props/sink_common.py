"""Shared parts and spec-level oracle for the outbound-sink properties C05, C06, C13, C14
(engines sink3 / sink5, model coq/Model/Sink.v).

The oracle below is an independent "peer's view" tracker: it follows only the case operations and the
implementation's observations (packets seen on the wire, task statuses, counters) and checks what the property
texts demand; it does not look at the model. It is used for the search for a failing input only.
"""
import gen_sink as G
from props.base import Part

# wire tags
PUB1, PUB2, PUB0, PUBREL, SUB, UNSUB, DISC, CHUNK = 1, 2, 3, 4, 5, 6, 7, 8
# ack kinds
PUBACK, PUBREC, PUBCOMP, SUBACK, UNSUBACK = 1, 2, 3, 4, 5

CLAUSES = {
    "1": "panic in the sink",
    "41": "C04: an inbound QoS 1 PUBLISH (operation 17) on a healthy server connection (open before and after, no "
          "streamed payload owed, packet id != 0) was not answered: its PUBACK is missing from the wire",
    "51": "C05: a QoS>0 packet was written although the window was full (outstanding >= cap) or back-pressure was on",
    "53": "C05: client role: the send window after CONNACK is not the limit announced by the server (v5 Receive "
          "Maximum; v3: the configured max_send)",
    "52": "C05: more packets in flight than the send limit (inflight > cap) after a send",
    "61": "C06: a send completed successfully without the matching acknowledgement (type and id) of the oldest "
          "outstanding packet having arrived",
    "62": "C06: an acknowledgement that does not answer the oldest outstanding send did not end the connection",
    "63": "C06/C14: two outstanding exchanges carry the same packet id (an id is owned until its final "
          "acknowledgement: PUBCOMP for QoS 2), or id 0",
    "64": "C06/C14: the peer acknowledged correctly and in order (a PUBREC moves its exchange behind everything sent "
          "before the PUBCOMP is due) but the connection was closed",
    "65": "C06: a mismatching acknowledgement completed a send successfully",
    "66": "C06: a send was refused with PacketIdInUse although no outstanding packet carries that id",
    "71": "C07/C13: the connection has ended and every task was polled again, but a send / readiness future is still "
          "pending (it must resolve with Disconnected)",
    "81": "C08: a packet was written while a streamed PUBLISH payload was still owed (interleaved into the payload)",
    "82": "C06/C08: a send returned PacketIdInUse / an encoder error / StreamingCancelled but its packet was written",
    "131": "C13: at quiescence a task is still parked although the window is open, back-pressure is off and "
           "nothing is outstanding (not one of the recorded findings)",
    "135": "C13: a streamed chunk send started with back-pressure off, on an open connection, after the task's PUBLISH "
           "header was written, is left pending (only write back-pressure may pause the chunks of a message)",
    "132": "C13: a streamed chunk send that was parked on write back-pressure is still pending although back-pressure "
           "has been lifted and the send was polled again",
    "144": "C14: a PUBREL was written by an operation that neither releases nor drops a receipt (it belongs to "
           "another exchange)",
    "141": "C14: releasing / dropping a QoS 2 receipt did not write exactly one PUBREL with its own id",
    "142": "C14: releasing / dropping a receipt changed the state of another task",
    "143": "C14: a released exchange did not complete on its own PUBCOMP / completed without it",
    "151": "C15: the DISCONNECT written after a rule-breaking acknowledgement claims normal disconnection (reason 0)",
}


def parse_obs_field(f):
    v = [int(x) for x in f.split(",")]
    if 255 not in v or len(v) < 9:
        return None
    k = v.index(255)
    head, body, wire = v[:8], v[8:k], v[k + 1:]
    tasks = {}
    for j in range(0, len(body) - 1, 2):
        tasks[body[j]] = body[j + 1]
    pk = [(wire[j], wire[j + 1]) for j in range(0, len(wire) - 1, 2)]
    return head, tasks, pk


def track(ver, case, obs, want):
    """returns a verdict string: "1" or "0,<clause>,<step>"; `want` = set of property numbers to check"""
    if obs == "9999" or obs.startswith("97"):
        return "0,1,0" if obs == "9999" else "1"
    fs = [[int(x) for x in f.split(",")] if f else [] for f in case.split(";")]
    of = obs.split(";")
    cfg = fs[0]
    cap0 = cfg[0] if cfg else 1
    role = cfg[1] if len(cfg) > 1 else 0
    ops = fs[1:]
    if len(of) != len(ops):
        return "1"
    out = []          # outstanding on the wire: [id, expected ack kind, task]
    kind_of = {}      # task -> start kind
    phase = {}        # task -> 'sent' | 'acked' | 'receipt' | 'released' | 'comp'
    id_of = {}        # task -> packet id
    prev_cap, prev_wrb, prev_open = cap0, 0, 1
    prev_streaming = 0
    prev_tasks = {}
    start_id = {}     # task -> explicit packet id of the op that created it (0 = automatic)
    out_at_create = {}  # task created without the first poll (op 16) -> ids outstanding at that moment
    closed_expected = False
    good_peer = True
    peer_early_comp = False
    auto_t = G.auto_of(ops)
    for i, (op, f) in enumerate(zip(ops, of)):
        po = parse_obs_field(f)
        if po is None:
            return "1"
        head, tasks, wire = po
        n_inflight, n_wait, cap, wrb, streaming, credit, is_ready, is_open = head
        if any(st == 9 for st in tasks.values()):
            if any(o[:2] == [12, 65535] for o in ops):
                return "1"                     # hook artefact: the real counter never holds 65535
            return "0,1,%d" % i
        code = op[0] if op else 0
        t = op[1] if len(op) > 1 else None
        if 5 in want and i == 0 and role != 0 and is_open and code != 9 and cap != cap0 % 65536:
            # client role: the window in force after CONNACK is the limit the server announced (v5: its Receive
            # Maximum; v3: the configured max_send) -- the first configuration field of the case
            return "0,53,0"
        if code == 19:
            code = 1                           # a spawned send: started and polled at once
        # who writes a PUBLISH / SUBSCRIBE / UNSUBSCRIBE in this operation: the task the operation names, or -- in an
        # operation that names no task (acknowledgements, back-pressure, set_cap ..) -- the task owned by the executor,
        # which runs whenever such an operation has woken it
        writer = t if code in (1, 2, 6, 7, 13, 16, 18) else auto_t
        if code in (1, 16) and t is not None and t not in kind_of and len(op) > 2 and t in tasks and t not in prev_tasks:
            # the op that created task t (a start / create with a task number in use is a no-op)
            kind_of[t] = op[2]
            start_id[t] = op[3] % 65536 if len(op) > 3 else 0
            if code == 16:
                # kinds 1, 2, 7, 8 check the id in the call; the verdict shows at the first poll
                out_at_create[t] = set(e[0] for e in out)
        # --- acknowledgements from the peer (processed before anything the op writes)
        acks = []
        if code == 4 and len(op) >= 3:
            acks = [(op[1], op[2])]
        elif code == 5:
            acks = [(op[j], op[j + 1]) for j in range(1, len(op) - 1, 2)]
        mismatch_here = False
        for (k, pid) in acks:
            if k == 6:
                k = PUBREC                      # a PUBREC carrying a failure reason code
            if not prev_open or closed_expected:
                continue
            pid %= 65536                       # the harness writes the id as a u16
            if pid == 0:
                good_peer = False              # not a well-formed packet id: the codec rejects it, no
                continue                       # expectation is derived from it
            if role == 0 and k in (SUBACK, UNSUBACK):
                continue                       # a server ignores SUBACK / UNSUBACK
            if out and out[0][0] == pid and out[0][1] == k:
                e = out.pop(0)
                if k == PUBREC:
                    out.append([pid, PUBCOMP, e[2]])
                    phase[e[2]] = "receipt_ready"
                else:
                    if k == PUBCOMP and phase.get(e[2]) != "released":
                        peer_early_comp = True     # PUBCOMP before our PUBREL: the peer misbehaves
                    phase[e[2]] = "acked" if k != PUBCOMP else "comp"
            else:
                mismatch_here = True
                closed_expected = True
                good_peer = False
        # --- packets written in this step (a DISCONNECT entry is (7, reason code); v3 has no reason: 0)
        if 15 in want and ver == 5 and mismatch_here and any(tag == DISC and rc == 0 for (tag, rc) in wire):
            return "0,151,%d" % i
        if 8 in want and prev_streaming and any(tag < 100 and tag != CHUNK and tag != DISC for (tag, _) in wire):
            return "0,81,%d" % i
        # --- an inbound request (operation 17: the peer publishes with QoS 1, the handler answers at once) must be
        # answered whatever the state of the outbound window / back-pressure (entries >= 100 are packets other than
        # the sink's own: 104 = PUBACK; every other clause ignores them)
        if 4 in want and code == 17 and role == 0 and len(op) > 1 and op[1] % 65536 != 0 and prev_open and is_open \
                and not prev_streaming and not streaming:
            if (104, op[1] % 65536) not in wire:
                return "0,41,%d" % i
        for (tag, pid) in wire:
            if tag in (PUB1, PUB2, SUB, UNSUB):
                if 5 in want and not closed_expected:
                    if len(out) >= prev_cap or prev_wrb:
                        # the cap/wrb of the previous observation applies unless this very op changed them
                        if code not in (8, 9):
                            return "0,51,%d" % i
                if (6 in want or 14 in want) and (pid == 0 or any(e[0] == pid for e in out)):
                    return "0,63,%d" % i
                exp = {PUB1: PUBACK, PUB2: PUBREC, SUB: SUBACK, UNSUB: UNSUBACK}[tag]
                out.append([pid, exp, writer])
                if writer is not None:
                    id_of[writer] = pid
                    phase[writer] = "sent"
            elif tag == PUBREL:
                if 14 in want and not peer_early_comp and code in (6, 7):
                    if id_of.get(t) != pid:
                        return "0,141,%d" % i
                if 14 in want and code not in (6, 7):
                    # a PUBREL leaves only when a receipt is released or dropped: no other operation (a refused or
                    # cancelled send, an acknowledgement, a close) writes one
                    return "0,144,%d" % i
        if (14 in want or 6 in want) and not peer_early_comp and code in (6, 7) and t in id_of \
                and phase.get(t) in ("receipt_ready", "receipt") and prev_open and not closed_expected and not streaming and prev_tasks.get(t) == 2:
            n_rel = sum(1 for (tag, pid) in wire if tag == PUBREL)
            if n_rel != 1:
                return "0,141,%d" % i
            phase[t] = "released"
            for u, st in tasks.items():
                if u != t and u < 100 and prev_tasks.get(u, st) != st:
                    return "0,142,%d" % i
        # --- a send that returns an error must not have written anything (C08: "a failed send leaves no bytes")
        if (8 in want or 6 in want) and code in (1, 2) and t is not None and tasks.get(t) in (4, 5, 7) and prev_tasks.get(t) in (None, 0, 1) \
                and any(tag in (PUB1, PUB2, PUB0, SUB, UNSUB) for (tag, _) in wire):
            return "0,82,%d" % i
        # --- status transitions
        for u, st in tasks.items():
            if u >= 100:
                continue
            was = prev_tasks.get(u)
            if st == 2 and was != 2:
                k = kind_of.get(u)
                if 6 in want and k in (1, 3, 4, 7, 8):
                    if phase.get(u) != "acked":
                        return "0,61,%d" % i
                if 6 in want and k == 2:
                    if phase.get(u) not in ("receipt_ready", "comp"):
                        return "0,61,%d" % i
                    if phase.get(u) == "receipt_ready":
                        phase[u] = "receipt"
                if mismatch_here and 6 in want and k in (1, 2, 3, 4, 7, 8) and u != auto_t:
                    # (the task owned by the executor may complete in the very operation whose first, matching
                    # acknowledgement was its own; clause 61 above has checked that)
                    return "0,65,%d" % i
        if 6 in want and code in (1, 2) and t is not None and tasks.get(t) == 4 and prev_tasks.get(t) in (None, 1) \
                and start_id.get(t) and prev_open and is_open and not closed_expected and good_peer:
            # refused with PacketIdInUse in the op that started / polled it: some outstanding packet (the peer's
            # view) must carry the explicit id -- now, or when the future was created (op 16)
            if not any(e[0] == start_id[t] for e in out) and start_id[t] not in out_at_create.get(t, ()):
                return "0,66,%d" % i
        if 6 in want or 14 in want:
            if 6 in want and closed_expected and is_open and code not in ():
                # the connection must be closed once the mismatching ack has been processed
                if mismatch_here:
                    return "0,62,%d" % i
            if good_peer and prev_open and not is_open and code not in (10, 11, 14, 13, 15, 18) and not mismatch_here:
                # closed although the peer behaved (local close ops and stream aborts excluded)
                if not any(o and o[0] in (10, 11, 13, 14, 15, 18) for o in ops[:i + 1]):
                    return "0,64,%d" % i
        if 5 in want and is_open and n_inflight > cap and code != 9 \
                and any(tag in (PUB1, PUB2, SUB, UNSUB) for (tag, _) in wire):
            return "0,52,%d" % i
        prev_cap, prev_wrb, prev_open, prev_tasks = cap, wrb, is_open, tasks
        prev_streaming = streaming
    if 13 in want:
        # streamed sends paused by back-pressure resume when it lifts: a chunk send of task t that was parked
        # before back-pressure was lifted (8,0), stayed pending throughout and is polled again afterwards (13,t)
        # must complete
        heads = []
        for f in of:
            po = parse_obs_field(f)
            heads.append(po)
        for j in range(len(ops) - 1, 0, -1):
            op = ops[j]
            if not op or op[0] != 13 or len(op) < 2 or heads[j] is None:
                continue
            key = 100 + op[1]
            if heads[j][1].get(key) != 1 or heads[j][0][3] or not heads[j][0][7]:
                continue                      # completed, or back-pressure on again, or closed
            i = j - 1
            lifted = None
            while i >= 0 and heads[i] is not None and heads[i][1].get(key) == 1:
                if ops[i] and ops[i][0] == 13 and len(ops[i]) > 1 and ops[i][1] == op[1] and i != j \
                        and (i == 0 or heads[i - 1] is None or heads[i - 1][1].get(key) != 1):
                    break                     # the op that started this very send
                # (the PUBLISH of the stream must have been written: the sink is in streaming state; a chunk
                # send also waits while its PUBLISH is still parked on the window)
                if ops[i][:2] == [8, 0] and i >= 1 and heads[i - 1] is not None and heads[i - 1][1].get(key) == 1 \
                        and heads[i - 1][0][3] and heads[i - 1][0][4] and heads[j][0][4] \
                        and any(ops[k] and ops[k][0] in (1, 2) and len(ops[k]) > 1 and ops[k][1] == op[1]
                                and heads[k] is not None and any(tag in (PUB1, PUB2) for (tag, _) in heads[k][2])
                                for k in range(i)):
                    lifted = i
                i -= 1
            if lifted is not None:
                return "0,132,%d" % j
        # a chunk send STARTED (not pending before the operation) while back-pressure is off before and after the
        # operation, on an open connection, after the task's own PUBLISH header has been written, has nothing to
        # wait for: the send window concerns whole messages, not the chunks of a message that is already on the wire
        for j in range(1, len(ops)):
            op = ops[j]
            if not op or op[0] != 13 or len(op) < 2 or heads[j] is None or heads[j - 1] is None:
                continue
            key = 100 + op[1]
            if heads[j][1].get(key) != 1 or heads[j - 1][1].get(key) == 1:
                continue
            if heads[j][0][3] or heads[j - 1][0][3] or not heads[j][0][7] or not heads[j - 1][0][7]:
                continue
            if any(ops[k] and ops[k][0] in (1, 2) and len(ops[k]) > 1 and ops[k][1] == op[1]
                   and heads[k] is not None and any(tag in (PUB1, PUB2) for (tag, _) in heads[k][2])
                   for k in range(j)):
                return "0,135,%d" % j
    if (7 in want or 13 in want) and not prev_open:
        polled, pend = G.idle_suffix(case, obs)
        if pend and set(pend) <= polled:
            return "0,71,%d" % (len(ops) - 1)
    if 13 in want:
        sr = G.stuck_report(ver, case, obs)
        if sr is not None:
            why, task = sr
            if why == "UNEXPLAINED":
                return "0,131,%d" % (len(ops) - 1)
            return "0,130,%s" % why            # a recorded finding (classified by replaying the schedule)
    return "1"


class SinkPart(Part):
    SHRINK_FIELDS_FIRST = True
    SHRINK_FIELDS_ONLY = True
    NO_SHRINK_FIELDS = (0,)
    project_is_identity = True
    vm_slice = 120
    ver = 3
    want = frozenset()

    def py_oracle(self, case, obs):
        return track(self.ver, case, obs, self.want)

    def nontrivial(self, case, obs):
        # at least one acknowledgement processed and one task parked at some point
        return (";4," in case or ";5," in case) and any(
            f.split(",")[1] != "0" for f in obs.split(";") if f.count(",") > 2)

    def classify(self, case, obs):
        if obs == "9999":
            return "panic"
        last = obs.split(";")[-1].split(",")
        return "open" if len(last) > 7 and last[7] == "1" else "closed"

    def readable(self, case):
        return {"config(cap,role)": case.split(";")[0], "ops": case.split(";")[1:]}


def make_parts(tier, rng, want, quiesced=False, closing=False):
    """sink3 + sink5, roles server (0) and client (1)"""
    parts = []
    big = tier == "thorough"
    for ver in (3, 5):
        for role in (0, 1):
            cases = G.gen_all(rng, ver, role, exh_len=5 if not big else 6, exh_limit=4000 if not big else None,
                              n_random=1500 if not big else 20000, n_qos2=300 if not big else 3000)
            # futures created before any of them is polled (operation 16)
            cases += G.gen_create(rng, ver, role, exh_len=4 if not big else 5, n_random=500 if not big else 8000,
                                  exh_limit=1500 if not big else None)
            if quiesced:
                cases += G.quiesced_cases(rng, ver, role, count=800 if not big else 10000)
            if closing:
                cases = G.closing_cases(rng, ver, role, count=1500 if not big else 20000)
            p = SinkPart("v%d-role%d" % (ver, role), "sink%d" % ver, cases, shards=16,
                         rule="seed schedules + exhaustive short op lists + QoS2 orderings + random op lists to "
                              "length 40" + (" + schedules driven to quiescence" if quiesced else ""),
                         has_oracle=False)
            p.ver = ver
            p.want = frozenset(want)
            parts.append(p)
    return parts


def replay_parts(rp, want):
    p = SinkPart("replay", rp["engine"], [rp["case"]], shards=1, has_oracle=False)
    p.ver = 5 if rp["engine"].endswith("5") else 3
    p.want = frozenset(want)
    return [p]


KNOWN_C13 = {"Q": "woken-waiter-dropped", "Q2": "ready-absorbs-wake", "Qerr": "woken-waiter-fails"}


def known_signature_c13(part, case, impl_obs, oracle):
    f = oracle.split(",")
    if len(f) >= 3 and f[0] == "0" and f[1] == "130":
        names = [KNOWN_C13.get(x, x) for x in f[2].split("+")]
        return "+".join(names)
    return None


def clause_text(part, oracle):
    f = oracle.split(",")
    return CLAUSES.get(f[1] if len(f) > 1 else "", "oracle verdict " + oracle) + (
        " (operation index %s)" % f[2] if len(f) > 2 else "")
