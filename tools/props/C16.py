"""C16 -- inbound property (see properties.jsonl); parts, oracle and clauses in props/inbound_common.py"""
from props import inbound_common as B
from props import sink_common as SC

RULE = ("sequences of peer packets (all packet kinds, ids 1..3, QoS 0/1/2, aliases, valid and invalid filters) "
        "interleaved with completions of gated publish handlers (ok / error / negative ack) and of the gated protocol "
        "service, against real v3/v5 servers and clients over the in-memory transport: all sequences up to length 3 "
        "over ~28 packet instances with all completion placements, id histories, alias sequences, receive-maximum "
        "bursts, QoS 2 flows, control-path stress, shutdown sequences, random longer ones; non-trivial = at least "
        "one handler or protocol-service completion in the case")
ASSUMPTIONS = ["handlers and the protocol service are gated by the harness; 40 scheduler rounds are taken as quiescence",
               "streamed payloads, timers and write back-pressure are not part of these cases"]
PARTIAL = ["the theorems are proved for the protocol-decision layer of Model/Inbound.v (and for the full operational "
           "model where stated in Props/C16.v); that the executor really awaits handlers and the absence of hangs are "
           "carried by the correspondence run only"]
USES_GEN = True
WANT = ("C16",)


from props import C12 as _LIM


class StallPart(_LIM.LimPart):
    """the limiter runs of C12 read for C16: only a reader that is never woken again (clause 4) or a panic (6)"""

    def batch_oracle(self, cases, impl, res):
        return [r if r.startswith("1") or r.split(";")[0].split(",")[1:2] in (["4"], ["6"]) else "1" for r in res]


def parts(tier, rng):
    out = B.make_parts(tier, rng, WANT)
    # a busy endpoint: outbound requests outstanding (sink engines) while the peer sends acknowledgements of every
    # type with matching, stale and foreign ids -- nothing may panic
    for p in SC.make_parts(tier, rng, {16}):
        p.name = "busy-sink-" + p.name
        out.append(p)
    # packets arriving in one read (burst engines): nothing may panic
    out += B.burst_parts(tier, rng, WANT)
    # "nor stops making progress": the in-flight limiter in front of every server connection must wake the paused
    # reader when a completion brings the running calls back under the limits (a lost wake-up = the peer's later
    # packets are never read); limiter engine, clauses 4 (not woken) and 6 (panic) of its oracle only
    from props import C12 as LIM0
    import gen_limiter as GL
    for name, cases in GL.all_cases(rng, "quick" if tier == "quick" else "full"):
        out.append(StallPart("limiter-" + name, "limiter", cases, shards=16, rule=name, vm_slice=100))
    # "nor stops making progress": a streamed PUBLISH must be flagged for the in-flight limiter whatever piece of
    # its payload came with the header, otherwise its chunks wait for the slot its own handler holds
    import gen_codec3 as G3
    import gen_codec5 as G5
    from props import C12 as LIM
    n3 = 40 if tier == "quick" else 400
    out.append(LIM.SizedPart("limiter-view-v3", "sized3", G3.gen_dec_valid(rng, n3) + G3.gen_dec_payload(rng, n3),
                             rule="valid v3 streams x cut sets x min_chunk: SizedRequest of every decoded item"))
    out.append(LIM.SizedPart("limiter-view-v5", "sized5", G5.dec5_valid(rng, n3 * 4),
                             rule="valid v5 streams x cut sets x min_chunk: SizedRequest of every decoded item"))
    return out


def replay_parts(rp):
    if rp.get("engine") == "limiter":
        return [StallPart("replay", "limiter", [rp["case"]], shards=1)]
    if rp.get("engine", "").startswith("sized"):
        from props import C12 as LIM
        return [LIM.SizedPart("replay", rp["engine"], [rp["case"]], shards=1)]
    if rp.get("engine", "").startswith("sink"):
        return SC.replay_parts(rp, {16})
    return B.replay_parts(rp, WANT)


def known_signature(part, case, impl_obs, oracle):
    if isinstance(part, SC.SinkPart) or part.engine.startswith("sized") or part.engine == "limiter":
        return None
    return B.known_signature(part, case, impl_obs, oracle)


def clause_text(part, oracle):
    if part.engine.startswith("sized") or part.engine == "limiter":
        from props import C12 as LIM
        return LIM.clause_text(part, oracle)
    if isinstance(part, SC.SinkPart):
        return SC.clause_text(part, oracle)
    return B.clause_text(part, oracle)
