"""C20 -- idle and too-slow peers are timed out, live peers are not (io.rs timers, Handshake::ack, connect
timeout, client keep-alive loop)."""
import gen_iostate as G
from props import C19 as HS
from props.base import Part

PROPS_FILES = ["C20", "C20cli"]

RULE = ("(a) engine iostate, timer parts: deterministic scenarios with partial frames, header bytes, injected timer "
        "expiry (IoRef::notify_timeout), service not-ready, keep-alive and frame-read-rate configured: exhaustive "
        "up to the stated length plus random; (b) engine timerrt: REAL-TIME scenarios on a 1 s grid (the real "
        "ntex-io timer wheel and clock, keep-alive 1..4 s, frame-read-rate 1..2 s) on the bare dispatcher and on "
        "real v3/v5 MqttServer and client endpoints: steady traffic, traffic that stops, partial frames "
        "trickling, CONNECT in time / late / never, client PINGREQ cadence with the client's own keep-alive and with "
        "a Server Keep Alive in CONNACK (client asked for none / less / more); non-trivial = a timeout ended the "
        "connection or a timer was re-armed by traffic")
ASSUMPTIONS = [
    "ntex-io's timer wheel and the wall clock are assumed, not modelled: ONE restartable timer slot per "
    "connection (start_timer replaces, except that a pending timer due at the requested second or the next one "
    "is kept; stop_timer cancels), 1 s granularity, expiry delivered as RecvError::KeepAlive / "
    "IoStatusUpdate::KeepAlive; the real-time scenarios start half a second out of phase with the wheel so "
    "that every expiry falls between two operations",
    "one Tick of Model/Timer.v = one second; the theorems are about event sequences, not about real time",
    "timeout_checked (connect timeout) and sleep (client keep-alive loop) of ntex-util are assumed exact to "
    "well under a second",
    "the deterministic scenarios inject expiry with IoRef::notify_timeout (what the wheel calls)",
]
PARTIAL = [
    "the timer wheel and the wall clock are assumed (see assumptions); the differential run in real time covers "
    "horizons of 4..5 s only",
    "the connect-timeout and client keep-alive-loop models (Timer.connect_phase, Timer.k_step) are small "
    "stand-alone models validated by the real-time scenarios only",
    "recorded finding stale-timer-while-not-ready (read-rate rule on): a frame-read timer that expires while "
    "the request service is not ready is reported as KeepAliveTimeout (C20_live_refuted_not_ready, "
    "C20_ka_zero_disables_refuted); with the read-rate rule off C20_live_default_config covers not-ready episodes",
    "the two sequences that made `read_remains - read_remains_prev` underflow before 4dba145 are kept as "
    "regression scenarios (iostate fixed part, timerrt 0x82/0x05 scenarios) and as C20_former_underflow_sequences",
]


def nums(f):
    return [int(x) for x in f.split(",")] if f.strip() else []


class TimerDetPart(Part):
    """deterministic timer scenarios of engine iostate: the oracle only knows that nothing may panic"""
    has_oracle = False
    NO_SHRINK_FIELDS = (0,)

    def nontrivial(self, case, obs):
        return obs == "9999" or any(c in obs.split(";")[-1].split(",")[4:] for c in ("14", "15"))

    def classify(self, case, obs):
        if obs == "9999":
            return "panic"
        f = nums(obs.split(";")[-1])
        stops = [c for c in f[4:4 + f[3]] if 10 <= c < 40]
        return "stop=%s" % (stops[0] if stops else "-")

    def py_oracle(self, case, obs):
        try:
            return self._oracle(case, obs)
        except (IndexError, ValueError):
            return "1"     # a malformed (shrunk) case: no verdict

    def _oracle(self, case, obs):
        return "0,1,0" if obs == "9999" else "1"


def frames_hook(flen, writes):
    """seconds at which complete frames are decoded, whether a partial frame is left, time of the last byte"""
    buf = []
    hdr = None
    times = []
    last_byte = None
    for t, bs in writes:
        buf += bs
        last_byte = t
        while True:
            if flen == 200:
                if hdr is None:
                    if len(buf) < 2:
                        break
                    hdr = buf[1]
                    buf = buf[2:]
                if len(buf) < hdr:
                    break
                buf = buf[hdr:]
                hdr = None
                times.append(t)
            else:
                if len(buf) < flen:
                    break
                buf = buf[flen:]
                times.append(t)
    return times, (len(buf) > 0 or hdr is not None), last_byte


class RtPart(Part):
    has_oracle = False
    NO_SHRINK_FIELDS = (0,)
    project_is_identity = True

    def nontrivial(self, case, obs):
        return obs == "9999" or any(x in obs for x in (",14", ",15", "224", "192", "208"))

    def classify(self, case, obs):
        cfg = nums(case.split(";")[0]) + [0] * 10
        kind = cfg[8]
        if obs == "9999":
            return "kind %d panic" % kind
        last = nums(obs.split(";")[-1])
        if kind == 0:
            stops = [c for c in last[3:3 + last[2]] if 10 <= c < 40]
            return "dispatcher stop=%s" % (stops[0] if stops else "-")
        return "kind %d closed=%d%s" % (kind, last[0], " disconnect=%d" % last[last.index(224) + 1] if 224 in last[1:] else "")

    def py_oracle(self, case, obs):
        try:
            return self._oracle(case, obs)
        except (IndexError, ValueError):
            return "1"     # a malformed (shrunk) case: no verdict

    def _oracle(self, case, obs):
        """1 nothing panics; 2 a connection delivering complete frames more often than the keep-alive period is
        not ended by the keep-alive timer; 3 a connection idle for the keep-alive period is ended with a
        keep-alive timeout (v5: DISCONNECT 0x8D); 4 a frame that makes no progress for two read periods is ended;
        5 no CONNECT within the connect timeout: dropped, CONNECT in time: accepted; 6 the client writes a
        PINGREQ at least once per keep-alive period"""
        if obs == "9999":
            return "0,1,0"
        fields = case.split(";")
        cfg = nums(fields[0]) + [0] * 10
        ops = [o for o in (nums(f) for f in fields[1:]) if o]
        steps = [nums(s) for s in obs.split(";")]
        ka, flen, rr_t, horizon, kind, ct = cfg[0], max(cfg[1], 1), cfg[4], cfg[7], cfg[8], cfg[9]
        if kind == 0:
            if any(op[1] not in (1, 8) for op in ops):
                return "1"      # closes etc.: covered by the differential run only
            paused = any(op[1] == 8 for op in ops)      # not-ready episodes: only clause 2 is checked
            writes = [(op[0], op[2:]) for op in ops if op[1] == 1]
            times, partial, last_byte = frames_hook(flen, writes)
            stops = []          # (second, code)
            for n, f in enumerate(steps):
                for c in f[3:3 + f[2]]:
                    if 10 <= c < 40 and not stops:
                        stops.append((n, c))
            if stops and stops[0][1] == 14:
                n = stops[0][0]
                before = [t for t in times if t <= n]
                if ka == 0 or n - (before[-1] if before else 0) < ka:
                    return "0,2,%d" % n
            if paused:
                return "1"
            if stops and stops[0][1] == 15:
                # ended by the read-rate rule: a frame must have been incomplete when the timer fired
                n = stops[0][0]
                _, part_then, _ = frames_hook(flen, [(t, bs) for (t, bs) in writes if t <= n])
                if not part_then:
                    return "0,7,%d" % n
            t_last = times[-1] if times else 0
            # with the read-rate rule on, an incomplete frame is governed by that rule (clause 4)
            if ka > 0 and horizon - 1 >= t_last + ka + 1 and not (rr_t and partial):
                if not stops or stops[0][1] != 14:
                    return "0,3,%d" % (t_last + ka + 1)
            if rr_t and partial and last_byte is not None and horizon - 1 >= last_byte + 2 * rr_t + 2:
                if not stops or stops[0][1] not in (14, 15):
                    return "0,4,%d" % (last_byte + 2 * rr_t + 2)
            return "1"
        if kind in (3, 5):
            t_conn = None
            cpart = False
            half = False
            frames = []
            closed_by_peer = None
            for op in ops:
                t, o = op[0], op[1]
                if o == 20 or (o == 25 and cpart):
                    if t_conn is None:
                        t_conn = t
                elif o == 24:
                    cpart = True
                elif o == 21:
                    frames.append(t)
                elif o == 22:
                    half = True
                elif o == 23 and half:
                    half = False
                    frames.append(t)
                elif o == 3:
                    closed_by_peer = t
                elif o in (26, 27):
                    half = True
            if closed_by_peer is not None:
                return "1"
            closed_at = next((n for n, f in enumerate(steps) if f[0] == 1), None)
            accepted = any(32 in f[1:] for f in steps)
            if ct and (t_conn is None or t_conn >= ct):
                if accepted or (horizon - 1 >= ct + 1 and (closed_at is None or closed_at > ct + 1)):
                    return "0,5,%d" % ct
                return "1"
            if t_conn is None:
                return "1"
            if not accepted:
                return "0,5,%d" % t_conn
            eff = min(ka + ka // 2, 65535) if ka else 30
            t_last = max([t_conn] + frames)
            last = steps[-1]
            reason = last[last.index(224) + 1] if 224 in last[1:] else None
            if closed_at is not None and (reason == 141 or (kind == 3 and not (rr_t and half))):
                before = [t for t in [t_conn] + frames if t <= closed_at]
                if closed_at - before[-1] < eff:
                    return "0,2,%d" % closed_at
            if horizon - 1 >= t_last + eff + 1 and not (rr_t and half):
                if closed_at is None:
                    return "0,3,%d" % (t_last + eff + 1)
                if kind == 5 and reason != 141:
                    return "0,3,%d" % closed_at
            if rr_t and half and horizon - 1 >= max(t for t, *_ in ops) + 2 * rr_t + 2 and closed_at is None:
                return "0,4,%d" % horizon
            return "1"
        # clients
        t_ack = next((op[0] for op in ops if op[1] in (30, 33, 341, 342, 343)), None)
        first_ack = next((op[1] for op in ops if op[1] in (30, 33, 341, 342, 343)), None)
        if kind == 15 and first_ack is not None and first_ack > 340:
            ka = first_ack - 340          # Server Keep Alive replaces the client's own value [MQTT-3.2.2-21]
        t_close = next((op[0] for op in ops if op[1] == 3), None)
        for n, f in enumerate(steps):
            pings = sum(1 for c in f[1:] if c == 192)
            if ka == 0 or t_ack is None:
                if pings:
                    return "0,6,%d" % n
                continue
            if t_close is not None and n >= t_close:
                break
            if pings < (n - t_ack) // ka:
                return "0,6,%d" % n
        return "1"


def parts(tier, rng):
    out = []
    for name, rule, cases in G.iostate_cases(rng, tier):
        if "timer" in name or name == "fixed":
            out.append(TimerDetPart(name, "iostate", cases, shards=16, rule=rule))
    rt = G.timerrt_cases(rng, 24 if tier == "quick" else 80)
    # one process, all scenarios concurrently on one runtime (about 5.5 s of wall clock)
    out.append(RtPart("real-time", "timerrt", rt, shards=1, vm_slice=40,
                      rule="real-time scenarios, 1 s grid, horizon 4..5 s: bare dispatcher and real MQTT endpoints"))
    # the negotiated keep-alive: what the server enforces is what CONNACK announces (Server Keep Alive), so that a
    # peer which keeps to the negotiated value is never timed out -- handshake engine, keep-alive overrides
    for p in HS.parts(tier, rng):
        if not isinstance(p, HS.HsPart):
            continue
        cases = [c for c in p.cases if (c.split(";")[0].split(",") + ["0"] * 16)[9] != "0"
                 or (c.split(";")[0].split(",") + ["0"] * 16)[14] != "0"]
        if cases:
            out.append(KeepAliveAnnounced("keep-alive-at-handshake-" + p.name, "hs", cases, shards=16, rule=p.rule))
    return out


class KeepAliveAnnounced(HS.HsPart):
    def py_oracle(self, case, obs):
        v = HS.py_oracle(case, obs)
        return v if v.startswith("0,8") else "1"


def replay_parts(rp):
    if rp.get("engine") == "hs":
        return [KeepAliveAnnounced("replay", "hs", [rp["case"]], shards=1)]
    eng = rp.get("engine", "timerrt")
    cls = RtPart if eng == "timerrt" else TimerDetPart
    return [cls("replay", eng, [rp["case"]], shards=1)]


def known_signature(part, case, impl_obs, oracle):
    """recorded deviations of the current tree (see known_findings.json); anything else is None"""
    f = oracle.split(",")
    if isinstance(part, HS.HsPart):
        return None
    if len(f) < 3 or f[0] != "0" or part.engine != "timerrt":
        return None
    fields = case.split(";")
    cfg = nums(fields[0]) + [0] * 10
    ops = [o for o in (nums(x) for x in fields[1:]) if o]
    if f[1] == "2" and cfg[8] == 0 and cfg[4] != 0 and any(op[1:3] == [8, 3] for op in ops):
        # a frame-read timer expiring while the request service is not ready is handed over by
        # poll_read_pause as KeepAliveTimeout (C20_live_refuted_not_ready, C20_ka_zero_disables_refuted)
        return "stale-timer-while-not-ready"
    return None


CLAUSES = {
    "1": "the connection task panicked (arithmetic underflow in the frame-read-rate computation)",
    "2": "a connection that delivered a complete packet less than a keep-alive period ago was ended by the "
         "keep-alive timer",
    "3": "no complete packet arrived for the keep-alive period but the connection was not ended with a "
         "keep-alive timeout (MQTT 5: DISCONNECT 0x8D)",
    "4": "a frame made no progress for two read periods but the connection was not ended with a read timeout",
    "7": "the connection was ended with a read timeout although every byte received belonged to a complete "
         "packet (a live or merely idle peer was dropped by the read-rate rule)",
    "5": "the connect timeout was not enforced (or a CONNECT in time was not accepted)",
    "6": "the client did not write a PINGREQ once per keep-alive period (or wrote one without keep-alive)",
}


def clause_text(part, oracle):
    if isinstance(part, HS.HsPart):
        return HS.clause_text(part, oracle)
    f = oracle.split(";")[0].split(",")
    return "%s (second %s)" % (CLAUSES.get(f[1] if len(f) > 1 else "", "property violated"),
                               f[2] if len(f) > 2 else "?")
