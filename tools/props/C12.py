"""C12 -- inbound in-flight limits (v3 part): the limiter inflight::InFlightServiceImpl as driven by io.rs."""
import gen_limiter as G
import gen_codec3 as G3
import gen_codec5 as G5
from props import inbound_common as IB
from props.base import Part

PROPS_FILES = ["C12", "C12v5", "C12burst"]
USES_GEN = True

RULE = ("operation sequences on one limiter behind ntex_service::Pipeline::bind (poll_ready / hand-over of a "
        "frame with its first poll / hand-over to a spawned task / first poll of a spawned call / completion "
        "of the k-th running handler): exhaustive over every sequence that respects the dispatcher "
        "discipline up to the stated length for max_cap in {0,1,2,3} x max_size in {0,10,100} with packet "
        "sizes around the byte limit (all five request kinds, and again restricted to the frame order a "
        "codec produces, one step longer), exhaustive over the sequences the tree before d435312 allowed "
        "(spawned calls polled late), exhaustive over arbitrary (also undisciplined) sequences over a reduced "
        "alphabet, random sequences up to length 40; non-trivial = some poll answered Pending and a later "
        "completion woke the dispatcher, or more calls ran at once than max_cap (payload chunks bypassing)")
ASSUMPTIONS = [
    "the real InFlightServiceImpl (cfg(ntex_mqtt_verif) re-export) wrapped in ntex_service::Pipeline::new(..).bind() "
    "is hand polled: poll_ready with a flag waker, call_nowait futures polled with a no-op waker, a gated inner "
    "service that is always ready; no runtime involved",
    "a first poll of a call while the last poll_ready answered Pending is outside the modelled domain (the call "
    "parks in WaitersRef::run); both sides answer 9998; C12_in_domain proves that disciplined runs never get there",
    "the dispatcher discipline `legal` (hand-over only right after a Ready answer; poll_ready only when every "
    "spawned call has had its first poll) is what io.rs guarantees after /repo commit d435312 together with the "
    "FIFO run queue of ntex-rt (VecDeque push_back/pop_front; a task woken during its own poll is re-queued "
    "after that poll); it is an assumption of the theorems, validated at connection level by replay only",
    "`wf_stream` (after a streamed PUBLISH only its chunks, chunks have size() = 0) is what the v3 codec and "
    "`SizedRequest for Decoded` produce; assumed here, property of the decoder elsewhere",
]
PARTIAL = [
    "the v5 receive-maximum half (quota exceeded -> DISCONNECT 0x93, within quota never refused, the quota counts "
    "unacknowledged QoS>0 publishes only) is proved on the protocol-decision layer of Model/Inbound.v (Props/C12v5.v) "
    "and tied to real v5 servers/clients by the inbound cases; the v5 server uses the same limiter with max_cap = 0 "
    "(bytes only), which the limiter theorems cover as mc = 0",
    "'reading resumes' is proved at the limiter interface (C12_no_lost_wake: the dispatcher's waker is woken; "
    "C12_resume: its next poll answers Ready); that the woken io dispatcher then reads and handles every remaining "
    "packet is covered at connection level by the correspondence runs of the inbound engines, not by a theorem",
    "u16 counter overflow with 65536 calls running at once (only payload chunks can exceed max_cap) is outside "
    "C12_no_panic (hypothesis: at most 65535 operations)",
]


class LimPart(Part):
    def nontrivial(self, case, obs):
        if obs in ("9999", "9998", "9997"):
            return False
        f = case.split(";")
        mc = int(f[0].split(",")[0])
        ops = f[1:]
        fs = [o.split(",") for o in obs.split(";")]
        pend = False
        for o, w in zip(ops, fs):
            if o == "1" and w[0] == "0":
                pend = True
            if pend and o.startswith("3") and w[1] == "1":
                return True
            if mc and int(w[2]) > mc:
                return True
        return False

    def classify(self, case, obs):
        if obs == "9999":
            return "panic"
        if obs in ("9998", "9997"):
            return "outside the modelled domain"
        cfg = case.split(";")[0]
        fs = [o.split(",") for o in obs.split(";")]
        ops = case.split(";")[1:]
        pend = any(o == "1" and w[0] == "0" for o, w in zip(ops, fs))
        return "cfg %s pending=%d" % (cfg, pend)

    def readable(self, case):
        kinds = ["other", "publish", "publish-streamed", "chunk", "final-chunk"]
        f = case.split(";")
        out = []
        for o in f[1:]:
            x = o.split(",")
            if x[0] == "1":
                out.append("poll_ready")
            elif x[0] in ("2", "4") and len(x) == 3:
                out.append("%s(%s,size=%s)" % ("call" if x[0] == "2" else "spawn", kinds[int(x[1])] if int(x[1]) < 5 else "other", x[2]))
            elif x[0] == "3":
                out.append("complete#" + x[1])
            elif x[0] == "5":
                out.append("first-poll#" + x[1])
            else:
                out.append("?" + o)
        return {"max_cap,max_size": f[0], "ops": out}


CORPUS = [
    # the sequence the tree before d435312 allowed (C12_overlap_refuted_deferred_pre_fix): 3 publishes, limit 2
    "2,0;1;2,1,5;1;4,1,5;1;4,1,5;5,0;5,0",
    "0,10;1;2,1,8;1;4,1,8;1;4,1,8;5,0;5,0",
    # the non-vacuity example of Props/C12.v
    "1,10;1;2,2,7;1;2,3,0;1;4,4,0;5,0;1;3,1;3,1;3,0",
    # streamed payload past the limit, pause, wake by the completion that frees the slot
    "1,0;1;2,2,5;1;2,3,0;1;2,4,0;1;3,0;3,0;3,0;1",
    "2,10;1;2,1,8;1;2,1,8;1;3,1;1;3,0;1",
]


class SizedPart(Part):
    """engines sized3 / sized5: `impl SizedRequest for Decoded` -- the limiter's view of the decoder's items
    (what `wf_stream` assumes): after a PUBLISH flagged is_publish only chunks follow, the last one not flagged
    is_chunk; a PUBLISH that is not flagged is followed by no chunk; chunks have size 0"""
    has_oracle = False
    NO_SHRINK_FIELDS = (0,)

    def py_oracle(self, case, obs):
        if obs == "9999":
            return "0,6,0"
        if obs == "95":
            return "0,7,0"          # the decoder keeps producing items without consuming input
        streaming = False
        for i, f in enumerate(obs.split(";")):
            x = [int(t) for t in f.split(",")]
            if x[0] in (4, 5) or len(x) < 4:
                break
            kind, size, isp, isc = x[:4]
            if kind == 3:
                if not streaming or size != 0:
                    return "0,7,%d" % i
                streaming = bool(isc)
            else:
                if streaming or isc:
                    return "0,7,%d" % i
                streaming = bool(isp) and kind == 2
                if isp and kind != 2:
                    return "0,7,%d" % i
        return "1"

    def nontrivial(self, case, obs):
        return ";3," in ";" + obs


from props import C19 as _HS


class ReceiveMaxAtHandshake(_HS.HsPart):
    """clause 11 of the handshake scan only"""

    def py_oracle(self, case, obs):
        v = _HS.py_oracle(case, obs)
        return v if v.startswith("0,11") else "1"


def parts(tier, rng):
    res = [LimPart("corpus", "limiter", list(CORPUS), shards=1, rule="hand written cases")]
    n3 = 60 if tier == "quick" else 600
    res.append(SizedPart("sized-v3", "sized3", G3.gen_dec_valid(rng, n3) + G3.gen_dec_payload(rng, n3),
                         rule="valid v3 streams x cut sets x min_chunk: SizedRequest of every decoded item"))
    res.append(SizedPart("sized-v5", "sized5", G5.dec5_valid(rng, n3 * 4),
                         rule="valid v5 streams x cut sets x min_chunk: SizedRequest of every decoded item"))
    for name, cases in G.all_cases(rng, "quick" if tier == "quick" else "full"):
        res.append(LimPart(name, "limiter", cases, shards=16, rule=name, vm_slice=200))
    # MQTT 5 half: Receive Maximum, enforced by the v5 dispatchers (model: Model/Inbound.v, theorems Props/C12v5.v)
    for p in IB.make_parts(tier, rng, ("C12",)):
        if p.ver == 5:
            p.name = "v5-receive-maximum-" + p.name
            res.append(p)
    # the limits on real servers when several frames arrive in one read (Model/InboundBurst.v): scans P19 (v3: never
    # more handlers at once than max_receive), P20 (everything is handled once the handlers finish), P13 (v5: 0x93)
    res += IB.burst_parts(tier, rng, ("C12",))
    # where the v5 limit comes from: the Receive Maximum in force is the one announced in CONNACK (configured value
    # or the handshake's override) -- handshake engine, bursts of held QoS 1 publishes (clause 11 of its scan)
    from props import C19 as HS
    for p in HS.parts(tier, rng):
        if isinstance(p, HS.HsPart):
            cases = [c for c in p.cases if any(f.startswith("2,50,6,0,1,104,") and f.count(",50,6,0,1,104,") >= 1
                                               for f in c.split(";")[3:])]
            if cases:
                res.append(ReceiveMaxAtHandshake("receive-max-at-handshake-" + p.name, "hs", cases, shards=16, rule=p.rule))
    return res


def replay_parts(rp):
    if rp.get("engine") == "hs":
        return [ReceiveMaxAtHandshake("replay", "hs", [rp["case"]], shards=1)]
    if rp.get("engine", "limiter").startswith("sized"):
        return [SizedPart("replay", rp["engine"], [rp["case"]], shards=1)]
    if rp.get("engine", "limiter") != "limiter":
        return IB.replay_parts(rp, ("C12",))
    return [LimPart("replay", "limiter", [rp["case"]], shards=1)]


def known_signature(part, case, impl_obs, oracle):
    if isinstance(part, _HS.HsPart):
        return None
    if isinstance(part, IB.InbPart):
        return IB.known_signature(part, case, impl_obs, oracle)
    return None


CLAUSES = {
    "1": "more calls that are not payload chunks run at once than max_receive allows, or a poll outside a "
         "streamed payload answered Ready with the limits reached",
    "2": "the bytes of the running calls exceed max_receive_size by more than the last packet",
    "3": "a readiness poll answered Pending while a payload is being streamed",
    "4": "a completion brought the running calls back under the limits after a Pending answer and the "
         "dispatcher was not woken (reading would never resume)",
    "5": "a readiness poll answered Pending although the running calls are under the limits",
    "6": "the limiter panicked",
    "7": "the limiter's view of the decoded items is not a well-formed stream: a PUBLISH with an incomplete payload "
         "is not flagged is_publish (its chunks would wait for a free slot its own handler holds), a chunk is "
         "not flagged / has a size, or the final chunk is flagged is_chunk",
    "9": "the observation is shorter than the case",
}


def clause_text(part, oracle):
    if isinstance(part, _HS.HsPart):
        return _HS.clause_text(part, oracle)
    if isinstance(part, IB.InbPart):
        return IB.clause_text(part, oracle)
    f = oracle.split(";")[0].split(",")
    cl = f[1] if len(f) > 1 else "?"
    return "at operation %s: %s" % (f[2] if len(f) > 2 else "?", CLAUSES.get(cl, "clause " + cl))
