"""C15 -- inbound property (see properties.jsonl); parts, oracle and clauses in props/inbound_common.py"""
from props import inbound_common as B
from props import sink_common as SC
from props import C19 as HS

RULE = ("sequences of peer packets (all packet kinds, ids 1..3, QoS 0/1/2, aliases, valid and invalid filters) "
        "interleaved with completions of gated publish handlers (ok / error / negative ack) and of the gated protocol "
        "service, against real v3/v5 servers and clients over the in-memory transport: all sequences up to length 3 "
        "over ~28 packet instances with all completion placements, id histories, alias sequences, receive-maximum "
        "bursts, QoS 2 flows, control-path stress, shutdown sequences, random longer ones; non-trivial = at least "
        "one handler or protocol-service completion in the case")
ASSUMPTIONS = ["handlers and the protocol service are gated by the harness; 40 scheduler rounds are taken as quiescence",
               "streamed payloads, timers and write back-pressure are not part of these cases"]
PARTIAL = ["the theorems are proved for the protocol-decision layer of Model/Inbound.v (and for the full operational "
           "model where stated in Props/C15.v); that the executor really awaits handlers and the absence of hangs are "
           "carried by the correspondence run only"]
USES_GEN = True
WANT = ("C15",)
PROPS_FILES = ["C15", "C15sink"]


class CodeAtLimits(HS.HsPart):
    """the cause named when a limit set up by the handshake is exceeded: the handshake engine's cases that probe the
    inbound packet size and the maximum QoS on MQTT 5 connections -- the DISCONNECT must carry 0x95 / 0x9B (clause 10
    of the handshake scan; an alias above the announced maximum is "a protocol error", C17, with no dedicated code
    named by the property)"""

    def py_oracle(self, case, obs):
        v = HS.py_oracle(case, obs, codes=True)
        return v if v.startswith("0,10") else "1"


def parts(tier, rng):
    out = B.make_parts(tier, rng, WANT)
    for p in HS.parts(tier, rng):
        if isinstance(p, HS.HsPart):
            cases = [c for c in p.cases if any(f.startswith("2,") for f in c.split(";")[3:])]
            if cases:
                out.append(CodeAtLimits("code-at-limits-" + p.name, "hs", cases, shards=16, rule=p.rule))
    # a busy endpoint: the DISCONNECT the sink layer writes when an acknowledgement breaks the rules (wrong id, wrong
    # type, nothing outstanding) names an error, never normal disconnection
    for p in SC.make_parts(tier, rng, {15}):
        if p.ver == 5:
            p.name = "busy-sink-" + p.name
            out.append(p)
    return out


def replay_parts(rp):
    if rp.get("engine") == "hs":
        return [CodeAtLimits("replay", "hs", [rp["case"]], shards=1)]
    if rp.get("engine", "").startswith("sink"):
        return SC.replay_parts(rp, {15})
    return B.replay_parts(rp, WANT)


def known_signature(part, case, impl_obs, oracle):
    if isinstance(part, SC.SinkPart) or isinstance(part, HS.HsPart):
        return None
    return B.known_signature(part, case, impl_obs, oracle)


def clause_text(part, oracle):
    if isinstance(part, HS.HsPart):
        return HS.clause_text(part, oracle)
    if isinstance(part, SC.SinkPart):
        return SC.clause_text(part, oracle)
    return B.clause_text(part, oracle)
