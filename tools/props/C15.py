"""C15 -- inbound property (see properties.jsonl); parts, oracle and clauses in props/inbound_common.py"""
from props import inbound_common as B

RULE = ("sequences of peer packets (all packet kinds, ids 1..3, QoS 0/1/2, aliases, valid and invalid filters) "
        "interleaved with completions of gated publish handlers (ok / error / negative ack) and of the gated protocol "
        "service, against real v3/v5 servers and clients over the in-memory transport: all sequences up to length 3 "
        "over ~28 packet instances with all completion placements, id histories, alias sequences, receive-maximum "
        "bursts, QoS 2 flows, control-path stress, shutdown sequences, random longer ones; non-trivial = at least "
        "one handler or protocol-service completion in the case")
ASSUMPTIONS = ["handlers and the protocol service are gated by the harness; 40 scheduler rounds are taken as quiescence",
               "streamed payloads, timers and write back-pressure are not part of these cases"]
PARTIAL = ["the theorems are proved for the protocol-decision layer of Model/Inbound.v (and for the full operational "
           "model where stated in Props/C15.v); that the executor really awaits handlers and the absence of hangs are "
           "carried by the correspondence run only"]
USES_GEN = True
WANT = ("C15",)


def parts(tier, rng):
    return B.make_parts(tier, rng, WANT)


def replay_parts(rp):
    return B.replay_parts(rp, WANT)


known_signature = B.known_signature
clause_text = B.clause_text
