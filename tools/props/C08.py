"""C08 -- everything written to the wire is a sequence of complete well-formed packets."""
import gen_codec3 as G3
import gen_codec5 as G5
from props import codec_common as cc
from props import sink_common as S

RULE = ("(i) encoder operation sequences on one codec (v3, v5): packets, publishes with full / partial / no inline "
        "payload, chunk operations (exact, too long, short then another packet), failing encodes (over-long topic or "
        "property, over the peer maximum, missing / superfluous packet id); each op's bytes are checked: a failed op "
        "leaves nothing, a successful packet/publish is one frame with truthful Remaining Length, no packet inside a "
        "streamed payload, payload bytes never exceed the declared size; (ii) sink operation sequences with streamed "
        "sends, sends during streaming, dropped streams and close paths on real v3/v5 connections; non-trivial = a "
        "case with a streamed publish or a failing encode")
ASSUMPTIONS = ["every write of an endpoint goes through io.encode(item, codec) (read off the source: sink, dispatcher "
               "responses, control service, handshake); writes after close are dropped by ntex-io",
               "in part (ii) the peer side splits the byte stream with the crate's own decoder; the independent framing "
               "check is the Remaining-Length check of part (i) and the decode-back through the validated model"]
PARTIAL = ["the composition 'sink only issues a PUBLISH when nothing is owed' is proved on the sink model "
           "(C05/C06 invariant: srem/crem) and validated by correspondence, not derived from the Rust"]
USES_GEN = True


class EncOps3(cc.EncPart):
    def nontrivial(self, case, obs):
        return ";3," in case or any(f.startswith("1,") for f in obs.split(";"))


class EncOps5(cc.Enc5Part):
    def nontrivial(self, case, obs):
        return ";3," in case or any(f.startswith("1,") for f in obs.split(";"))


PROPS_FILES = ["C08", "C08sink"]


def parts(tier, rng):
    n3 = cc.sized(tier, 60, 600)
    n5 = cc.sized(tier, 30, 300)
    ps = [EncOps3("v3-encoder-ops", "enc3", G3.gen_enc_ops(rng, n3) + G3.enc_crafted(rng), has_oracle=False,
                  rule="publish + chunk op sequences, crafted failing encodes"),
          EncOps5("v5-encoder-ops", "enc5", G5.enc5_publish(rng, n5 * 12) + G5.enc5_invalid(rng, n5), has_oracle=False,
                  rule="publish + chunk op sequences, invalid values")]
    # sink schedules that involve streaming (kind 7) or close paths
    for p in S.make_parts(tier, rng, {8}):
        p.cases = [c for c in p.cases if ",7," in c or ";13," in c or ";10" in c or ";11" in c][:6000]
        p.name = "sink-" + p.name
        if p.cases:
            ps.append(p)
    return ps


def replay_parts(rp):
    eng = rp.get("engine", "enc3")
    if eng.startswith("sink"):
        return S.replay_parts(rp, {8})
    cls = {"enc5": EncOps5, "enc3": EncOps3}[eng]
    return [cls("replay", eng, [rp["case"]], has_oracle=False)]


def known_signature(part, case, impl_obs, oracle):
    return None


def clause_text(part, oracle):
    if part.engine.startswith("sink"):
        return S.clause_text(part, oracle)
    f = oracle.split(";")[0].split(",")
    return cc.ENC_CLAUSES.get(f[1] if len(f) > 1 else "", "oracle verdict " + oracle)
