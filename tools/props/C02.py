"""C02 -- hostile or malformed bytes can neither crash nor desynchronise the decoder."""
import gen_codec3 as G3
import gen_codec5 as G5
from props import codec_common as cc

RULE = ("byte strings fed to the v3 codec, the v5 codec and the version sniffer: all strings of length <= 2, "
        "structure-aware mutants of valid frames (every length field inflated/deflated, truncation at every "
        "offset, bit flips, spliced frames, unknown/duplicate properties, zero ids, QoS 3, bad UTF-8, bad reason "
        "codes), each under several fragmentations and max-size/min-chunk configurations; non-trivial = the "
        "decoder produced at least one item or an error (not only `need more`)")
ASSUMPTIONS = ["buffers shorter than 2^32 bytes", "usize is 64 bit"]
PARTIAL = ["v5: the per-malformation theorems are proved for the generic property-block parser; see evidence "
           "theorems list for the packet kinds covered"]
USES_GEN = True


def parts(tier, rng):
    n3 = cc.sized(tier, 25, 400)
    n5 = cc.sized(tier, 12, 150)
    return [
        cc.Dec3Part("v3-streams", "dec3", G3.gen_dec(rng, n3), rule="valid + all short + hostile mutants + utf8 + payload"),
        cc.Dec5Part("v5-streams", "dec5", G5.suite_dec5(rng, n5), rule="valid + all short + hostile mutants"),
        cc.SimplePart("sniff", "sniff", G5.suite_sniff(rng, cc.sized(tier, 20, 200)),
                      rule="prefixes of CONNECTs, wrong names/levels, other first bytes, long var-ints", has_oracle=False),
    ]


def replay_parts(rp):
    cls = {"dec3": cc.Dec3Part, "dec5": cc.Dec5Part}.get(rp.get("engine"), cc.SimplePart)
    return [cls("replay", rp["engine"], [rp["case"]], has_oracle=False)]


def known_signature(part, case, impl_obs, oracle):
    return None


def clause_text(part, oracle):
    f = oracle.split(";")[0].split(",")
    return cc.DEC_CLAUSES.get(f[1] if len(f) > 1 else "", "oracle verdict " + oracle)
