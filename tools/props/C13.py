"""C13 -- outbound sink property (see properties.jsonl); parts, oracle and clauses in props/sink_common.py"""
from props import sink_common as S

RULE = ("operation sequences on the real sink of a v3/v5 connection (server and client role): tasks started, polled "
        "by hand, dropped; peer acknowledgements singly or batched, of the right or wrong kind/id; back-pressure "
        "toggles; set_cap; close; QoS 2 release/drop; streamed sends; exhaustive for short lists, random to length "
        "40; non-trivial = at least one acknowledgement processed and one counter non-zero")
ASSUMPTIONS = ["tasks are polled only when the case says so (hand polling); 40 scheduler rounds are taken as quiescence",
               "write back-pressure and set_cap are induced through cfg(ntex_mqtt_verif) hooks on MqttSink"]
PARTIAL = []
USES_GEN = False
WANT = {13}


def parts(tier, rng):
    return S.make_parts(tier, rng, WANT, quiesced=True)


def replay_parts(rp):
    return S.replay_parts(rp, WANT)


def known_signature(part, case, impl_obs, oracle):
    return S.known_signature_c13(part, case, impl_obs, oracle) if 13 in WANT else None


clause_text = S.clause_text
