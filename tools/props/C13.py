"""C13 -- outbound sink property (see properties.jsonl); parts, oracle and clauses in props/sink_common.py"""
import gen_iostate as GI
from props import sink_common as S
from props import C07 as LIFE

RULE = ("operation sequences on the real sink of a v3/v5 connection (server and client role): tasks started, polled "
        "by hand, dropped; peer acknowledgements singly or batched, of the right or wrong kind/id; back-pressure "
        "toggles; set_cap; close; QoS 2 release/drop; streamed sends; exhaustive for short lists, random to length "
        "40; non-trivial = at least one acknowledgement processed and one counter non-zero")
ASSUMPTIONS = ["tasks are polled only when the case says so (hand polling); 40 scheduler rounds are taken as quiescence",
               "write back-pressure and set_cap are induced through cfg(ntex_mqtt_verif) hooks on MqttSink"]
PARTIAL = []
USES_GEN = False
WANT = {13}
PROPS_FILES = ["C13", "C13ctl"]


class BpPart(LIFE.IoPart):
    """where the sink's back-pressure flag comes from: io.rs tells the control service WrBackpressure(on) when the
    write buffer passes the high watermark and WrBackpressure(off) once it has been flushed.  A notification `on`
    without a later `off`, on a running connection whose peer accepts bytes again and whose service is ready,
    leaves every sender parked for good."""

    def _oracle(self, case, obs):
        if obs == "9999":
            return "0,1,0"
        fields = case.split(";")
        ops = [LIFE.nums(f) or [0] for f in fields[1:]]      # an empty field is an operation that does nothing
        steps = self.parse(obs)
        # judged after every step (a later, unrelated operation may end the connection)
        for i in range(len(ops)):
            if i >= len(steps):
                break
            fin, pending, _tm, codes, _w = steps[i]
            pre = ops[:i + 1]
            if fin != 0 or any(10 <= c < 40 for c in codes):
                break
            if any(op[0] in (3, 4, 6, 7, 9, 10) or (op[0] == 1 and 255 in op[1:]) for op in pre):
                break               # closes, timer expiry, control readiness, undecodable bytes: other endings
            wr = [c for c in codes if c in (40, 50)]
            if not wr or wr[-1] != 40:
                continue
            accept = [op[1] for op in pre if op[0] == 12]
            ready = [op[1] for op in pre if op[0] == 8]
            if (accept and accept[-1] != 1) or (ready and ready[-1] != 0):
                continue
            return "0,133,%d" % i
        return "1"


# ---- fragment for tools/props/C13.py -------------------------------------------------------------
from props.base import Part  # noqa: E402
import gen_ctlwrap as GCW


class CtlWrapPart(Part):
    """engines ctlwrap3 / ctlwrap5: the wrapper a server puts around the application's control service
    (ControlService of src/v3/default.rs, src/v5/default.rs).  io.rs spawns every WrBackpressure notification as
    its own task; the application's control service may take any time over each of them.  What the sink does
    must follow the order in which the notifications were ISSUED: once the last notification issued says "off"
    (or none was issued) and nothing has been sent, the sink must be ready -- whatever the application's calls
    are doing.  Read off the observation alone (the number of calls the application has received tells whether
    an operation `1,b` made the dispatcher issue a notification); knows nothing of the model."""
    has_oracle = False
    NO_SHRINK_FIELDS = (0,)

    @staticmethod
    def _nums(f):
        return [int(x) for x in f.split(",")] if f.strip() else []

    def py_oracle(self, case, obs):
        if obs == "9999":
            return "0,1,0"
        fields = case.split(";")
        cap = self._nums(fields[0])[0]
        ops = [self._nums(f) for f in fields[1:]]
        steps = [self._nums(f) for f in obs.split(";")]
        if cap < 1:
            return "1"                      # a closed window: never ready
        last = 0                            # value of the last notification issued so far (none = off)
        issued = 0
        for i, op in enumerate(ops):
            if i >= len(steps):
                break
            ready, n_issued = steps[i][0], steps[i][1]
            if op[:1] in ([5], [6]):
                break                       # something sent / acknowledged: the window may be full, the connection closed
            if n_issued != issued:
                if op[:1] != [1] or len(op) < 2 or n_issued != issued + 1:
                    break                   # not a schedule this scan understands: no verdict
                issued = n_issued
                last = 1 if op[1] != 0 else 0
            if last == 0 and ready == 0:
                return "0,134,%d" % i
        return "1"

    def nontrivial(self, case, obs):
        # back-pressure was lifted at least once
        return obs != "9999" and self._nums(obs.split(";")[-1])[1] >= 2

    def classify(self, case, obs):
        if obs == "9999":
            return "panic"
        f = self._nums(obs.split(";")[-1])
        return "notifications=%d completed=%d ready=%d" % (min(f[1], 4), min(f[2], 4), f[0])


def ctlwrap_parts(tier, rng):
    res = []
    for eng in ("ctlwrap3", "ctlwrap5"):
        for name, cases in GCW.all_cases(rng, tier):
            res.append(CtlWrapPart("%s-%s" % (eng, name), eng, cases, shards=16,
                                   rule="schedules of back-pressure on/off at the io, completions of the gated "
                                        "application control calls in every order, ready()/QoS 1 tasks, PUBACKs"))
    return res
# ---- end of fragment -----------------------------------------------------------------------------


def parts(tier, rng):
    res = S.make_parts(tier, rng, WANT, quiesced=True)
    for name, rule, cases in GI.iostate_cases(rng, tier):
        if "backpressure" in name:
            res.append(BpPart("io-" + name, "iostate", cases, shards=16, rule=rule))
    res += ctlwrap_parts(tier, rng)
    return res


def replay_parts(rp):
    if rp.get("engine") in ("ctlwrap3", "ctlwrap5"):
        return [CtlWrapPart("replay", rp["engine"], [rp["case"]], shards=1)]
    if rp.get("engine") == "iostate":
        return [BpPart("replay", "iostate", [rp["case"]], shards=1)]
    return S.replay_parts(rp, WANT)


def known_signature(part, case, impl_obs, oracle):
    if isinstance(part, (LIFE.IoPart, CtlWrapPart)):
        return None
    return S.known_signature_c13(part, case, impl_obs, oracle) if 13 in WANT else None


def clause_text(part, oracle):
    if isinstance(part, CtlWrapPart):
        return ("the last back-pressure notification issued says off (or none was issued) and nothing has been sent, "
                "yet the sink is not ready: the flag follows the completion order of the application's control "
                "service instead of the order of the notifications")
    if isinstance(part, LIFE.IoPart):
        return ("the dispatcher announced write back-pressure (on) and never announced that it was lifted although the "
                "peer accepts bytes again, the service is ready and the connection is running: every sender stays parked")
    return S.clause_text(part, oracle)
