"""Shared parts and spec-level oracle for the inbound properties C03, C11, C15, C16, C17 (and the v5 half of C12):
engines inb3 / inb5 (servers) and cli3 / cli5 (clients), model coq/Model/Inbound.v.

The oracle is tools/inbound_invariants.py (a peer's-view scan of the implementation's observation: P1 handler
fields, P2 ack after completion with the right reason, P3 in-use id not delivered, P4 one Stop / nothing after
close, P5 DISCONNECT count/position, P6 0x93 only over quota, P7 PUBCOMP only after PUBREC, P8 control order) plus
P9 (topic-alias resolution) below; it never looks at the model."""
import gen_inbound as G
import inbound_invariants as I
from props.base import Part

CLAUSE_OF = {
    "panic": ("C16", "the endpoint panicked"),
    "P1": ("C03", "a handler invocation carries fields (qos, id, payload length, retain) of no PUBLISH the peer sent"),
    "P2": ("C03", "an acknowledgement was written before its handler completed, or with a reason that does not "
                  "match the handler's outcome"),
    "P3": ("C11", "a packet with an in-use identifier was delivered to a handler"),
    "P4": ("C16", "more than one Stop notification, or bytes written after the connection was closed"),
    "P5": ("C15", "more than one DISCONNECT, or a DISCONNECT after the peer's"),
    "P6": ("C12", "DISCONNECT 0x93 although the peer was within its receive-maximum quota"),
    "P7": ("C11", "PUBCOMP(success) for an id without a preceding PUBREC"),
    "P8": ("C04", "the protocol service saw control packets out of arrival order"),
    "P10": ("C11", "an identifier whose exchange has ended is still refused as in use"),
    "P11": ("C11", "PUBCOMP(success) written for an identifier that was not awaiting a PUBREL"),
    "P12": ("C15", "the DISCONNECT written for a cause with a dedicated MQTT 5 code does not carry it"),
    "P13": ("C12", "receive maximum: the peer was refused with 0x93 although it stayed within its quota, or exceeded "
                   "it and was not refused with 0x93"),
    "P14": ("C11", "a PUBLISH whose identifier was still in use reached a handler"),
    "P15": ("C18", "a SUBSCRIBE / UNSUBSCRIBE carrying a malformed topic filter reached the protocol service"),
    "P16": ("C04", "a response was written after the response to a later request"),
    "P17": ("C03", "a PUBREL was accepted for an identifier whose QoS 2 PUBLISH has not been handled successfully"),
    "P18": ("C04", "a PUBLISH vanished: no handler invocation, no response, connection still healthy"),
    "P19": ("C12", "more publish handlers executing at once on a v3 server than max_receive allows"),
    "P20": ("C12", "a PUBLISH the peer sent was never handled although every handler completed (reading did not resume)"),
    "P9": ("C17", "a handler saw a topic that is not the latest binding of the alias used"),
}
# recorded findings that the scan can hit (see known_findings.json)
KNOWN = {
    "P5 DISCONNECT after the peer's": "disconnect-after-unread-peer-disconnect",
    "P8": "control-packets-out-of-order-after-backlog",
}


def p9(v, case, obs):
    """topic-alias resolution (v5 servers/clients): handlers are numbered in call order"""
    if v != 5 or obs == "9999":
        return []
    fields = [[int(t) for t in f.split(",")] for f in case.split(";")]
    ops = fields[1:]
    of = obs.split(";")
    if len(of) != len(ops):
        return []
    binds = {}
    pend = []          # publishes sent, not yet seen in a handler: (qos,id,plen,retain, expected topic)
    ids_out = set()
    for n, (op, f) in enumerate(zip(ops, of)):
        try:
            wire, hs, ps, stop1, nstop, is_open = I.parse_obs(f)
        except ValueError:
            return []
        if op[0] == 1 and op[1] == 1 and len(op) >= 8:
            qos, pid, topic, alias, retain, plen = op[2], op[3] if op[2] else 0, op[4], op[5], op[6], op[7]
            if pid and pid in ids_out:
                return []                  # id reuse: which bindings count becomes ambiguous
            if pid:
                ids_out.add(pid)
            exp = topic
            if alias and topic:
                binds[alias] = topic
            elif alias and not topic:
                exp = binds.get(alias)
            if topic == 4:
                exp = None                 # wildcard topic name: rejected
            pend.append((qos, pid, plen, retain, exp))
        for (t, pid, r) in wire:
            if t in (0x40, 0x70) or (t == 0x50 and r >= 0x80):
                ids_out.discard(pid)
        for (h, qos, pid, topic, plen, retain) in hs:
            cands = [k for k, e in enumerate(pend) if e[:4] == (qos, pid, plen, retain)]
            good = [k for k in cands if pend[k][4] == topic or pend[k][4] not in (1, 2, 3)]
            if cands and not good and topic in (1, 2, 3):
                return ["P9 handler %d saw topic %d, the publishes it can stem from resolve to %s (op %d)" % (
                    h, topic, sorted(set(pend[k][4] for k in cands)), n + 1)]
            if good:
                del pend[good[0]]
    return []


def p10(v, case, obs):
    """C11/C03: an id whose exchange has ended (PUBACK written, negative PUBREC, PUBCOMP) is accepted again, and a
    PUBCOMP(success) is only written in answer to a PUBREL for an id whose positive PUBREC was written"""
    if obs == "9999":
        return []
    fields = [[int(t) for t in f.split(",")] for f in case.split(";")]
    ops = fields[1:]
    of = obs.split(";")
    if len(of) != len(ops):
        return []
    busy, pubrec_ok = set(), set()
    rel_pending, rel_dup = set(), set()
    peer_bad = False          # the peer reused an id before it saw the end of the exchange: P10 says nothing
    for n, (op, f) in enumerate(zip(ops, of)):
        try:
            wire, hs, ps, stop1, nstop, is_open = I.parse_obs(f)
        except ValueError:
            return []
        new_pub = None
        if op[0] == 1 and op[1] == 1 and len(op) >= 8 and op[2] > 0:
            if op[3] not in busy:
                new_pub = op[3]
            else:
                peer_bad = True
        if op[0] == 1 and op[1] == 4:
            if op[2] in rel_pending:
                rel_dup.add(op[2])   # a second PUBREL before the PUBCOMP: both may be answered
            rel_pending.add(op[2])
        if op[0] == 1 and op[1] in (6, 7):
            if op[2] in busy:
                peer_bad = True      # the peer reuses an id before it saw the end of the exchange
            busy.add(op[2])          # SUBSCRIBE / UNSUBSCRIBE ids share the id space
        for (t, pid, r) in wire:
            if r == 0x91 and t in (0x40, 0x50, 0x90, 0xB0):
                if new_pub is not None and pid == new_pub and t in (0x40, 0x50) and not peer_bad:
                    return ["P10 id %d refused as in use although its previous exchange has ended (op %d)" % (
                        pid, n + 1)]
                continue             # the in-use answer does not end the exchange that holds the id
            if t in (0x40, 0x90, 0xB0):
                busy.discard(pid)
            elif t == 0x50:
                if r >= 0x80:
                    busy.discard(pid)
                else:
                    pubrec_ok.add(pid)
            elif t == 0x70:
                if r != 0:
                    continue         # "packet identifier not found": answers a stray PUBREL, ends nothing
                rel_pending.discard(pid)
                if pid not in pubrec_ok and pid not in rel_dup:
                    return ["P11 PUBCOMP(success) for id %d whose positive PUBREC was not written (op %d)" % (
                        pid, n + 1)]
                pubrec_ok.discard(pid)
                busy.discard(pid)
        if new_pub is not None and is_open:
            busy.add(new_pub)
    return []


def p12(v, case, obs, client=False):
    """C15, dedicated codes (v5 server): the FIRST packet of the case that violates the protocol, when every
    operation before it is harmless and exactly one cause with a dedicated MQTT 5 code applies to it; if the
    DISCONNECT is written in that very step it must carry that code.  Also: a DISCONNECT the endpoint writes on
    its own never claims normal disconnection (0)."""
    if v != 5 or obs == "9999":
        return []
    fields = [[int(t) for t in f.split(",")] for f in case.split(";")]
    cfg, ops = fields[0], fields[1:]
    of = obs.split(";")
    if client:
        if len(of) != len(ops) or len(cfg) < 2:
            return []
        max_qos, rmax, amax = 2, cfg[0] or 65535, 16     # the client dispatcher uses the literal 16 (recorded finding)
    else:
        if len(of) != len(ops) or len(cfg) < 5:
            return []
        max_qos, rmax, amax = cfg[0], cfg[1] or 16, cfg[2]
    binds = set()
    hq = {}               # handler -> QoS of the PUBLISH it was invoked for
    out_pub = set()       # QoS>0 publish ids the peer has sent and not seen finished
    out_other = set()
    recd = set()
    for n, (op, f) in enumerate(zip(ops, of)):
        try:
            wire, hs, ps, stop1, nstop, is_open = I.parse_obs(f)
        except ValueError:
            return []
        fatal = None
        if op[0] == 1 and op[1] == 1 and len(op) >= 8:
            qos, pid, topic, alias, retain, plen = op[2], op[3] if op[2] else 0, op[4], op[5], op[6], op[7]
            if topic == 4 or (topic == 0 and alias == 0) or (alias and topic and alias > amax):
                return []                 # malformed / protocol error without a dedicated code
            if qos and (pid == 0 or pid in out_pub or pid in out_other):
                return []
            causes = []
            if qos > max_qos:
                causes.append(0x9B)
            if topic == 0 and alias and alias not in binds:
                causes.append(0x94)
            if qos and len(out_pub) >= rmax:
                causes.append(0x93)
            if len(causes) > 1:
                return []
            if causes:
                fatal = causes[0]
            else:
                if alias and topic:
                    binds.add(alias)
                if qos:
                    out_pub.add(pid)
        elif op[0] == 1 and op[1] == (13 if client else 8):
            pass
        elif not client and op[0] == 1 and op[1] in (6, 7) and len(op) >= 4 and op[3] in (1, 2):
            if op[2] == 0 or op[2] in out_pub or op[2] in out_other:
                return []
            out_other.add(op[2])
        elif op[0] == 1 and op[1] == 4:
            pass                          # PUBREL: released, or (MQTT 5) answered "packet identifier not found"
        elif op[0] == 1 and op[1] in (13, 14, 15):
            pass                          # PINGRESP / CONNECT / CONNACK after the handshake: decoded and ignored
        elif op[0] == 2 and (op[2] == 0 or (op[2] in (128, 131, 135, 144, 151, 153) and hq.get(op[1], 0) > 0)):
            pass                          # handler ok, or (QoS > 0) refusing with a negative acknowledgement
        elif op[0] == 3 and op[2] in (0, 2):
            pass
        else:
            return []
        for (h, qos, _pid, _t, _pl, _rt) in hs:
            hq[h] = qos
        for (t, pid, r) in wire:
            if t == 0xE0:
                if fatal is not None and r != fatal:
                    return ["P12 DISCONNECT carries reason %d, the cause has the dedicated code %d (op %d)" % (
                        r, fatal, n + 1)]
                if fatal is None:
                    return ["P12 DISCONNECT(%d) although the peer did nothing wrong (op %d)" % (r, n + 1)]
                return []
            if t == 0x40 or (t == 0x50 and r >= 0x80):
                out_pub.discard(pid)
            elif t == 0x50:
                recd.add(pid)
            elif t == 0x70 and r == 0:
                out_pub.discard(pid)
                recd.discard(pid)
            elif t in (0x90, 0xB0):
                out_other.discard(pid)
        if fatal is not None:
            return []
    return []


def p14(v, case, obs):
    """C11: a packet whose identifier is still in use is never delivered.  Read off the handler invocations:
    when a handler is invoked for id X, the previous handler invoked for X must have completed (its completion
    operation was given at or before this step), and if that one was a successful QoS 2 delivery the peer must
    at least have sent the PUBREL for X -- otherwise the earlier exchange cannot have ended, whatever the order in
    which the endpoint got to read the packets."""
    if obs == "9999":
        return []
    fields = [[int(t) for t in f.split(",")] for f in case.split(";")]
    ops = fields[1:]
    of = obs.split(";")
    if len(of) != len(ops):
        return []
    done_at = {}          # handler -> (index of its completion op, result)
    for n, op in enumerate(ops):
        if op[0] == 2 and len(op) >= 3 and op[1] not in done_at:
            done_at[op[1]] = (n, op[2])
    rel_at = {}           # id -> index of the first PUBREL sent
    for n, op in enumerate(ops):
        if op[0] == 1 and op[1] == 4 and len(op) >= 3:
            rel_at.setdefault(op[2], n)
    last = {}             # id -> (handler, qos) of the latest invocation
    for n, f in enumerate(of):
        try:
            wire, hs, ps, stop1, nstop, is_open = I.parse_obs(f)
        except ValueError:
            return []
        for (h, qos, pid, topic, plen, retain) in hs:
            if h >= 1000 or not pid:
                continue
            if pid in last:
                h0, q0 = last[pid]
                d = done_at.get(h0)
                if d is None or d[0] > n:
                    return ["P14 handler %d invoked for id %d while handler %d for the same id has not completed "
                            "(op %d)" % (h, pid, h0, n + 1)]
                if q0 == 2 and d[1] == 0 and rel_at.get(pid, len(ops)) > n:
                    return ["P14 handler %d invoked for id %d although the QoS 2 exchange of handler %d was not "
                            "released (no PUBREL sent yet, op %d)" % (h, pid, h0, n + 1)]
            last[pid] = (h, qos)
    return []


def p15(v, case, obs):
    """C18 at dispatcher level: a SUBSCRIBE / UNSUBSCRIBE whose filter list contains a malformed filter never
    reaches the protocol service: the invocations of kind Subscribe (Unsubscribe) cannot outnumber the
    SUBSCRIBE (UNSUBSCRIBE) packets sent with well-formed filters only (templates 1, 2)"""
    if obs == "9999":
        return []
    fields = [[int(t) for t in f.split(",")] for f in case.split(";")]
    ops = fields[1:]
    of = obs.split(";")
    if len(of) != len(ops):
        return []
    sent = {2: 0, 3: 0}
    seen = {2: 0, 3: 0}
    for n, (op, f) in enumerate(zip(ops, of)):
        try:
            wire, hs, ps, stop1, nstop, is_open = I.parse_obs(f)
        except ValueError:
            return []
        if op[0] == 1 and op[1] in (6, 7) and len(op) >= 4 and op[3] in (1, 2):
            sent[op[1] - 4] += 1
        for (c, kind) in ps:
            if kind in seen:
                seen[kind] += 1
                if seen[kind] > sent[kind]:
                    return ["P15 the protocol service got %s number %d, only %d were sent with well-formed filters "
                            "(op %d)" % ("Subscribe" if kind == 2 else "Unsubscribe", seen[kind], sent[kind], n + 1)]
    return []


def p17(v, case, obs):
    """C03: PUBCOMP only in answer to the PUBREL of a QoS 2 PUBLISH that was handled -- a PublishRelease reaches the
    protocol service only for an id whose QoS 2 handler has completed successfully (positive PUBREC produced): the
    PublishRelease invocations can never outnumber the successfully completed QoS 2 handlers"""
    if obs == "9999":
        return []
    fields = [[int(t) for t in f.split(",")] for f in case.split(";")]
    ops = fields[1:]
    of = obs.split(";")
    if len(of) != len(ops):
        return []
    done_at = {}
    for n, op in enumerate(ops):
        if op[0] == 2 and len(op) >= 3 and op[1] not in done_at:
            done_at[op[1]] = (n, op[2])
    rels = [op[2] for op in ops if op[0] == 1 and op[1] == 4 and len(op) >= 3]
    if len(rels) != len(set(rels)):
        return []         # a repeated PUBREL may be handed over again while the first is still being handled
    q2 = []               # QoS 2 handlers invoked so far
    rel = 0
    for n, f in enumerate(of):
        try:
            wire, hs, ps, stop1, nstop, is_open = I.parse_obs(f)
        except ValueError:
            return []
        for (h, qos, pid, topic, plen, retain) in hs:
            if h < 1000 and qos == 2:
                q2.append(h)
        for (c, kind) in ps:
            if kind == 1:
                rel += 1
                ok = sum(1 for h in q2 if h in done_at and done_at[h][0] <= n and done_at[h][1] == 0)
                if rel > ok:
                    return ["P17 PublishRelease number %d reached the protocol service, only %d QoS 2 handlers have "
                            "completed successfully (op %d)" % (rel, ok, n + 1)]
    return []


def p18(v, case, obs):
    """C04 / C03: no request is silently dropped on a healthy connection.  A QoS>0 PUBLISH with a free identifier,
    a plain topic and no alias that the peer sends while everything before it was harmless (no violation, no
    failing completion) and the receive limits are not in play must reach a handler in the very step in which it
    was sent -- it cannot vanish.  (v3 servers with a receive limit and cases over the v5 receive maximum are left
    out: there reading may legitimately be paused.)"""
    if obs == "9999":
        return []
    fields = [[int(t) for t in f.split(",")] for f in case.split(";")]
    cfg, ops = fields[0], fields[1:]
    of = obs.split(";")
    if len(of) != len(ops) or len(cfg) < 5:
        return []
    if (v == 3 and cfg[3] != 0) or cfg[4] != 0:
        return []            # a gated protocol service pauses reading behind a running control call
    max_qos = cfg[0]
    rmax = (cfg[1] or 16) if v == 5 else 10 ** 9
    out_pub, out_other = set(), set()
    nctl = 0
    for n, (op, f) in enumerate(zip(ops, of)):
        try:
            wire, hs, ps, stop1, nstop, is_open = I.parse_obs(f)
        except ValueError:
            return []
        expect = None
        if op[0] == 1 and op[1] == 1 and len(op) >= 8:
            qos, pid, topic, alias = op[2], op[3] if op[2] else 0, op[4], op[5]
            if topic not in (1, 2, 3) or alias or qos > max_qos:
                return []
            if qos:
                if pid == 0 or pid in out_pub or pid in out_other or len(out_pub) >= rmax:
                    return []
                out_pub.add(pid)
                expect = (qos, pid)
        elif op[0] == 1 and op[1] in (8, 13, 14, 15):
            nctl += 1
        elif op[0] == 1 and op[1] in (6, 7) and len(op) >= 4 and op[3] in (1, 2):
            if op[2] == 0 or op[2] in out_pub or op[2] in out_other:
                return []
            out_other.add(op[2])
            nctl += 1
        elif op[0] == 2 and op[2] == 0:
            pass
        elif op[0] == 3 and op[2] in (0, 2):
            pass
        else:
            return []
        if nctl > 8:
            return []            # the control path buffers 16 packets: stay far away from it
        if any(t == 0xE0 for (t, _, _) in wire) or not is_open or nstop:
            return []
        if expect is not None and not any((q, p) == expect for (h, q, p, _t, _pl, _rt) in hs if h < 1000):
            return ["P18 PUBLISH qos %d id %d was neither handed to the handler nor answered (op %d)" % (
                expect[0], expect[1], n + 1)]
        for (t, pid, r) in wire:
            if t == 0x40 or (t == 0x50 and r >= 0x80) or (t == 0x70 and r == 0):
                out_pub.discard(pid)
            elif t in (0x90, 0xB0):
                out_other.discard(pid)
    return []


def unheld(case):
    """burst engines: operation 4,1,... (packet written, nothing runs) read as the packet operation 1,..."""
    return ";".join(f[2:] if f.startswith("4,1,") or f == "4,1" else f for f in case.split(";"))


def p19(v, case, obs):
    """C12 on a real v3 server: never more publish handlers executing at once than max_receive, however the frames
    are spread over reads (handlers are numbered in call order; handler h runs from its invocation until the
    operation 2,h that lets it complete, or not at all when that operation came first)"""
    if obs == "9999" or v != 3:
        return []
    fields = [[int(t) for t in f.split(",")] for f in case.split(";")]
    cfg, ops = fields[0], fields[1:]
    of = obs.split(";")
    if len(of) != len(ops) or len(cfg) < 5 or cfg[3] == 0:
        return []
    opened, running = set(), set()
    for n, (op, f) in enumerate(zip(ops, of)):
        try:
            wire, hs, ps, stop1, nstop, is_open = I.parse_obs(f)
        except ValueError:
            return []
        if op and op[0] == 2 and len(op) >= 2:
            opened.add(op[1])
            running.discard(op[1])
        for (h, *_r) in hs:
            if h < 1000 and h not in opened:
                running.add(h)
        if len(running) > cfg[3]:
            return ["P19 %d publish handlers are executing at once (%s) max_receive is %d (op %d)" % (
                len(running), sorted(running), cfg[3], n + 1)]
    return []


def p20(v, case, obs):
    """C12: when handlers finish, reading resumes -- every packet the peer sent is eventually handled.  Clean cases
    only: server, library protocol service, nothing but PUBLISH packets with plain topics and distinct identifiers
    (QoS within the limit), every handler let through with Ok, within the v5 Receive Maximum: at the end every
    PUBLISH has been handed to a handler."""
    if obs == "9999":
        return []
    fields = [[int(t) for t in f.split(",")] for f in case.split(";")]
    cfg, ops = fields[0], fields[1:]
    of = obs.split(";")
    if len(of) != len(ops) or len(cfg) < 5 or cfg[4] != 0:
        return []
    rmax = (cfg[1] or 16) if v == 5 else 10 ** 9
    ids, sent, gates, seen = set(), 0, set(), 0
    unacked = set()
    for n, (op, f) in enumerate(zip(ops, of)):
        try:
            wire, hs, ps, stop1, nstop, is_open = I.parse_obs(f)
        except ValueError:
            return []
        if nstop or not is_open or any(t == 0xE0 for (t, _, _) in wire):
            return []
        if op[0] == 1 and op[1] == 1 and len(op) >= 8:
            qos, pid, topic, alias = op[2], op[3] if op[2] else 0, op[4], op[5]
            if topic not in (1, 2, 3) or alias or qos > cfg[0] or (qos and (pid == 0 or pid in ids)):
                return []
            if qos:
                ids.add(pid)
                unacked.add(pid)
                if len(unacked) > rmax:
                    return []
            sent += 1
        elif op[0] == 2 and len(op) >= 3 and op[2] == 0:
            gates.add(op[1])
        else:
            return []
        seen += sum(1 for (h, *_r) in hs if h < 1000)
        for (t, pid, r) in wire:
            if t == 0x40 or (t == 0x50 and r >= 0x80) or t == 0x70:
                unacked.discard(pid)
    if gates >= set(range(1, sent + 1)) and seen < sent:
        return ["P20 the peer sent %d PUBLISH packets and every handler was let through but only %d were handled "
                "(op %d)" % (sent, seen, len(ops))]
    return []


RESP_OF = {1: None, 4: 0x70, 6: 0x90, 7: 0xB0, 8: 0xD0}


def p16(v, case, obs):
    """C04 at connection level: the responses the peer receives are in the order of the requests they answer.
    Requests: PUBLISH QoS 1 -> PUBACK, QoS 2 -> PUBREC, PUBREL -> PUBCOMP, SUBSCRIBE -> SUBACK, UNSUBSCRIBE ->
    UNSUBACK, PINGREQ -> PINGRESP.  Only cases in which every (response type, id) is requested once (PINGREQ
    may repeat: matched first-in first-out); the immediate 'identifier in use' answers (reason 0x91) do not go
    through the response queue and are left out."""
    if obs == "9999":
        return []
    fields = [[int(t) for t in f.split(",")] for f in case.split(";")]
    ops = fields[1:]
    of = obs.split(";")
    if len(of) != len(ops):
        return []
    reqs = []            # (key, arrival index)
    keys = set()
    ids_seen = set()
    for n, op in enumerate(ops):
        if op[0] != 1:
            continue
        key = None
        if op[1] == 1 and len(op) >= 8 and op[2] in (1, 2):
            key = (0x40 if op[2] == 1 else 0x50, op[3])
        elif op[1] in (4, 6, 7) and len(op) >= 3:
            key = (RESP_OF[op[1]], op[2])
        elif op[1] == 8:
            key = (0xD0, 0)
        if key is None:
            continue
        if key[0] != 0xD0:
            # every packet id is used by one request only (whatever its type): with a reused id the answer to one
            # request can look like the answer to the other (0x91 refusals, PUBACK for a QoS 2 PUBLISH ..)
            if key in keys or key[1] in ids_seen:
                return []
            keys.add(key)
            ids_seen.add(key[1])
        reqs.append((key, n))
    pending = list(reqs)
    last = -1
    for n, f in enumerate(of):
        try:
            wire, hs, ps, stop1, nstop, is_open = I.parse_obs(f)
        except ValueError:
            return []
        if nstop or not is_open or any(t == 0xE0 for (t, _, _) in wire):
            # the step in which the connection ends: responses still owed may be dropped by the teardown, and
            # PINGRESPs cannot be told apart -- what is written there is not judged
            break
        for (t, pid, r) in wire:
            if t not in (0x40, 0x50, 0x70, 0x90, 0xB0, 0xD0) or r == 0x91:
                continue
            key = (t, pid if t != 0xD0 else 0)
            # (only requests that have been sent by now: a response cannot answer a later request)
            k = next((j for j, (kk, at) in enumerate(pending) if kk == key and at <= n), None)
            if k is None:
                continue
            idx = pending[k][1]
            del pending[k]
            if idx < last:
                return ["P16 the response %#x id %d (request at op %d) was written after the response to a later "
                        "request (op %d)" % (t, pid, idx + 1, last + 1)]
            last = idx
    return []


class InbPart(Part):
    SHRINK_FIELDS_FIRST = True
    SHRINK_FIELDS_ONLY = True
    NO_SHRINK_FIELDS = (0,)
    project_is_identity = True
    vm_slice = 60
    ver = 3
    want = ()

    def py_oracle(self, case, obs):
        if obs == "9999":
            # a panic of the connection task: C16 by its statement; C03 / C04 because the acknowledgements and
            # responses owed at that moment are never written
            return "0,panic" if any(w in self.want for w in ("C16", "C03", "C04")) else "1"
        if self.engine in ("inb3b", "inb5b"):
            # burst engines: the scans that do not depend on which operation a packet was handled in
            c2 = unheld(case)
            bad = []
            if "C12" in self.want:
                bad += p19(self.ver, c2, obs) + p20(self.ver, c2, obs)
                if self.engine == "inb5b":
                    bad += [b.replace("P12 ", "P13 ") for b in p12(self.ver, c2, obs) if "147" in b]
            if "C04" in self.want:
                bad += p16(self.ver, c2, obs)
            if "C17" in self.want:
                bad += p9(self.ver, c2, obs)
            for b in bad:
                return "0," + b.split(" ")[0] + "," + b.replace(",", " ").replace(";", " ")[:160]
            return "1"
        bad = []
        if self.engine.startswith("inb"):
            try:
                bad = I.check_case(self.ver, case, obs)
            except (ValueError, IndexError, KeyError):
                bad = []
        if "C17" in self.want:
            bad = bad + p9(self.ver, case, obs)
        routed = self.engine.startswith("inb") or case.split(";")[0].endswith(",1")   # clients: router mode only
        if ("C11" in self.want or "C03" in self.want) and routed:
            bad = bad + p10(self.ver, case, obs)
        if "C15" in self.want and self.engine in ("inb5", "cli5"):
            bad = bad + p12(self.ver, case, obs, client=self.engine == "cli5")
        if "C11" in self.want and routed:
            bad = bad + p14(self.ver, case, obs)
        if "C18" in self.want and self.engine.startswith("inb"):
            bad = bad + p15(self.ver, case, obs)
        if "C03" in self.want or "C11" in self.want:
            bad = bad + p17(self.ver, case, obs)
        if "C04" in self.want and self.engine.startswith("inb"):
            bad = bad + p16(self.ver, case, obs) + p18(self.ver, case, obs)
        elif "C04" in self.want and self.engine.startswith("cli"):
            bad = bad + p16(self.ver, case, obs)      # the client role answers the broker's requests in order too
        elif "C03" in self.want and self.engine.startswith("inb"):
            bad = bad + p18(self.ver, case, obs)
        if "C12" in self.want and self.engine == "inb3":
            bad = bad + p19(self.ver, case, obs)
        elif "C12" in self.want and self.engine in ("inb5", "cli5"):
            # receive maximum: 0x93 for a peer within its quota, or another code for a peer over it
            bad = bad + [b.replace("P12 ", "P13 ") for b in p12(self.ver, case, obs, client=self.engine == "cli5")
                         if "147" in b]
        for b in bad:
            code = b.split(" ")[0]
            if code in ("P6", "P7"):
                continue               # imprecise for peers that release before the PUBREC (see DESIGN 10.3)
            prop = CLAUSE_OF.get(code, ("?", ""))[0]
            if prop in self.want or (code in ("P10", "P11") and "C03" in self.want) \
                    or (code == "P17" and "C11" in self.want) or (code == "P18" and "C03" in self.want):
                for k, name in KNOWN.items():
                    if b.startswith(k):
                        return "0,known," + name
                return "0," + code + "," + b.replace(",", " ").replace(";", " ")[:160]
        return "1"

    def nontrivial(self, case, obs):
        return ",254," in "," + obs and any(f.split(",")[0] in ("2", "3") for f in case.split(";")[1:])

    def classify(self, case, obs):
        if obs == "9999":
            return "panic"
        last = obs.split(";")[-1].split(",")
        return "open" if last[-1] == "1" else "closed"


def make_parts(tier, rng, want, clients=True):
    scale = 0.12 if tier == "quick" else 1.0
    parts = []
    for v in (3, 5):
        p = InbPart("server-v%d" % v, "inb%d" % v, G.generate(v, rng, scale=scale), shards=16, has_oracle=False,
                    rule="alphabet sequences, id histories, alias sequences, bursts, handler outcomes, QoS2 flows, "
                         "control stress, shutdown, random")
        p.ver, p.want = v, tuple(want)
        parts.append(p)
        if clients:
            c = InbPart("client-v%d" % v, "cli%d" % v, G.generate(v, rng, scale=scale, role="client"), shards=16,
                        has_oracle=False, rule="client flows + the server families replayed against the client role")
            c.ver, c.want = v, tuple(want)
            parts.append(c)
    return parts


def burst_parts(tier, rng, want):
    """servers only, engines inb3b / inb5b (operation 4 = a packet written without letting anything run)"""
    n = 700 if tier == "quick" else 6000
    parts = []
    for v in (3, 5):
        p = InbPart("burst-server-v%d" % v, "inb%db" % v, G.gen_held_bursts(v, rng, n), shards=16, has_oracle=False,
                    rule="runs of 1..9 packets written back to back and read in one go, receive limit 1..4 or none, "
                         "gated handlers completing in every order")
        p.ver, p.want = v, tuple(want)
        parts.append(p)
    return parts


def replay_parts(rp, want):
    p = InbPart("replay", rp["engine"], [rp["case"]], shards=1, has_oracle=False)
    p.ver = 5 if "5" in rp["engine"] else 3
    p.want = tuple(want)
    return [p]


def known_signature(part, case, impl_obs, oracle):
    f = oracle.split(",")
    if len(f) >= 3 and f[1] == "known":
        return f[2]
    return None


def clause_text(part, oracle):
    f = oracle.split(",")
    code = f[1] if len(f) > 1 else ""
    return CLAUSE_OF.get(code, ("", "oracle verdict " + oracle))[1] + (": " + f[2] if len(f) > 2 else "")
