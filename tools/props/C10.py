"""C10 -- decoding is independent of fragmentation; streamed payloads arrive intact."""
import gen_codec3 as G3
import gen_codec5 as G5
from props import codec_common as cc

RULE = ("streams of valid packets delivered under many cut sets (every single cut, byte-at-a-time, random sets) "
        "and min_chunk settings; for each stream the item sequence with payload pieces glued together must be "
        "the same for every fragmentation (checked by comparing with the whole-stream delivery), pieces add up "
        "to the declared size with exactly one final piece; non-trivial = a stream with a PUBLISH whose "
        "payload was delivered in more than one piece")
ASSUMPTIONS = ["connection level (handler reads the payload through ntex-util bstream) is not covered by this check"]
PARTIAL = ["connection-level clause (reader pace, max payload buffer) is not modelled: ntex-util bstream"]
USES_GEN = False


class FragMixin:
    def nontrivial(self, case, obs):
        return ";3," in ";" + obs


class F3(FragMixin, cc.Dec3Part):
    pass


class F5(FragMixin, cc.Dec5Part):
    pass


def normalise(obs):
    """glue payload pieces: list of (kind, header, payload bytes)"""
    out = []
    for f in obs.split(";"):
        h = f.split(",")
        if h[0] == "3" and out and out[-1][0] == "2":
            out[-1][2].extend(h[2:])
        elif h[0] == "2":
            out.append(["2", None, None])
            out[-1][1] = f
            out[-1][2] = []
        elif h[0] in ("1", "4"):
            out.append([h[0], f, []])
    return out


def regroup(cases):
    """group cases by (config minus cuts, stream): returns {key: [indices]}"""
    groups = {}
    for i, c in enumerate(cases):
        f = c.split(";")
        if len(f) >= 3:
            groups.setdefault((f[0].split(",")[0], f[2]), []).append(i)
    return groups


def parts(tier, rng):
    n3 = cc.sized(tier, 60, 600)
    n5 = cc.sized(tier, 25, 250)
    p3 = F3("v3-fragmentations", "dec3", G3.gen_dec_valid(rng, n3) + G3.gen_dec_payload(rng, n3),
            rule="valid streams x cut sets x min_chunk")
    p5 = F5("v5-fragmentations", "dec5", G5.dec5_valid(rng, n5 * 10), rule="valid streams x cut sets x min_chunk")
    return [p3, p5]


def replay_parts(rp):
    cls = {"dec3": F3, "dec5": F5}[rp.get("engine", "dec3")]
    return [cls("replay", rp["engine"], [rp["case"]], has_oracle=False)]


def known_signature(part, case, impl_obs, oracle):
    return None


def clause_text(part, oracle):
    f = oracle.split(";")[0].split(",")
    return cc.DEC_CLAUSES.get(f[1] if len(f) > 1 else "", "oracle verdict " + oracle)
