"""C10 -- decoding is independent of fragmentation; streamed payloads arrive intact."""
import gen_codec3 as G3
import gen_codec5 as G5
import gen_payload as GP
from props import codec_common as cc
from props.base import Part

RULE = ("streams of valid packets delivered under many cut sets (every single cut, byte-at-a-time, random sets) "
        "and min_chunk settings; for each stream the item sequence with payload pieces glued together must be "
        "the same for every fragmentation (checked by comparing with the whole-stream delivery), pieces add up "
        "to the declared size with exactly one final piece; non-trivial = a stream with a PUBLISH whose "
        "payload was delivered in more than one piece")
ASSUMPTIONS = ["connection level: Payload over ntex-util's bstream channel is modelled (Model/Payload.v) for the "
               "reader side; the sender-side back-pressure (max payload buffer -> dispatcher pauses reading) is "
               "observed only through the NEED_READ flag, PayloadSender exposes no poll_ready to compare"]
PARTIAL = ["sender-side readiness of bstream (how the dispatcher is paused when the payload buffer is full) is "
           "not compared with the implementation"]
USES_GEN = False
PROPS_FILES = ["C10", "C10pl"]


class FragMixin:
    def nontrivial(self, case, obs):
        return ";3," in ";" + obs

    def batch_oracle(self, cases, impl, verdicts):
        """fragmentation independence proper: all deliveries of the same stream (same max_size) must give the same
        packets, with the payload pieces of each PUBLISH glued together; runs that end inside a message are compared
        up to that message"""
        verdicts = list(verdicts)
        groups = {}
        for i, c in enumerate(cases):
            f = c.split(";")
            if len(f) >= 3 and verdicts[i].startswith("1"):
                groups.setdefault((f[0].split(",")[0], f[2]), []).append(i)
        for key, idx in groups.items():
            if len(idx) < 2:
                continue
            norm = []
            for i in idx:
                o = impl[i]
                n = normalise(o, self)
                last = o.split(";")[-1].split(",")
                complete = last[0] == "5" and last[2] == "0"
                norm.append((n, complete, o.split(";")[-1] if last[0] == "4" else None))
            ref = None
            for n, complete, err in norm:
                if complete or err:
                    ref = (n, err)
                    break
            if ref is None:
                continue
            for i, (n, complete, err) in zip(idx, norm):
                a = [(x[0], x[1], tuple(x[2])) for x in n]
                b = [(x[0], x[1], tuple(x[2])) for x in ref[0]]
                if (complete or err) and (a != b):
                    verdicts[i] = "0,11"
        return verdicts


class F3(FragMixin, cc.Dec3Part):
    pass


class F5(FragMixin, cc.Dec5Part):
    pass


def normalise(obs, part=None):
    """glue payload pieces: list of [kind, header text, payload bytes]; the PUBLISH header text excludes the
    length and bytes of the first payload piece (they depend on the fragmentation)"""
    out = []
    for f in obs.split(";"):
        h = f.split(",")
        if h[0] == "3" and out and out[-1][0] == "2":
            out[-1][2].extend(h[2:])
        elif h[0] == "2":
            pr = part.parse_publish_item(h) if part is not None else None
            if pr is None:
                out.append(["2", f, []])
            else:
                plen = pr[1]
                out.append(["2", ",".join(h[:len(h) - plen - 1]), list(h[len(h) - plen:]) if plen else []])
        elif h[0] in ("1", "4"):
            out.append([h[0], f, []])
    return out


def regroup(cases):
    """group cases by (config minus cuts, stream): returns {key: [indices]}"""
    groups = {}
    for i, c in enumerate(cases):
        f = c.split(";")
        if len(f) >= 3:
            groups.setdefault((f[0].split(",")[0], f[2]), []).append(i)
    return groups


class PlPart(Part):
    """engine payload (41): Payload::read / read_all over the bstream channel, any feed / poll schedule"""
    has_oracle = False
    project_is_identity = True
    SHRINK_FIELDS_FIRST = True
    SHRINK_FIELDS_ONLY = True
    NO_SHRINK_FIELDS = (0,)

    def py_oracle(self, case, obs):
        """spec level, independent of the model: whatever the handler holds is a prefix of the bytes sent; a
        reader that finished Ok after the dispatcher's eof (nothing fed afterwards) holds all of them"""
        if obs in ("9999",):
            return "0,21"
        if obs in ("9998", "9997"):
            return "1"
        f = case.split(";")
        try:
            mode, _, first = (int(x) for x in f[0].split(","))
        except ValueError:
            return "1"
        ops = f[1:]
        fs = [o.split(",") for o in obs.split(";")]
        if len(fs) != len(ops):
            return "1"
        sent, ctr = [], 0
        for _ in range(min(first, 4096)):
            sent.append(ctr % 256)
            ctr += 1
        eof = False
        fed_after_eof = False
        err = False
        took = False
        for i, (o, w) in enumerate(zip(ops, fs)):
            if o.startswith("1,"):
                n = min(int(o.split(",")[1]), 4096)
                if mode <= 1:
                    for _ in range(n):
                        sent.append(ctr % 256)
                        ctr += 1
                    fed_after_eof = fed_after_eof or eof
            elif o == "2":
                eof = True
            elif o == "3":
                err = True
            elif o == "5":
                took = True
            try:
                status, held = int(w[0]), [int(x) for x in w[4:]]
            except (ValueError, IndexError):
                return "1"
            if mode in (1, 3) and status != 1:
                held = []
            if held != sent[:len(held)]:
                return "0,22,%d" % i
            if status == 1 and mode <= 1 and not fed_after_eof and not err and not took and held != sent:
                return "0,23,%d" % i
            if status == 1 and mode <= 1 and not eof:
                return "0,24,%d" % i
        return "1"

    def nontrivial(self, case, obs):
        # streamed, >= 2 chunks, the reader suspended at least once, finished Ok
        if obs in ("9999", "9998", "9997"):
            return False
        f = case.split(";")
        mode, _, first = (int(x) for x in f[0].split(","))
        ops = f[1:]
        fs = [o.split(",") for o in obs.split(";")]
        if mode > 1 or fs[-1][0] != "1":
            return False
        chunks = (1 if first else 0) + sum(1 for o in ops if o.startswith("1,"))
        prev, pend = "0", False
        for o, w in zip(ops, fs):
            if o == "4" and w[0] == "0" and w[3] == prev:
                pend = True
            prev = w[3]
        return chunks >= 2 and pend

    def classify(self, case, obs):
        if obs in ("9999", "9998", "9997"):
            return "panic/err"
        return {"0": "running", "1": "finished-ok", "2": "err-disconnected", "3": "err-consumed"}.get(
            obs.split(";")[-1].split(",")[0], "other")

    def readable(self, case):
        return {"config(mode,buf_size,first_len)": case.split(";")[0], "ops": case.split(";")[1:]}


PL_CORPUS = ["1,8,2;1,1;1,2;2;4", "1,8,2;4;1,1;4;1,2;2;4", "0,0,0;4;1,1;4;1,2;1,1;4;2;4;4", "0,8,1;1,1;3;4;4;4",
             "1,100,0;2;4", "3,0,3;5;4"]


from props import C07 as _LIFE


class AbandonPart(_LIFE.PlStopPart):
    """peer's view of a connection whose application abandons a streamed payload: nothing but the PUBLISH, its payload
    and a PINGREQ was sent and nothing closed the connection, so it must stay open without a Stop notification
    (clause 31), and once the whole payload, the PINGREQ and the handler's completion have happened the peer holds
    exactly one PUBACK and one PINGRESP per PINGREQ (clause 32)"""

    def py_oracle(self, case, obs):
        if obs == "9999":
            return "0,21,0"
        if obs in ("9998", "9997"):
            return "1"
        try:
            cfg, ops, steps = self._parse(case, obs)
        except (ValueError, IndexError):
            return "1"
        if any(o and o[0] in (3, 4, 5, 6) for o in ops):
            return "1"
        declared = min(cfg[2], 1024)
        sent, header, pinged, done = 0, False, 0, False
        got = []
        for i, (o, st) in enumerate(zip(ops, steps)):
            if o[:1] == [1] and not header and len(o) == 2:
                header, sent = True, min(o[1], declared)
            elif o[:1] == [2] and header and len(o) == 2:
                sent = min(declared, sent + o[1])
            elif o == [9] and header and sent == declared:
                pinged += 1
            elif o == [8]:
                done = True
            got += st[4:]
            if st[2] != 0 or st[3] != 1:
                return "0,31,%d" % i
        if header and pinged and done and sent == declared and sorted(got) != [64] + [208] * pinged:
            return "0,32,%d" % (len(ops) - 1)
        return "1"


def parts(tier, rng):
    n3 = cc.sized(tier, 60, 600)
    n5 = cc.sized(tier, 25, 250)
    p3 = F3("v3-fragmentations", "dec3", G3.gen_dec_valid(rng, n3) + G3.gen_dec_payload(rng, n3),
            rule="valid streams x cut sets x min_chunk")
    p5 = F5("v5-fragmentations", "dec5", G5.dec5_valid(rng, n5 * 10), rule="valid streams x cut sets x min_chunk")
    res = [p3, p5]
    # connection level, the glue between decoder and in-flight limiter: a PUBLISH delivered with an incomplete
    # payload must be flagged so that its chunks bypass the limits its own handler is holding (otherwise the
    # payload never reaches the reader for that fragmentation)
    from props import C12 as LIM
    res.append(LIM.SizedPart("limiter-view-v3", "sized3", p3.cases, rule="the same streams x cut sets"))
    res.append(LIM.SizedPart("limiter-view-v5", "sized5", p5.cases[:len(p5.cases) // 2], rule="the same streams x cut sets"))
    first = True
    for name, cases in GP.all_cases(rng, "quick" if tier == "quick" else "full"):
        res.append(PlPart("payload-" + name, "payload", (PL_CORPUS if first else []) + cases, shards=16,
                          rule="Payload::read()/read_all() under feed / eof / error / poll / take schedules: " + name))
        first = False
    # connection level, a reader that abandons the payload: the rest of the payload and the packets after it are
    # decoded and handled as for any other way of reading -- for every way of cutting the payload into pieces
    # (engines plstop3 / plstop5, operation 10)
    import gen_plstop as GPS
    from props import C07 as LIFE
    for eng in ("plstop3", "plstop5"):
        res.append(AbandonPart("abandoned-payload-" + eng[-1], eng, GPS.abandoned(rng, 300 if tier == "quick" else 3000),
                               shards=16, rule="PUBLISH header, payload pieces, the reader dropped at every point, "
                                               "PINGREQ after the payload, handler completion"))
    return res


def replay_parts(rp):
    if rp.get("engine", "").startswith("plstop"):
        return [AbandonPart("replay", rp["engine"], [rp["case"]], shards=1)]
    if rp.get("engine", "").startswith("sized"):
        from props import C12 as LIM
        return [LIM.SizedPart("replay", rp["engine"], [rp["case"]], shards=1)]
    if rp.get("engine") == "payload":
        return [PlPart("replay", "payload", [rp["case"]], shards=1)]
    cls = {"dec3": F3, "dec5": F5}[rp.get("engine", "dec3")]
    return [cls("replay", rp["engine"], [rp["case"]], has_oracle=False)]


def known_signature(part, case, impl_obs, oracle):
    return None


cc.DEC_CLAUSES["11"] = ("the packets (payload pieces glued) obtained from this fragmentation differ from those of "
                        "another fragmentation of the same byte stream")


cc.DEC_CLAUSES["31"] = ("the application abandoned a streamed payload and the connection was ended (Stop / closed) "
                        "although the peer sent nothing but the PUBLISH, its payload and a PINGREQ")
cc.DEC_CLAUSES["32"] = ("after an abandoned payload the peer does not hold exactly one PUBACK and one PINGRESP per PINGREQ although "
                        "the whole payload, the PINGREQ and the handler's completion have happened")
cc.DEC_CLAUSES["21"] = "panic while reading the payload"
cc.DEC_CLAUSES["22"] = "the handler holds bytes that are not a prefix of the payload bytes sent (lost, duplicated or reordered)"
cc.DEC_CLAUSES["23"] = "the reader finished Ok after the final chunk but does not hold every byte of the payload"
cc.DEC_CLAUSES["24"] = "the reader finished Ok before the final chunk was fed"


def clause_text(part, oracle):
    if part.engine.startswith("sized"):
        from props import C12 as LIM
        return LIM.clause_text(part, oracle)
    f = oracle.split(";")[0].split(",")
    return cc.DEC_CLAUSES.get(f[1] if len(f) > 1 else "", "oracle verdict " + oracle)
