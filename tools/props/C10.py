"""C10 -- decoding is independent of fragmentation; streamed payloads arrive intact."""
import gen_codec3 as G3
import gen_codec5 as G5
from props import codec_common as cc

RULE = ("streams of valid packets delivered under many cut sets (every single cut, byte-at-a-time, random sets) "
        "and min_chunk settings; for each stream the item sequence with payload pieces glued together must be "
        "the same for every fragmentation (checked by comparing with the whole-stream delivery), pieces add up "
        "to the declared size with exactly one final piece; non-trivial = a stream with a PUBLISH whose "
        "payload was delivered in more than one piece")
ASSUMPTIONS = ["connection level (handler reads the payload through ntex-util bstream) is not covered by this check"]
PARTIAL = ["connection-level clause (reader pace, max payload buffer) is not modelled: ntex-util bstream"]
USES_GEN = False


class FragMixin:
    def nontrivial(self, case, obs):
        return ";3," in ";" + obs

    def batch_oracle(self, cases, impl, verdicts):
        """fragmentation independence proper: all deliveries of the same stream (same max_size) must give the same
        packets, with the payload pieces of each PUBLISH glued together; runs that end inside a message are compared
        up to that message"""
        verdicts = list(verdicts)
        groups = {}
        for i, c in enumerate(cases):
            f = c.split(";")
            if len(f) >= 3 and verdicts[i].startswith("1"):
                groups.setdefault((f[0].split(",")[0], f[2]), []).append(i)
        for key, idx in groups.items():
            if len(idx) < 2:
                continue
            norm = []
            for i in idx:
                o = impl[i]
                n = normalise(o, self)
                last = o.split(";")[-1].split(",")
                complete = last[0] == "5" and last[2] == "0"
                norm.append((n, complete, o.split(";")[-1] if last[0] == "4" else None))
            ref = None
            for n, complete, err in norm:
                if complete or err:
                    ref = (n, err)
                    break
            if ref is None:
                continue
            for i, (n, complete, err) in zip(idx, norm):
                a = [(x[0], x[1], tuple(x[2])) for x in n]
                b = [(x[0], x[1], tuple(x[2])) for x in ref[0]]
                if (complete or err) and (a != b):
                    verdicts[i] = "0,11"
        return verdicts


class F3(FragMixin, cc.Dec3Part):
    pass


class F5(FragMixin, cc.Dec5Part):
    pass


def normalise(obs, part=None):
    """glue payload pieces: list of [kind, header text, payload bytes]; the PUBLISH header text excludes the
    length and bytes of the first payload piece (they depend on the fragmentation)"""
    out = []
    for f in obs.split(";"):
        h = f.split(",")
        if h[0] == "3" and out and out[-1][0] == "2":
            out[-1][2].extend(h[2:])
        elif h[0] == "2":
            pr = part.parse_publish_item(h) if part is not None else None
            if pr is None:
                out.append(["2", f, []])
            else:
                plen = pr[1]
                out.append(["2", ",".join(h[:len(h) - plen - 1]), list(h[len(h) - plen:]) if plen else []])
        elif h[0] in ("1", "4"):
            out.append([h[0], f, []])
    return out


def regroup(cases):
    """group cases by (config minus cuts, stream): returns {key: [indices]}"""
    groups = {}
    for i, c in enumerate(cases):
        f = c.split(";")
        if len(f) >= 3:
            groups.setdefault((f[0].split(",")[0], f[2]), []).append(i)
    return groups


def parts(tier, rng):
    n3 = cc.sized(tier, 60, 600)
    n5 = cc.sized(tier, 25, 250)
    p3 = F3("v3-fragmentations", "dec3", G3.gen_dec_valid(rng, n3) + G3.gen_dec_payload(rng, n3),
            rule="valid streams x cut sets x min_chunk")
    p5 = F5("v5-fragmentations", "dec5", G5.dec5_valid(rng, n5 * 10), rule="valid streams x cut sets x min_chunk")
    return [p3, p5]


def replay_parts(rp):
    cls = {"dec3": F3, "dec5": F5}[rp.get("engine", "dec3")]
    return [cls("replay", rp["engine"], [rp["case"]], has_oracle=False)]


def known_signature(part, case, impl_obs, oracle):
    return None


cc.DEC_CLAUSES["11"] = ("the packets (payload pieces glued) obtained from this fragmentation differ from those of "
                        "another fragmentation of the same byte stream")


def clause_text(part, oracle):
    f = oracle.split(";")[0].split(",")
    return cc.DEC_CLAUSES.get(f[1] if len(f) > 1 else "", "oracle verdict " + oracle)
