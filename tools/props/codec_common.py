"""Parts shared by the codec properties C01, C02, C09, C10 (engines dec3/enc3/varint/dec5/enc5/sniff)."""
import random

from props.base import Part

import gen_codec3 as G3
import gen_codec5 as G5

MAXSIZE_ERR = "10"      # DE_MaxSizeExceeded
OVERMAX_ERR = "21"      # EE_OverMaxPacketSize


def parse_fields(line):
    return [f.split(",") if f != "" else [] for f in line.split(";")]


class DecPart(Part):
    """stream decoder cases: projection keeps items, bytes left and state; of an error only whether it is
    MaxSizeExceeded (the kind the properties name), any other decode error is just `error`"""
    project_is_identity = False
    vm_slice = 150
    has_oracle = False        # Python checks below + decode-back through the model; no Coq oracle engine

    def project(self, case, obs):
        out = []
        for f in obs.split(";"):
            h = f.split(",")
            if h[0] == "4":
                out.append("4," + (MAXSIZE_ERR if len(h) > 1 and h[1] == MAXSIZE_ERR else "E"))
            else:
                out.append(f)
        return ";".join(out)

    def nontrivial(self, case, obs):
        return obs.count(";") >= 1 or obs.startswith("4")

    def classify(self, case, obs):
        last = obs.split(";")[-1].split(",")
        if obs == "9999":
            return "panic"
        if last[0] == "4":
            return "error " + (last[1] if len(last) > 1 else "?")
        return "clean items=%d" % obs.count(";")

    def py_oracle(self, case, obs):
        """C02/C10 facts checkable on the implementation's observation alone"""
        if "9999" in obs.split(";"):
            return "0,1"                                  # panic / overflow
        if obs == "95":
            return "0,14"                                 # decode keeps producing items without consuming input
        f = parse_fields(obs)
        c = parse_fields(case)
        stream_len = len(c[2]) if len(c) > 2 else 0
        cfg = [int(x) for x in c[0]] if c and c[0] else [0, 0]
        min_chunk = cfg[1] if len(cfg) > 1 else 0
        consumed_items = 0
        # per publish: pieces add up to the declared size, exactly one final piece
        cur = None
        max_size = cfg[0] if cfg else 0
        for it in f:
            if not it:
                continue
            if it[0] in ("1", "2") and max_size and len(it) > 1 and int(it[1]) > max_size:
                return "0,13"                             # a frame above the inbound maximum was delivered
            if it[0] == "2":
                if cur is not None:
                    return "0,5"                          # previous publish not finished (leak / missing final)
                parsed = self.parse_publish_item(it)
                if parsed is None:
                    return "0,9"
                declared, plen = parsed
                if plen > declared:
                    return "0,6"
                cur = [declared, plen]
                if plen == declared:
                    cur = None
            elif it[0] == "3":
                if cur is None:
                    return "0,7"                          # chunk without a publish in progress
                eof = it[1] == "1"
                ln = len(it) - 2
                cur[1] += ln
                if cur[1] > cur[0]:
                    return "0,6"
                if eof != (cur[1] == cur[0]):
                    return "0,8"                          # final flag wrong
                if not eof and ln != 0 and min_chunk != 0 and ln < min_chunk:
                    return "0,10"                         # non-final piece below min_chunk
                if eof:
                    cur = None
            elif it[0] == "5":
                left = int(it[1])
                if left > stream_len:
                    return "0,2"
        return "1"

    def parse_publish_item(self, it):
        return None


class Rd:
    def __init__(self, toks, i):
        self.t = toks
        self.i = i

    def num(self):
        v = int(self.t[self.i])
        self.i += 1
        return v

    def skip_str(self):
        n = self.num()
        self.i += n

    def opt(self, f):
        if self.num() == 1:
            f()


def whole_frames(stream):
    """the frames of a byte stream that is exactly a sequence of complete MQTT frames: [(first byte, body)], else None"""
    out, i = [], 0
    while i < len(stream):
        first, n, mul, j = stream[i], 0, 1, i + 1
        while True:
            if j >= len(stream) or j - i > 4:
                return None
            n += (stream[j] & 0x7f) * mul
            mul *= 128
            j += 1
            if stream[j - 1] & 0x80 == 0:
                break
        if j + n > len(stream):
            return None
        out.append((first, stream[j:j + n]))
        i = j + n
    return out


class Dec3Part(DecPart):
    def py_oracle(self, case, obs):
        v = DecPart.py_oracle(self, case, obs)
        if not v.startswith("1"):
            return v
        # "a frame that carries an unknown reason code is reported as an error": MQTT 3.1.1 SUBACK return codes are
        # 0, 1, 2 and 0x80 -- read off the bytes of the case, which must be a sequence of whole frames; an error
        # anywhere in the observation (this frame or an earlier one) is an acceptable outcome
        c = parse_fields(case)
        try:
            stream = [int(x) for x in c[2]] if len(c) > 2 else []
        except ValueError:
            return v
        if obs.startswith("9") or any(it and it[0] == "4" for it in parse_fields(obs)):
            return v                  # 97 / 98: the case itself is malformed (no configuration): nothing was decoded
        frames = whole_frames(stream)
        if frames and any(first == 0x90 and len(body) > 2 and any(b not in (0, 1, 2, 0x80) for b in body[2:])
                          for (first, body) in frames):
            return "0,15"
        return v

    def parse_publish_item(self, it):
        # 2, rl, dup retain qos str(topic) opt(id) payload_size, plen, bytes
        try:
            r = Rd(it, 2)
            r.num(), r.num(), r.num()
            r.skip_str()
            r.opt(r.num)
            declared = r.num()
            plen = r.num()
            if r.i + plen != len(it):
                return None
            return declared, plen
        except (ValueError, IndexError):
            return None


class Dec5Part(DecPart):
    def parse_publish_item(self, it):
        # 2, rl, dup, retain, qos, opt(packet_id), str topic, payload_size, pubprops, plen, bytes
        try:
            r = Rd(it, 2)
            r.num(), r.num(), r.num()
            r.opt(r.num)
            r.skip_str()
            declared = r.num()
            r.opt(r.num)            # topic alias
            r.opt(r.skip_str)       # correlation data
            r.opt(r.num)            # message expiry
            r.opt(r.skip_str)       # content type
            for _ in range(r.num()):
                r.skip_str()
                r.skip_str()
            r.num()                 # is_utf8_payload
            r.opt(r.skip_str)       # response topic
            for _ in range(r.num()):
                r.num()
            plen = r.num()
            if r.i + plen != len(it):
                return None
            return declared, plen
        except (ValueError, IndexError):
            return None


class EncPart(Part):
    """encoder cases: per operation `0,size,bytes...` or `1,code,left`; projection keeps the bytes and,
    of an error, only whether it is OverMaxPacketSize; `left` (bytes left by a failed op) is kept"""
    project_is_identity = False
    vm_slice = 150
    has_oracle = False
    v5 = False

    def project(self, case, obs):
        out = []
        for f in obs.split(";"):
            h = f.split(",")
            if h[0] == "1" and len(h) >= 3:
                out.append("1,%s,%s" % (OVERMAX_ERR if h[1] == OVERMAX_ERR else "E", h[2]))
            else:
                out.append(f)
        return ";".join(out)

    def nontrivial(self, case, obs):
        return any(f.startswith("0,") for f in obs.split(";"))

    def classify(self, case, obs):
        if "9999" in obs.split(";"):
            return "panic"
        return "ok=%d err=%d" % (sum(1 for f in obs.split(";") if f.startswith("0,")),
                                 sum(1 for f in obs.split(";") if f.startswith("1,")))

    def py_oracle(self, case, obs):
        """C08/C09 facts on the implementation's observation: no panic; a failed encode leaves nothing;
        a successful packet/publish op is one frame with a truthful Remaining Length equal to the reported
        size; (v5) the frame is within the peer's maximum packet size"""
        fs = parse_fields(obs)
        cs = parse_fields(case)
        if "9999" in obs.split(";"):
            return "0,1"
        if obs in ("97", "96"):
            return "1"
        peer_max = int(cs[0][0]) if (self.v5 and cs and cs[0]) else 0
        ops = cs[1:]
        owed = 0
        for op, f in zip(ops, fs):
            if not f or not op:
                continue
            if f[0] == "1":
                if len(f) >= 3 and f[2] != "0":
                    return "0,2"                          # failed encode left bytes behind
                continue
            if f[0] != "0":
                continue
            size = int(f[1])
            data = [int(x) for x in f[2:]]
            if op[0] == "3":
                owed -= len(data)
                if owed < 0:
                    return "0,6"
                continue
            if owed > 0 and op[0] == "1":
                return "0,7"                              # packet interleaved into a streamed payload
            if not data:
                return "0,3"
            # parse fixed header
            i, mult, rl = 1, 1, 0
            while True:
                if i >= len(data) or i > 4:
                    return "0,3"
                b = data[i]
                rl += (b & 127) * mult
                mult *= 128
                i += 1
                if b < 128:
                    break
            body = len(data) - i
            if op[0] == "1":
                if body != rl:
                    return "0,4"                          # Remaining Length not truthful
            else:
                if body > rl:
                    return "0,4"
                owed = rl - body
            if rl != size:
                return "0,5"                              # reported size differs
            if self.v5 and op[0] == "1" and len(cs[0]) >= 2 and cs[0][1] == "1":
                # the CONNECT declined problem information: PUBACK/PUBREC/PUBREL/PUBCOMP/SUBACK/UNSUBACK carry no
                # properties at all (their only properties are Reason String and User Property)
                t = data[0] & 0xF0
                bodyb = data[i:]
                if t in (0x40, 0x50, 0x60, 0x70) and len(bodyb) > 3 and bodyb[3] != 0:
                    return "0,10"
                if t in (0x90, 0xB0) and len(bodyb) > 2 and bodyb[2] != 0:
                    return "0,10"
            if peer_max and (i + rl) > peer_max:
                return "0,8"                              # frame above the peer's maximum packet size
        return "1"


    dec_engine = "dec3"

    def batch_oracle(self, cases, impl, verdicts):
        """C01/C09 "decoding those bytes returns a value equal to the original": the bytes the CRATE produced
        for a packet (no outbound limit, problem information allowed) are decoded by the validated decoder
        model (through the extracted driver); the dump must be the packet that was encoded"""
        import common as C
        todo = []          # (case index, op index, expected dump text, dec case)
        for ci, (c, o, v) in enumerate(zip(cases, impl, verdicts)):
            if not v.startswith("1") or o in ("97", "96") or "9999" in o.split(";"):
                continue
            cs = c.split(";")
            cfg = cs[0].split(",") if cs[0] else ["0"]
            if any(x not in ("0", "") for x in cfg[:2]):
                continue                      # a limit / no-problem-info in force: fields may be dropped
            for oi, (op, f) in enumerate(zip(cs[1:], o.split(";"))):
                h = f.split(",")
                if h[0] != "0" or not op:
                    continue
                opf = op.split(",")
                data = ",".join(h[2:])
                if opf[0] == "1":
                    todo.append((ci, oi, ",".join(opf[1:]), "0,0;;" + data, "1"))
                elif opf[0] == "2" and opf[1] == "1":
                    todo.append((ci, oi, ",".join(opf[2:]), "0,0;;" + data, "2"))
                if len(todo) > 60000:
                    break
        if not todo:
            return verdicts
        dec = C.run_model(self.dec_engine, [t[3] for t in todo])
        verdicts = list(verdicts)
        for (ci, oi, want, _, kind), got in zip(todo, dec):
            first = got.split(";")[0].split(",")
            if first[0] != kind:
                verdicts[ci] = "0,9,%d" % oi
                continue
            body = ",".join(first[2:])
            if kind == "1":
                ok = body == want
            else:
                # publish: dump followed by payload length and bytes == the op's dump + payload
                w = want.split(",")
                ok = body.split(",")[:len(self.publish_dump_prefix(w))] == self.publish_dump_prefix(w)
            if not ok and verdicts[ci].startswith("1"):
                verdicts[ci] = "0,9,%d" % oi
        return verdicts

    def publish_dump_prefix(self, w):
        return w[:4]


class Enc5Part(EncPart):
    v5 = True
    dec_engine = "dec5"


class ShortenPart(Enc5Part):
    """pairs (full, bare) of the same packet under the same peer maximum: if the crate encodes the bare packet it
    must also encode the full one (leaving out diagnostics as needed) -- a refusal with OverMaxPacketSize of the
    full packet while the bare one goes out breaks the shortening rule"""
    pairs = ()

    def batch_oracle(self, cases, impl, verdicts):
        verdicts = list(super().batch_oracle(cases, impl, verdicts))
        idx = {}
        for i, c in enumerate(cases):
            idx.setdefault(c, i)
        for full, bare in self.pairs:
            i, j = idx.get(full), idx.get(bare)
            if i is None or j is None or not verdicts[i].startswith("1"):
                continue
            fo, bo = impl[i].split(";")[0].split(","), impl[j].split(";")[0].split(",")
            if bo[0] == "0" and fo[0] == "1":
                verdicts[i] = "0,11"
        return verdicts


class SimplePart(Part):
    vm_slice = 200
    has_oracle = False

    def py_oracle(self, case, obs):
        return "0,1" if obs == "9999" else "1"


class VarintPart(SimplePart):
    """write_variable_length(n) has the documented precondition n < 2^28 (it panics beyond); after the
    oversize fixes no packet-level path calls it out of range, so a panic is a failure only inside the range"""

    def py_oracle(self, case, obs):
        f = case.split(";")
        if obs == "9999":
            if len(f) == 1 and f[0] and int(f[0]) > 268435455:
                return "1"
            return "0,1"
        return "1"


ENC_CLAUSES = {
    "1": "the encoder panicked / overflowed",
    "2": "a failed encode left bytes in the buffer",
    "3": "a successful encode did not append a well-formed fixed header",
    "4": "Remaining Length does not equal the number of bytes that follow",
    "5": "Remaining Length differs from the size the library reports",
    "6": "more payload bytes written than declared",
    "7": "a packet was written inside a streamed PUBLISH payload",
    "8": "the frame exceeds the peer's Maximum Packet Size",
    "11": "the encode was refused although the same packet without Reason String / User Properties fits the peer's "
          "maximum: leaving out the diagnostics would have been enough",
    "10": "an acknowledgement carries Reason String / User Properties although the CONNECT declined problem information",
    "9": "the bytes produced for a packet do not decode (validated decoder model) to the packet that was encoded",
}
DEC_CLAUSES = {
    "1": "the decoder panicked / overflowed",
    "2": "more bytes left in the buffer than were delivered",
    "5": "a PUBLISH was announced while the previous payload was not finished",
    "6": "payload pieces exceed the declared size",
    "7": "a payload chunk without a PUBLISH in progress",
    "8": "the final flag of a payload piece is wrong (pieces do not add up to the declared size)",
    "9": "unparsable publish item",
    "10": "a non-final payload piece is smaller than min_chunk_size",
    "14": "the decoder keeps producing items without consuming input (an endless stream of empty payload pieces)",
    "13": "a frame whose Remaining Length exceeds the configured inbound maximum was delivered instead of rejected",
    "15": "an MQTT 3.1.1 SUBACK carrying a return code other than 0, 1, 2, 0x80 was accepted (unknown reason code)",
}


def sized(tier, quick, thorough):
    return thorough if tier == "thorough" else quick
