"""C01 -- packets survive the wire: encode/decode round trip in the MQTT byte layout."""
import gen_codec3 as G3
import gen_codec5 as G5
from props import codec_common as cc

RULE = ("structured valid packets of all 13 v3 + 15 v5 kinds (every optional field/property present/absent, every "
        "enum discriminant, string lengths at 0,1,127,128,16383,16384,65535, 0..n user properties, payload sizes "
        "across the Remaining Length boundaries) (i) encoded by the crate: bytes must equal the model's bytes; "
        "(ii) encoded by an independent spec encoder (tools/gen_codec*.py, properties in shuffled order) and "
        "decoded by the crate: the decoded field dump must equal the model's; (iii) var-int boundary values; "
        "non-trivial = a packet with at least one optional field or property present")
ASSUMPTIONS = ["the Python spec encoders in tools/gen_codec3.py / gen_codec5.py are used for the search only"]
PARTIAL = ["see the theorem list in the evidence for the packet kinds whose round trip is proved so far"]
USES_GEN = True


def boundary_props():
    """v5 packets whose property block length crosses the 1/2-byte (and 2/3-byte) var-int boundary: the inner
    Property Length is computed back from the total size (var_int_len_from_size), a separate code path"""
    out = []
    lens = list(range(118, 134)) + list(range(16374, 16390))
    for L in lens:
        body = ",".join(["97"] * L)
        out.append("0,0;1,4,1,128,0,1,%d,%s" % (L, body))                       # PUBACK with a reason string
        out.append("0,0;1,14,129,0,0,1,%d,%s,0" % (L, body))                    # DISCONNECT with a reason string
        out.append("0,0;2,1,0,0,0,0,1,116,0,0,0,0,1,%d,%s,0,0,0,0" % (L, body))  # PUBLISH with a content type
        half = L // 2
        out.append("0,0;1,4,1,0,1,%d,%s,%d,%s,0" % (half, ",".join(["107"] * half), L - half,
                                                   ",".join(["118"] * (L - half))))  # PUBACK, one user property
    return out


class Conform5(cc.Dec5Part):
    """valid v5 frames written by the independent spec encoder (all legal short forms, shuffled properties),
    delivered whole: the crate must decode each to exactly the field values that were encoded (the expected dump
    comes from the generator, not from the model)"""
    expected = {}

    def py_oracle(self, case, obs):
        v = super().py_oracle(case, obs) if hasattr(super(), "py_oracle") else "1"
        if not v.startswith("1"):
            return v
        want = self.expected.get(case)
        if want is not None and obs != want:
            return "0,12"
        return "1"


cc.DEC_CLAUSES["12"] = ("a valid frame written by the spec encoder does not decode to the field values that were "
                        "encoded")


def parts(tier, rng):
    n3 = cc.sized(tier, 60, 800)
    n5 = cc.sized(tier, 40, 500)
    ccases, cexp = G5.selfcheck(rng, n5 * 2)
    conf = Conform5("v5-spec-conformance", "dec5", ccases, has_oracle=False,
                    rule="single valid frames from the spec encoder with the expected field dump")
    conf.expected = dict(zip(ccases, cexp))
    return [conf,
        cc.Enc5Part("v5-encode-valid", "enc5", G5.enc5_valid(rng, n5 * 8), has_oracle=False),
        cc.Enc5Part("v5-property-length-boundaries", "enc5", boundary_props(), has_oracle=False,
                    rule="property blocks of 118..133 and 16374..16389 bytes (var-int width boundaries)"),
        cc.EncPart("v3-encode-valid", "enc3", G3.gen_enc_valid(rng, n3), has_oracle=False),
        cc.Dec5Part("v5-decode-spec-encoded", "dec5", G5.dec5_valid(rng, n5 * 6), has_oracle=False),
        cc.Dec3Part("v3-decode-spec-encoded", "dec3", G3.gen_dec_valid(rng, n3), has_oracle=False),
        cc.VarintPart("varint", "varint", G3.gen_varint(rng, cc.sized(tier, 200, 20000)), has_oracle=False),
    ]


def replay_parts(rp):
    cls = {"enc5": cc.Enc5Part, "enc3": cc.EncPart, "dec5": cc.Dec5Part, "dec3": cc.Dec3Part}.get(
        rp.get("engine"), cc.SimplePart)
    return [cls("replay", rp["engine"], [rp["case"]], has_oracle=False)]


def known_signature(part, case, impl_obs, oracle):
    return None


def clause_text(part, oracle):
    f = oracle.split(";")[0].split(",")
    tbl = cc.ENC_CLAUSES if part.engine.startswith("enc") else cc.DEC_CLAUSES
    return tbl.get(f[1] if len(f) > 1 else "", "oracle verdict " + oracle)
