"""C19 -- handshake gate, version routing, negotiated limits (src/server.rs, v3|v5/server.rs, handshake.rs)."""
import struct

import gen_hs as G
from props.base import Part

RULE = ("first bytes x fragmentation x application answer x limits, on the combined MqttServer and on plain v3 / v5 "
        "servers: every packet type as first packet; CONNECT with every protocol name / level / flag / remaining-"
        "length variation; all single and double cuts of the first 16 bytes plus random cut sets and byte-by-byte; "
        "accept / refuse with every return or reason code / handshake service error, with packets queued behind "
        "the CONNECT; grids of configured x CONNECT-requested x handshake-overridden limits, each probed after "
        "acceptance (credit(), QoS above/at maximum, topic alias above/at maximum, frames at/above the inbound "
        "size limit, bursts against receive maximum with handlers that never complete, peer Maximum Packet Size "
        "1..25 against the CONNACK); non-trivial = the handshake service was called")
ASSUMPTIONS = [
    "the real servers run over ntex_io::testing::IoTest on a single-threaded ntex runtime; 40 scheduler yields "
    "are taken as quiescence; the application's handshake service is held on a gate until every piece of the "
    "first bytes has been written, so 'before acceptance' is a state the harness can observe",
    "bytes written by the server are compared raw (CONNACK / DISCONNECT / PUBACK bytes), the CONNECT seen by the "
    "handshake service field by field",
    "after acceptance only PUBLISH, PINGREQ, oversize frames and the idle timer are modelled (Model/EnginesHs.v); "
    "the full inbound dispatchers are the subject of C10-C13",
]
PARTIAL = [
    "enforcement of the limits after the handshake is established by probing each limit (one or two packets at "
    "and above the limit), not by a proof about the dispatchers",
    "slow handshakes (connect_timeout, protocol_version_timeout) and the keep-alive timer itself belong to C20; "
    "the keep-alive in force is observed through the v5 CONNACK and, in two replays, through real time",
    "client side (connect_inner): modelled and proved (client_apply_v5), not run against the real client",
]
EXTRA_TRUSTED = ["tools/props/C19.py py_oracle: an independent Python reading of the property, applied to the "
                 "implementation's observations (no Coq oracle for engine 38)"]

CLAUSES = {
    "1": "a handler ran or bytes were written before the application's handshake service answered",
    "2": "a publish/protocol handler ran although the application did not accept the CONNECT",
    "3": "the first packet is not an acceptable CONNECT but the connection was not ended / a handshake service ran",
    "4": "the handshake service of the wrong protocol level ran, or saw a CONNECT different from the bytes sent",
    "5": "a refused handshake was not answered with the refusing CONNACK followed by close",
    "6": "a failed handshake service wrote bytes or left the connection open",
    "7": "the send window after acceptance is not min(configured or overridden max_send, peer Receive Maximum)",
    "8": "the v5 CONNACK does not announce the limits in force (or the keep-alive imposed below the client's)",
    "9": "a probe above a limit in force was handled, or a probe within all limits ended the connection",
    "11": "C12/C19: a burst of unacknowledged QoS 1 publishes within the announced Receive Maximum was refused, or a "
          "burst over it was not answered with DISCONNECT 0x93 (the limit in force is not the announced one)",
    "10": "C15: the DISCONNECT refusing a PUBLISH over a limit does not carry the code dedicated to that limit "
          "(packet too large 0x95, QoS not supported 0x9B)",
}


# ------------------------------------------------------------------ independent wire reading
def rd_vi(b, i):
    v, m = 0, 1
    for k in range(4):
        if i + k >= len(b):
            return None
        x = b[i + k]
        v += (x & 127) * m
        m *= 128
        if x < 128:
            return v, i + k + 1
    return "bad"


def first_frame(b):
    """(type byte, body, total length) of the first frame, None if incomplete, 'bad' if the length is malformed"""
    if len(b) < 2:
        return None
    r = rd_vi(b, 1)
    if r is None or r == "bad":
        return r
    rl, i = r
    if len(b) < i + rl:
        return None
    return b[0], b[i:i + rl], i + rl


def connect_fields(body):
    """(level, keep_alive, client_id, receive_max, max_packet) of a CONNECT body accepted by the server"""
    level = body[6]
    ka = struct.unpack(">H", body[8:10])[0]
    i = 10
    rm = mp = None
    if level == 5:
        pl, i = rd_vi(body, i)
        props, i = body[i:i + pl], i + pl
        j = 0
        while j < len(props):
            pid = props[j]
            if pid == 0x21:
                rm = struct.unpack(">H", props[j + 1:j + 3])[0]
                j += 3
            elif pid == 0x27:
                mp = struct.unpack(">I", props[j + 1:j + 5])[0]
                j += 5
            elif pid == 0x11:
                j += 5
            elif pid == 0x22:
                j += 3
            elif pid in (0x17, 0x19):
                j += 2
            else:
                break
    n = struct.unpack(">H", body[i:i + 2])[0]
    return level, ka, body[i + 2:i + 2 + n], rm, mp


def connack5_props(b):
    """announced (receive_max, max_qos, alias_max, max_packet_size, server_keepalive) of a v5 CONNACK"""
    rl, i = rd_vi(b, 1)
    pl, i = rd_vi(b, i + 2)
    props = b[i:i + pl]
    out = {"rm": 65535, "qos": 2, "alias": 0, "mps": None, "ska": None}
    j = 0
    while j < len(props):
        pid = props[j]
        if pid == 33:
            out["rm"] = struct.unpack(">H", props[j + 1:j + 3])[0]
            j += 3
        elif pid == 36:
            out["qos"] = props[j + 1]
            j += 2
        elif pid == 34:
            out["alias"] = struct.unpack(">H", props[j + 1:j + 3])[0]
            j += 3
        elif pid == 39:
            out["mps"] = struct.unpack(">I", props[j + 1:j + 5])[0]
            j += 5
        elif pid == 19:
            out["ska"] = struct.unpack(">H", props[j + 1:j + 3])[0]
            j += 3
        else:
            break
    return out


def ints(field):
    return [int(x) for x in field.split(",")] if field.strip() else []


def expected_limits(cfg, v5, ka, peer_rm):
    """the negotiated values, read off the property text and the builder documentation"""
    (kind, answer, code, max_send, max_qos, max_receive, alias, max_size, ov_send, ov_ka, ov_size, ov_rm, ov_qos,
     ov_alias, ov_ska) = (cfg + [0] * 15)[:15]
    send = max_send if ov_send < 3 else ov_send - 2
    base_ka = 30 if ka == 0 else min(65535, ka + ka // 2)
    if not v5:
        return {"cap": send, "qos": min(max_qos, 2), "max_in": max_size if ov_size < 3 else ov_size - 2,
                "ka": ov_ka - 1 if ov_ka >= 1 else base_ka}
    eff_ka = ov_ka - 1 if ov_ka >= 2 else base_ka
    return {"cap": send if peer_rm is None else min(send, peer_rm),
            "qos": min(ov_qos - 1, 2) if ov_qos else min(max_qos, 2),
            "alias": ov_alias - 1 if ov_alias else alias,
            "rm": ov_rm if ov_rm else (max_receive or 65535),
            "max_in": max_size if ov_size == 0 else (0 if ov_size == 1 else ov_size - 2),
            "ka": eff_ka,
            "ska": ov_ska - 1 if ov_ska else (eff_ka if eff_ka < ka else None)}


def py_oracle(case, obs, codes=False):
    """'1' = the observation is consistent with C19, '0,<clause>' otherwise; with `codes` (property C15) the
    DISCONNECT that refuses a probe over a limit must carry the code MQTT 5 dedicates to that limit (clause 10)"""
    if obs in ("9999", "97"):
        return "0,0"
    cf = case.split(";")
    cfg, first = ints(cf[0]), bytes(ints(cf[2]))
    ops = [ints(x) for x in cf[3:]]
    of = obs.split(";")
    o0, conn, o3 = ints(of[0]), ints(of[1]), ints(of[3])
    wrote = ints(of[2])
    k = wrote.index(999)
    pre, post = bytes(wrote[:k]), bytes(wrote[k + 1:])
    kind, answer = cfg[0], cfg[1]
    hs = o0[0]
    # 1: nothing before the answer
    if o0[1] or o0[2] or pre:
        return "0,1"
    # what the peer has sent in total, op by op
    sent_after = b"".join(bytes(op[1:]) for op in ops if op and op[0] == 2)
    allsent = first + sent_after
    tails = [ints(x) for x in of[4:]]
    states = [o3] + [t[t.index(999) + 1:] for t in tails if 999 in t]
    # 3: acceptable first packet?  (the combined server cannot tell before it has 7 bytes of the body:
    # a CONNECT frame shorter than that is left to the version timeout, property C20)
    fr = first_frame(first)
    if fr not in (None, "bad"):
        t, body, _ = fr
        ok = (t == 0x10 and len(body) >= 10 and body[0:6] == b"\x00\x04MQTT" and
              ((body[6] == 4 and kind in (0, 3)) or (body[6] == 5 and kind in (0, 5))))
        undecided = kind == 0 and t == 0x10 and len(first) < 9
        if not ok and not undecided and (hs != 0 or o0[3] != 1):
            return "0,3"
    # 2: no handler unless an accepting CONNACK has been written first
    acc = False
    outs = [post] + [bytes(t[:t.index(999)]) for t in tails if 999 in t]
    seen = b""
    for w, st in zip(outs, states):
        seen += w
        acc = acc or (answer == 0 and len(seen) >= 4 and seen[0] == 0x20 and seen[3] == 0)
        if (st[0] or st[1]) and not acc:
            return "0,2"
    if hs == 0:
        # a plain, complete, well-formed CONNECT must reach the handshake service of its protocol level
        for good, lvl in ((G.connect3(), 3), (G.connect5(), 5)):
            if first[:len(good)] == good and kind in (0, lvl) and (len(cfg) < 8 or cfg[7] == 0 or cfg[7] >= len(good)):
                return "0,4"
        return "1"
    # 4: routing and the CONNECT seen
    fr = first_frame(allsent)
    if fr in (None, "bad"):
        return "0,4"
    level, ka, cid, peer_rm, peer_mp = connect_fields(fr[1])
    if (level, hs) not in ((4, 3), (5, 5)) or conn[0] != hs or conn[1] != ka:
        return "0,4"
    if conn[3] != len(cid) or bytes(conn[4:4 + len(cid)]) != cid:
        return "0,4"
    v5 = hs == 5
    first_ans = len(fr[1]) + (fr[2] - len(fr[1])) <= len(first)          # was the CONNECT complete in `first`
    ans_bytes = post if first_ans else b"".join(bytes(t[:t.index(999)]) for t in tails if 999 in t)
    ans_state = o3 if first_ans else states[-1]
    tiny = v5 and peer_mp is not None and peer_mp < 30
    # 5 / 6
    if answer == 1:
        if not ans_bytes:
            return "1" if tiny and ans_state[2] == 1 else "0,5"
        want = cfg[2]
        if v5:
            want = want if want in G.CONNACK5_RC else 128
        else:
            want = want if want <= 6 else 5
        if ans_bytes[0] != 0x20 or ans_bytes[3] != want or ans_state[2] != 1:
            return "0,5"
        return "1"
    if answer >= 2:
        return "1" if not ans_bytes and ans_state[2] == 1 else "0,6"
    if not (len(ans_bytes) >= 4 and ans_bytes[0] == 0x20 and ans_bytes[3] == 0):
        return "1" if tiny else "0,5"
    lim = expected_limits(cfg, v5, ka, peer_rm)
    # 8: announced limits
    if v5:
        ann = connack5_props(ans_bytes)
        if (ann["rm"], ann["qos"], ann["alias"], ann["ska"]) != (lim["rm"], lim["qos"], lim["alias"], lim["ska"]):
            return "0,8"
        if (ann["mps"] or 0) != lim["max_in"]:
            return "0,8"
    if not first_ans:
        return "1"
    # 7 / 9: probes, as long as the connection has seen nothing but well-understood single packets
    handlers, closed = o3[0], o3[2]
    simple = len(fr[1]) + (fr[2] - len(fr[1])) == len(first)             # nothing queued behind the CONNECT
    for op, t in zip(ops, tails):
        if op[:1] == [1]:
            if t != [lim["cap"]]:
                return "0,7"
            continue
        if op[:1] != [2] or not simple or closed:
            break
        st = t[t.index(999) + 1:]
        pf = first_frame(bytes(op[1:]))
        if v5 and pf not in (None, "bad") and pf[2] < len(op) - 1:
            # a burst in one write: k QoS 1 publishes to the held topic "h" with distinct ids, nothing else -- the
            # Receive Maximum in force is the announced one: within it nobody is refused, the first publish over it
            # is answered with DISCONNECT 0x93 (clause 11)
            rest, ids, okb = bytes(op[1:]), [], True
            while rest and okb:
                fr1 = first_frame(rest)
                if fr1 in (None, "bad") or fr1[0] != 0x32 or fr1[1][:3] != b"\x00\x01h" or len(fr1[1]) != 6:
                    okb = False
                    break
                ids.append(struct.unpack(">H", fr1[1][3:5])[0])
                rest = rest[fr1[2]:]
            if okb and len(ids) >= 2 and len(set(ids)) == len(ids) and 0 not in ids and lim["qos"] >= 1 \
                    and (not lim["max_in"] or lim["max_in"] >= 8):
                w = bytes(t[:t.index(999)])
                refused = False
                while w:
                    wf = first_frame(w)
                    if wf in (None, "bad"):
                        break
                    if wf[0] == 0xE0:
                        refused = (wf[1][0] if wf[1] else 0)
                        break
                    w = w[wf[2]:]
                if len(ids) <= lim["rm"] and (refused is not False or st[2] != 0):
                    return "0,11"
                if len(ids) > lim["rm"] and refused != 147:
                    return "0,11"
            break
        if pf in (None, "bad") or pf[2] != len(op) - 1 or (pf[0] & 0xf0) != 0x30:
            break
        tb, body, _ = pf
        qos = (tb >> 1) & 3
        tl = struct.unpack(">H", body[0:2])[0] if len(body) >= 2 else 0
        topic = body[2:2 + tl]
        if qos == 3 or len(body) < 2 + tl + (2 if qos else 0) + (1 if v5 else 0) or b"#" in topic or b"+" in topic \
                or topic == b"h" or (tb & 1):
            break
        over = (lim["max_in"] and len(body) > lim["max_in"]) or qos > lim["qos"]
        want_code = 149 if (lim["max_in"] and len(body) > lim["max_in"]) else 155
        alias = None
        if v5 and not over:
            i = 2 + tl + (2 if qos else 0)
            r = rd_vi(body, i)
            if r in (None, "bad"):
                break
            pl, j = r
            if pl == 3 and body[j] == 0x23:
                alias = struct.unpack(">H", body[j + 1:j + 3])[0]
                if alias == 0:
                    break
                over = alias > lim["alias"]
                want_code = None      # an alias above the announced maximum: "a protocol error" (C17), no code is
                                      # dedicated to it by the property (C15 lists the UNKNOWN alias)
                if not topic:
                    break
            elif pl != 0:
                break
        if over and (st[0] != handlers or st[2] != 1):
            return "0,9"
        if over and codes and v5 and want_code is not None:
            wf = first_frame(bytes(t[:t.index(999)]))
            if wf in (None, "bad") or wf[0] != 0xE0 or (wf[1][0] if wf[1] else 0) != want_code:
                return "0,10"
        if not over and (st[0] != handlers + 1 or st[2] != 0):
            return "0,9"
        break                                       # later probes depend on inbound state (ids, aliases)
    return "1"


class HsPart(Part):
    has_oracle = False
    vm_slice = 120

    def py_oracle(self, case, obs):
        return py_oracle(case, obs)

    def nontrivial(self, case, obs):
        return obs not in ("9999", "97") and not obs.startswith("0,")

    def classify(self, case, obs):
        import diff_hs
        return diff_hs.classify(case, obs)

    def readable(self, case):
        f = case.split(";")
        names = G.CFG_ORDER
        cfg = ints(f[0])
        d = " ".join("%s=%d" % (n, v) for n, v in zip(names, cfg) if v or n == "kind")
        return "%s | cuts %s | first %s | ops %s" % (d, f[1] or "-", bytes(ints(f[2])).hex(), " / ".join(f[3:]))


class ClientWindow(Part):
    """client role: after CONNACK the send window of an MQTT 5 client is the Receive Maximum the server announced
    (MQTT 3.1.1 client: the configured max_send) -- engine sink5 / sink3, role 1, whose first configuration field is
    that value; the observation's third number is the window in force"""
    has_oracle = False
    NO_SHRINK_FIELDS = (0,)
    vm_slice = 40

    def py_oracle(self, case, obs):
        if obs == "9999":
            return "0,0"
        want = int(case.split(";")[0].split(",")[0])
        for f in obs.split(";"):
            x = f.split(",")
            if len(x) > 7 and x[7] == "1" and int(x[2]) != want % 65536:
                return "0,7"
            break
        return "1"


def parts(tier, rng):
    quick = tier == "quick"
    res = []
    for eng in ("sink5", "sink3"):
        res.append(ClientWindow("client-window-" + eng, eng,
                                ["%d,1;1,1,1,0;1,2,1,0;4,1,1;2,1;2,2" % c for c in (1, 2, 3, 5, 15, 16, 17, 100, 1000, 65535)],
                                shards=1, rule="client connections whose server announces Receive Maximum c "
                                               "(v3: max_send c), two sends and an acknowledgement"))
    for name, fn in G.SUITES.items():
        if name == "cuts":
            cases = fn(rng, 300 if quick else 3000)
        elif name == "random":
            cases = fn(rng, 1200 if quick else 12000)
        else:
            cases = fn(rng)
        res.append(HsPart(name, "hs", cases, shards=16, rule=(fn.__doc__ or name).strip().split("\n")[0]))
    return res


def replay_parts(rp):
    if rp.get("engine", "hs").startswith("sink"):
        return [ClientWindow("replay", rp["engine"], [rp["case"]], shards=1)]
    return [HsPart("replay", "hs", [rp["case"]], shards=1)]


# the keep-alive refutations (C19_imposed_keepalive_announced_refuted) need real time and are kept out of the
# generated suites: tools/props/C19.py TIMED_REPLAYS, run by hand through `mv-harness hs` / `driver run 38`
TIMED_REPLAYS = [
    # v5, client keep-alive 4, application keep_alive(4): no Server Keep Alive in CONNACK, closed with
    # DISCONNECT 0x8D after 5.3 s idle although 1.5 * 4 = 6 s
    "5,0,0,16,1,16,32,0,0,5;;16,14,0,4,77,81,84,84,5,2,0,4,0,0,1,99;6,3500;6,1800",
    # v5, client keep-alive 0 (off): closed with DISCONNECT 0x8D after 31.3 s, nothing announced
    "5,0,0,16,1,16,32,0;;16,14,0,4,77,81,84,84,5,2,0,0,0,0,1,99;6,29000;6,2300",
]


def known_signature(part, case, impl_obs, oracle):
    return None


def clause_text(part, oracle):
    f = oracle.split(";")[0].split(",")
    return CLAUSES.get(f[1] if len(f) > 1 else "", "oracle verdict " + oracle)
