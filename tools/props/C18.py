"""C18 -- topic filter validation and matching follow MQTT section 4.7."""
import itertools

from props import inbound_common as IB
from props.base import Part, bstr

RULE = ("exhaustive (filter, second string) pairs over the alphabet {a,b,$,/,+,#} up to the stated lengths, "
        "plus random longer multi-byte UTF-8 levels; a case is non-trivial when the filter parses and at "
        "least one of matches_topic / matches_filter is true, or when validation rejects a string that "
        "contains a wildcard character")
ASSUMPTIONS = [
    "strings are modelled as byte lists; exact for valid UTF-8 because '/', '+', '#', '$' are ASCII",
    "cover soundness of an implementation observation is probed over all topics of length <= 5 over {a,b,$,/}",
]
PARTIAL = []

AL = [97, 98, 36, 47, 43, 35]


def strs(n, al=AL):
    out = []
    for k in range(0, n + 1):
        for t in itertools.product(al, repeat=k):
            out.append(",".join(str(x) for x in t))
    return out


class TopicPart(Part):
    def nontrivial(self, case, obs):
        f = obs.split(";")
        if len(f) == 5:
            return f[3] == "1" or f[4] == "1"
        return ("43" in case.split(";")[0].split(",")) or ("35" in case.split(";")[0].split(","))

    def classify(self, case, obs):
        f = obs.split(";")
        if len(f) == 5:
            return "parsed mt=%s mf=%s" % (f[3], f[4])
        return "rejected " + f[0]

    def readable(self, case):
        f = case.split(";")
        return {"filter": bstr(f[0]), "second": bstr(f[1])}


def rand_level(rng):
    pool = ["a", "b", "$", "é", "€", "𝄞", "sys", "$SYS", "x y", "+", "#", "", "日本"]
    k = rng.randint(1, 3)
    return "".join(rng.choice(pool) for _ in range(k)) if rng.random() < 0.5 else rng.choice(pool)


def rand_str(rng):
    n = rng.randint(1, 6)
    return "/".join(rand_level(rng) for _ in range(n))


def enc(s):
    return ",".join(str(b) for b in s.encode("utf-8"))


def corpus():
    pairs = [("+", "$a"), ("#", "$SYS/#"), ("+/#", "$SYS"), ("sport/#", "sport"), ("+/+", "/finance"),
             ("a/+/normal/+", "a/$not_sys/normal/+"), ("#", "+"), ("$SYS/#", "$SYS/"), ("a//#", "a//"),
             ("a/#/", "a"), ("a+b", "a"), ("", "a"), ("/", "/"), ("+/$a", "x/$a")]
    return [enc(f) + ";" + enc(t) for f, t in pairs]


def parts(tier, rng):
    if tier == "thorough":
        fl, tl, nrand = 5, 4, 200000
    else:
        fl, tl, nrand = 4, 3, 20000
    F = strs(fl)
    T = strs(tl)
    cases = corpus()
    cases += [f + ";" + t for f in F for t in T]
    rnd = []
    for _ in range(nrand):
        f = rand_str(rng)
        t = rand_str(rng) if rng.random() < 0.5 else f.replace("+", rng.choice(["a", "$", "é"])).replace("#", "b/c")
        rnd.append(enc(f) + ";" + enc(t))
    res = [
        TopicPart("exhaustive", "topic", cases,
                  rule="corpus + all %d filters of length <= %d x all %d strings of length <= %d" % (
                      len(F), fl, len(T), tl)),
        TopicPart("random-utf8", "topic", rnd, rule="random multi-byte levels, second string random or derived"),
    ]
    # where the validator is used: SUBSCRIBE / UNSUBSCRIBE with well-formed, malformed and mixed filter lists
    # against real v3/v5 servers (a malformed filter anywhere in the list ends the connection)
    for p in IB.make_parts(tier, rng, ("C18",), clients=False):
        keep = [c for c in p.cases if any(f.startswith("1,6,") or f.startswith("1,7,") for f in c.split(";")[1:])]
        p.cases = keep[:6000 if tier == "quick" else 60000]
        p.name = "dispatcher-filters-" + p.name
        p.rule = "inbound sequences containing a SUBSCRIBE / UNSUBSCRIBE (filter templates 1..6)"
        res.append(p)
    return res


def replay_parts(rp):
    if rp.get("engine", "topic") != "topic":
        return IB.replay_parts(rp, ("C18",))
    return [TopicPart("replay", rp.get("engine", "topic"), [rp["case"]])]


def known_signature(part, case, impl_obs, oracle):
    if isinstance(part, IB.InbPart):
        return IB.known_signature(part, case, impl_obs, oracle)
    return None


CLAUSES = {
    "1": "is_valid disagrees with the section 4.7 validity of the string",
    "2": "TopicFilter::try_from accepts/rejects against section 4.7",
    "3": "Display of the parsed filter is not the original string",
    "4": "matches_topic is not the section 4.7 answer",
    "5": "matches_filter reports a cover although some topic matched by the covered filter is not matched "
         "by the covering one (witness topic in the verdict)",
}


def clause_text(part, oracle):
    if isinstance(part, IB.InbPart):
        return IB.clause_text(part, oracle)
    f = oracle.split(";")[0].split(",")
    return CLAUSES.get(f[1] if len(f) > 1 else "", "oracle verdict " + oracle)
