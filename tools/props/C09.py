"""C09 -- encoder emits one frame, truthful length, within the peer's max packet size."""
import gen_codec3 as G3
import gen_codec5 as G5
from props import codec_common as cc

RULE = ("encoder operation sequences on one codec: packets of every kind (weighted to acks / CONNACK / DISCONNECT / "
        "SUBACK / UNSUBACK / AUTH with reason strings and many user properties) x every peer maximum 1..64 and "
        "samples up to 2^28 x request-problem-information on/off, publishes with inline/partial/no payload and "
        "chunk operations, values outside the MQTT domain; non-trivial = at least one successful encode")
ASSUMPTIONS = ["usize is 64 bit", "the reported size is read back from the emitted Remaining Length on the harness "
               "side (encoded_size is crate-private); the model reports its separate size function"]
PARTIAL = []
USES_GEN = True


def parts(tier, rng):
    n3 = cc.sized(tier, 40, 400)
    n5 = cc.sized(tier, 30, 300)
    pairs = G5.enc5_shorten_pairs(rng, max(n5 // 10, 2))
    sh = cc.ShortenPart("v5-shortening-pairs", "enc5", [c for pr in pairs for c in pr], has_oracle=False,
                        rule="limited kinds with / without diagnostics under the same peer maximum 1..80")
    sh.pairs = pairs
    return [
        sh,
        cc.Enc5Part("v5-encoder", "enc5", G5.suite_enc5(rng, n5), has_oracle=False, release_too=True,
                    rule="limits 1..64 + sampled, npi on/off, publish + chunk ops, invalid values"),
        cc.EncPart("v3-encoder", "enc3", G3.gen_enc(rng, n3), has_oracle=False, release_too=True,
                   rule="all kinds, publish + chunk ops, invalid values, max_size"),
        cc.VarintPart("varint", "varint", G3.gen_varint(rng, cc.sized(tier, 200, 5000)), has_oracle=False,
                      rule="boundary and random var-int values, encode and decode"),
    ]


def replay_parts(rp):
    cls = {"enc5": cc.Enc5Part, "enc3": cc.EncPart}.get(rp.get("engine"), cc.SimplePart)
    return [cls("replay", rp["engine"], [rp["case"]], has_oracle=False)]


def known_signature(part, case, impl_obs, oracle):
    return None


def clause_text(part, oracle):
    f = oracle.split(";")[0].split(",")
    return cc.ENC_CLAUSES.get(f[1] if len(f) > 1 else "", "oracle verdict " + oracle)
