"""C04 -- responses leave in the order their requests arrived (io.rs response queue)."""
import itertools

from props import inbound_common as IB
from props import sink_common as SC
from props.base import Part

USES_GEN = True

RULE = ("schedules of request arrivals (handler ready at once with/without a response, or deferred) and "
        "completions of deferred handlers: exhaustive for n <= N requests (every mode vector, every "
        "interleaving of completions with later arrivals, single and batched arrivals), random for "
        "larger n; non-trivial = at least two deferred handlers completing out of arrival order")
ASSUMPTIONS = [
    "the real io::Dispatcher is driven through the cfg(ntex_mqtt_verif) hook with a one-byte-per-frame codec "
    "over ntex_io::testing::IoTest; a scheduler round-robin of 40 yields is taken as quiescence",
    "BufferService(16)+InFlightService(1) around the control service are ntex-util components: not modelled",
]
PARTIAL = ["handler errors: only the prefix property is proved (C04_prefix_after_error); cases with errors are "
           "not generated for the differential run",
           "write back-pressure episodes are not generated yet"]


def interleavings(n, modes, results):
    """all op sequences: arrivals 1..n in order; Done(i) for deferred i anywhere after Arrive(i)"""
    deferred = [i for i in range(1, n + 1) if modes[i - 1] == 0]
    out = []

    def rec(seq, next_arr, pending):
        if next_arr > n and not pending:
            out.append(list(seq))
            return
        if next_arr <= n:
            seq.append((1, next_arr, modes[next_arr - 1]))
            rec(seq, next_arr + 1, pending | ({next_arr} if next_arr in deferred else set()))
            seq.pop()
        for d in sorted(pending):
            seq.append((2, d, results[d - 1]))
            rec(seq, next_arr, pending - {d})
            seq.pop()

    rec([], 1, frozenset())
    return out


def fmt(seq):
    return ";".join(",".join(str(x) for x in op) for op in seq)


def batch_variants(seq, rng):
    """merge runs of consecutive arrivals into one write (op 3)"""
    res = []
    i = 0
    cur = []
    while i < len(seq):
        if seq[i][0] == 1:
            j = i
            run = []
            while j < len(seq) and seq[j][0] == 1:
                run += [seq[j][1], seq[j][2]]
                j += 1
            if j - i > 1:
                cur.append(tuple([3] + run))
            else:
                cur.append(seq[i])
            i = j
        else:
            cur.append(seq[i])
            i += 1
    return cur


class RQPart(Part):
    SHRINK_FIELDS_FIRST = True
    def nontrivial(self, case, obs):
        ops = [f.split(",") for f in case.split(";")]
        done = [int(o[1]) for o in ops if o[0] == "2"]
        return any(a > b for a, b in zip(done, done[1:]))

    def classify(self, case, obs):
        return "n=%d" % sum((len(f.split(",")) - 1) // 2 if f.startswith("3") else (1 if f.startswith("1") else 0)
                            for f in case.split(";"))


def parts(tier, rng):
    nmax = 4 if tier == "quick" else 5
    cases = ["1,1,0;1,2,0;1,3,1;2,2,0;2,1,0", "1,1,1;1,2,0;1,3,0;2,3,0;2,2,1", "3,1,0,2,0,3,0;2,3,0;2,1,0;2,2,0"]
    seen = set(cases)
    for n in range(1, nmax + 1):
        for modes in itertools.product([0, 1, 2], repeat=n):
            nd = sum(1 for m in modes if m == 0)
            res_choices = [tuple([0] * n)]
            if nd and n <= 3:
                res_choices = list(itertools.product([0, 1], repeat=n))
            elif nd:
                res_choices = [tuple([0] * n), tuple(rng.choice([0, 1]) for _ in range(n))]
            for results in res_choices:
                if n == 5 and nd >= 4 and rng.random() < 0.7:
                    continue
                for seq in interleavings(n, modes, results):
                    for s in (seq, batch_variants(seq, rng)):
                        c = fmt(s)
                        if c not in seen:
                            seen.add(c)
                            cases.append(c)
    rnd = []
    for _ in range(300 if tier == "quick" else 3000):
        n = rng.randint(5, 12)
        modes = [rng.choice([0, 0, 1, 2]) for _ in range(n)]
        seq = []
        pending = []
        nxt = 1
        while nxt <= n or pending:
            if nxt <= n and (not pending or rng.random() < 0.55):
                seq.append((1, nxt, modes[nxt - 1]))
                if modes[nxt - 1] == 0:
                    pending.append(nxt)
                nxt += 1
            else:
                d = pending.pop(rng.randrange(len(pending)))
                seq.append((2, d, rng.choice([0, 0, 1])))
        rnd.append(fmt(seq if rng.random() < 0.5 else batch_variants(seq, rng)))
    res = [RQPart("exhaustive", "respq", cases, shards=16,
                  rule="all mode vectors x completion interleavings, n <= %d, single and batched arrivals" % nmax),
           RQPart("random-long", "respq", rnd, shards=16, rule="random schedules with 5..12 requests")]
    # connection level: real v3/v5 servers, the responses (PUBACK / PUBREC / PUBCOMP / SUBACK / UNSUBACK /
    # PINGRESP) seen by the peer are in the order of the requests they answer
    for p in IB.make_parts(tier, rng, ("C04",), clients=True):
        p.name = "connection-" + p.name
        res.append(p)
    # .. and when the requests reach the server in one read (burst engines)
    for p in IB.burst_parts(tier, rng, ("C04",)):
        p.name = "connection-" + p.name
        res.append(p)
    # .. with the outbound side busy: an inbound PUBLISH while the send window is full / write back-pressure is on
    # (sink engines, operation 17) still gets its PUBACK
    for p in SC.make_parts(tier, rng, {4}):
        if p.name.endswith("role0"):
            p.cases = [c for c in p.cases if ";17," in c]
            p.name = "busy-sink-" + p.name
            res.append(p)
    return res


def replay_parts(rp):
    if rp.get("engine", "respq").startswith("sink"):
        return SC.replay_parts(rp, {4})
    if rp.get("engine", "respq") != "respq":
        return IB.replay_parts(rp, ("C04",))
    return [RQPart("replay", "respq", [rp["case"]], shards=1)]


def known_signature(part, case, impl_obs, oracle):
    if isinstance(part, SC.SinkPart):
        return None
    if isinstance(part, IB.InbPart):
        return IB.known_signature(part, case, impl_obs, oracle)
    return None


def clause_text(part, oracle):
    if isinstance(part, SC.SinkPart):
        return SC.clause_text(part, oracle)
    if isinstance(part, IB.InbPart):
        return IB.clause_text(part, oracle)
    f = oracle.split(";")[0].split(",")
    return ("after operation %s the bytes written to the peer are not the responses of the longest completed "
            "prefix of requests in arrival order" % (f[1] if len(f) > 1 else "?"))
