"""C03 -- inbound property (see properties.jsonl); parts, oracle and clauses in props/inbound_common.py"""
from props import inbound_common as B

RULE = ("sequences of peer packets (all packet kinds, ids 1..3, QoS 0/1/2, aliases, valid and invalid filters) "
        "interleaved with completions of gated publish handlers (ok / error / negative ack) and of the gated protocol "
        "service, against real v3/v5 servers and clients over the in-memory transport: all sequences up to length 3 "
        "over ~28 packet instances with all completion placements, id histories, alias sequences, receive-maximum "
        "bursts, QoS 2 flows, control-path stress, shutdown sequences, random longer ones; non-trivial = at least "
        "one handler or protocol-service completion in the case")
ASSUMPTIONS = ["handlers and the protocol service are gated by the harness; 40 scheduler rounds are taken as quiescence",
               "streamed payloads, timers and write back-pressure are not part of these cases"]
PARTIAL = ["the theorems are proved for the protocol-decision layer of Model/Inbound.v (and for the full operational "
           "model where stated in Props/C03.v); that the executor really awaits handlers and the absence of hangs are "
           "carried by the correspondence run only"]
USES_GEN = True
WANT = ("C03",)
PROPS_FILES = ["C03", "C10pl"]


def parts(tier, rng):
    res = B.make_parts(tier, rng, WANT)
    # "the handler sees exactly the payload bytes that were sent": Payload::read / read_all over the bstream channel
    # for every feed / poll schedule (engine payload, Model/Payload.v, theorems Props/C10pl.v)
    from props import C10 as FR
    import gen_payload as GP
    for name, cases in GP.all_cases(rng, "quick" if tier == "quick" else "full"):
        res.append(FR.PlPart("payload-" + name, "payload", cases, shards=16,
                             rule="Payload::read()/read_all() under feed / eof / error / poll / take schedules: " + name))
    return res


def replay_parts(rp):
    if rp.get("engine") == "payload":
        from props import C10 as FR
        return [FR.PlPart("replay", "payload", [rp["case"]], shards=1)]
    return B.replay_parts(rp, WANT)


def known_signature(part, case, impl_obs, oracle):
    if part.engine == "payload":
        return None
    return B.known_signature(part, case, impl_obs, oracle)


def clause_text(part, oracle):
    if part.engine == "payload":
        from props import C10 as FR
        return FR.clause_text(part, oracle)
    return B.clause_text(part, oracle)
