#!/usr/bin/env python3
"""check.py <property> [--tier quick|thorough] [--replay file]

Decides one property on /repo's current working tree:
  1. builds the harness against /repo (hooks on), regenerates Gen/Consts.v from the source (rs2v),
     makes the property's Coq target and audits it (Print Assumptions, forbidden vernacular,
     statement hashes);
  2. runs corpus + generated cases through the real crate (harness) and through the extracted
     model, compares the property's projection of the observations, and feeds every
     implementation observation to the property's oracle (extracted from the Spec side);
     a slice of the cases is also evaluated inside coqc with vm_compute;
  3. verdict: exit 0, or exit 1 with `VIOLATION property=<id> replay=<path>` (ending in
     no-failing-input-found when an obligation/correspondence is broken but the search found
     no input on which the implementation violates the property).
"""
import argparse
import importlib
import json
import os
import random
import sys
import time

sys.path.insert(0, os.path.dirname(os.path.abspath(__file__)))
import common as C  # noqa: E402
sys.path.insert(0, os.path.join(os.path.dirname(os.path.abspath(__file__))))


def shrink(part, case_line, fails):
    """greedy shrinking of a failing case: drop elements of each field while `fails` holds"""
    case = C.parse_case(case_line)
    improved = True
    rounds = 0
    while improved and rounds < 60:
        improved = False
        rounds += 1
        cands = []
        if getattr(part, "SHRINK_FIELDS_FIRST", False):
            # operation-list cases: drop whole operations first (the last ones first)
            for fi in range(len(case) - 1, -1, -1):
                if fi in getattr(part, "NO_SHRINK_FIELDS", ()):
                    continue
                cands.append([list(x) for k, x in enumerate(case) if k != fi])
        if not getattr(part, "SHRINK_FIELDS_ONLY", False):
            for fi, f in enumerate(case):
                if fi in getattr(part, "NO_SHRINK_FIELDS", ()):
                    continue
                for j in range(len(f)):
                    c2 = [list(x) for x in case]
                    del c2[fi][j]
                    cands.append(c2)
        if hasattr(part, "shrink_candidates"):
            cands = part.shrink_candidates(case) + cands
        if not cands:
            break
        lines = [C.show_case(c) for c in cands]
        try:
            verdicts = fails(lines)
        except C.Broken:
            break
        for c2, v in zip(cands, verdicts):
            if v:
                case = c2
                improved = True
                break
    return C.show_case(case)


def oracle_verdicts(part, cases, impl, shards=C.NPROC):
    """verdict per case: "1..." = the implementation's observation is consistent with the property.
    Coq-extracted oracle (Spec side) when the part has one, and/or a Python check of facts that can be
    read off the observation alone (used only for the search for a failing input)."""
    res = C.run_oracle(part.engine, cases, impl, shards=shards) if part.has_oracle else ["1"] * len(cases)
    if hasattr(part, "py_oracle"):
        def safe(c, a):
            try:
                return part.py_oracle(c, a)
            except (IndexError, ValueError, KeyError, TypeError):
                return "1"        # a malformed (e.g. shrunk) case or observation: no verdict from the scan
        res = [r if not r.startswith("1") else safe(c, a) for r, c, a in zip(res, cases, impl)]
    if hasattr(part, "batch_oracle"):
        res = part.batch_oracle(cases, impl, res)
    return res


_CORPUS = {}


def corpus_of(engine):
    if engine not in _CORPUS:
        p = os.path.join(C.ROOT, "corpus", engine + ".txt")
        try:
            _CORPUS[engine] = [l.split("\t")[0].strip() for l in open(p) if l.strip() and not l.startswith("#")]
        except FileNotFoundError:
            _CORPUS[engine] = []
    return _CORPUS[engine]


def directed_search(mod, part, lines, listed_findings):
    """shrinks each disagreeing case while the implementation and the model still differ on it; every candidate
    tried on the way is checked by the part's scans; returns (case, impl observation, verdict) of the first candidate
    on which a scan fails (and no listed finding explains it), or None"""
    hit = []

    def differs(ls):
        im = C.run_harness(part.engine, ls, shards=1)
        mo = C.run_model(part.engine, ls, shards=1)
        orc = oracle_verdicts(part, ls, im, shards=1)
        for l, y, x in zip(ls, im, orc):
            if not x.startswith("1") and not hit:
                sg = mod.known_signature(part, l, y, x)
                if sg is None or not all(z in listed_findings for z in sg.split("+")):
                    hit.append((l, y, x))
        if hit:
            return [False] * len(ls)          # stop shrinking
        return [part.project(l, y) != part.project(l, z) for l, y, z in zip(ls, im, mo)]

    for line in lines:
        try:
            shrink(part, line, differs)
        except C.Broken:
            continue
        if hit:
            return hit[0]
    return None


def run(pid, tier, seed, replay=None):
    t0 = time.time()
    mod = importlib.import_module("props." + pid)
    rng = random.Random(seed)
    broken = []          # broken obligations / correspondences (strings)
    violations = []      # (part name, case line, impl obs, model obs, oracle verdict)
    known_hits = {}
    cov = {"parts": {}}
    samples = []
    evaluations = 0
    distinct_nontrivial = 0
    traces = 0

    # --- 1. builds and audit
    ok, lg = C.build_harness()
    harness_ok = ok
    if not ok:
        broken.append("correspondence: the harness does not build against /repo's working tree "
                      "(hooks on): " + lg[-600:])
    if getattr(mod, "USES_GEN", False):
        import rs2v
        gp = rs2v.regenerate()
        broken += ["rs2v: " + p for p in gp]
    obligations, discharged, aprobs, alog = C.audit(pid, getattr(mod, 'PROPS_FILES', None))
    broken += ["proof: " + p for p in aprobs]
    if tier == "thorough" and replay is None and not aprobs:
        broken += ["proof: " + p for p in C.coqchk(getattr(mod, 'PROPS_FILES', None) or [pid])]
    ok, lg = C.build_driver()
    if not ok:
        raise C.Broken("model driver does not build: " + lg[-1500:])

    listed_findings = set(fd["signature"].split(":")[0] for fd in C.known_findings(pid))

    # --- 2. cases
    parts = mod.parts(tier, rng) if replay is None else mod.replay_parts(json.load(open(replay)))
    if replay is None:
        # the regression corpus of the part's engine runs first (corpus/<engine>.txt, tools/mkcorpus.py): the
        # minimised failing cases of earlier detections, so that no detection depends on a random draw
        for part in parts:
            if getattr(part, "NO_CORPUS", False):
                continue
            extra = [c for c in corpus_of(part.engine) if c not in set(part.cases)]
            if extra:
                part.cases = extra + list(part.cases)
    for part in parts:
        if not harness_ok:
            break
        cases = list(part.cases)
        t1 = time.time()
        impl = C.run_harness(part.engine, cases, shards=getattr(part, "shards", C.NPROC))
        if getattr(part, "release_too", False) and tier == "thorough":
            okr, lgr = C.build_harness(release=True)
            if okr:
                implr = C.run_harness(part.engine, cases, release=True)
                for c, a, b in zip(cases, impl, implr):
                    if part.project(c, a) != part.project(c, b):
                        broken.append("correspondence: debug and release builds differ on %s" % c)
                        break
        model = C.run_model(part.engine, cases)
        oracle = oracle_verdicts(part, cases, impl)
        # observations that disagree or fail a scan are taken again, alone in a fresh process, before they count:
        # the async engines run on a real scheduler (and timerrt on the real clock), a loaded machine must not
        # turn into a verdict.  What changes between two runs of the same case is reported as unstable.
        unstable = 0
        for _attempt in range(2):
            idx = [i for i, (c, a, m, o) in enumerate(zip(cases, impl, model, oracle))
                   if part.project(c, a) != part.project(c, m) or not o.startswith("1")]
            if not idx or len(idx) > 400:
                break
            again = C.run_harness(part.engine, [cases[i] for i in idx], shards=1)
            changed = [(i, b) for i, b in zip(idx, again) if b != impl[i]]
            if not changed:
                break
            unstable += len(changed)
            for i, b in changed:
                impl[i] = b
            oracle = oracle_verdicts(part, cases, impl)
        evaluations += len(cases)
        traces += len(cases)
        seen = set()
        dis = []
        hist = {}
        for i, (c, a, m, o) in enumerate(zip(cases, impl, model, oracle)):
            tag = part.classify(c, a)
            hist[tag] = hist.get(tag, 0) + 1
            if part.nontrivial(c, a) and c not in seen:
                seen.add(c)
            if part.project(c, a) != part.project(c, m):
                dis.append(i)
            if not o.startswith("1"):
                sig = mod.known_signature(part, c, a, o)
                # only findings LISTED in known_findings.json (status "finding") suppress anything
                if sig is not None and not all(x in listed_findings for x in sig.split("+")):
                    sig = None
                if sig is not None:
                    known_hits.setdefault(sig, (part.name, c, a, o))
                else:
                    violations.append((part.name, c, a, m, o))
        distinct_nontrivial += len(seen)
        # vm_compute cross-check of a slice (corpus first): the kernel's evaluator vs extraction
        nvm = min(len(cases), part.vm_slice)
        if nvm and part.project_is_identity:
            vmdis = C.run_vm_disagree(part.engine, cases[:nvm], model[:nvm], tag=pid + part.name)
            if vmdis:
                raise C.Broken("extracted model and vm_compute differ on case %s" % cases[vmdis[0]])
        cov["parts"][part.name] = {
            "engine": part.engine, "cases": len(cases), "distinct_nontrivial": len(seen),
            "disagreements": len(dis), "oracle_failures": sum(1 for o in oracle if not o.startswith("1")),
            "vm_compute_cross_checked": nvm, "unstable_observations_retaken": unstable, "histogram": hist, "wall_s": round(time.time() - t1, 1),
            "rule": part.rule,
        }
        # directed search: the model and the implementation differ on some case but no scan fails on the cases as
        # generated -- minimise a few of the differing cases while they still differ and put every intermediate
        # candidate before the scans (a generated case carries noise -- reused ids, other streams -- about which a
        # scan, rightly, says nothing; its minimal core is usually clean)
        if dis and not violations and not known_hits:
            found = directed_search(mod, part, [cases[i] for i in dis[:4]], listed_findings)
            if found is not None:
                c2, a2, o2 = found
                m2 = C.run_model(part.engine, [c2], shards=1)[0]
                violations.append((part.name, c2, a2, m2, o2))
                cov["parts"][part.name]["directed_search"] = {"from_disagreement": True, "case": c2}
        if dis and os.environ.get("VERIF_LIST_VIOLATIONS"):
            with open(os.path.join(C.WORK, "violations_%s.txt" % pid), "a") as fv:
                for i in dis:
                    fv.write("%s\t%s\tdisagreement\n" % (part.engine, cases[i]))
        for i in dis[:3]:
            broken.append("correspondence %s/%s: model and implementation differ on case `%s` "
                          "(impl `%s`, model `%s`)" % (part.engine, part.name, cases[i], impl[i], model[i]))
        if dis:
            cov["parts"][part.name]["first_disagreement"] = {"case": cases[dis[0]], "impl": impl[dis[0]],
                                                             "model": model[dis[0]]}
        k = max(1, len(cases) // 3)
        for i in (0, k, 2 * k):
            if i < len(cases):
                samples.append({"part": part.name, "case": cases[i], "impl": impl[i], "model": model[i],
                                "readable": part.readable(cases[i])})

    # --- 3. verdict
    rc = 0
    lines = []
    # recorded findings (known_findings.json, never written at run time): each one is replayed on the
    # implementation when it carries a replay case; it is reported as long as it still reproduces
    finding_report = []
    for fd in C.known_findings(pid):
        name = fd["signature"].split(":")[0]
        rp = fd.get("replay")
        if rp and harness_ok and (tier == "thorough" or not rp.get("thorough_only")):
            try:
                got = C.run_harness(rp["engine"], [rp["case"]], shards=1)[0]
            except C.Broken as e:
                got = "broken: %s" % e
            still = (got == rp["obs"])
            finding_report.append({"finding": name, "case": rp["case"], "reproduced": still, "observation": got})
            if still:
                lines.append("KNOWN-FINDING: property=%s %s (replayed: engine %s case %s)" % (
                    pid, fd["signature"], rp["engine"], rp["case"]))
            else:
                C.log("recorded finding `%s` no longer reproduces on this tree (observation %s)" % (name, got))
        else:
            lines.append("KNOWN-FINDING: property=%s %s" % (pid, fd["signature"]))
            finding_report.append({"finding": name, "reproduced": None})
    cov["known_findings"] = finding_report
    for sig, (pn, c, a, o) in sorted(known_hits.items()):
        C.log("suppressed (matches a recorded finding): %s on case %s" % (sig, c))
    if violations and os.environ.get("VERIF_LIST_VIOLATIONS"):
        # maintenance aid (tools/mkcorpus.py --prune): every violating case of this run, one per line
        with open(os.path.join(C.WORK, "violations_%s.txt" % pid), "w") as fv:
            for (pn_, c_, a_, m_, o_) in violations:
                eng_ = [p for p in parts if p.name == pn_][0].engine
                fv.write("%s\t%s\t%s\n" % (eng_, c_, o_))
    if violations:
        pn, c, a, m, o = violations[0]
        part = [p for p in parts if p.name == pn][0]

        def fails(ls):
            im = C.run_harness(part.engine, ls, shards=1)
            orc = oracle_verdicts(part, ls, im, shards=1)
            def unlisted(l, y, x):
                sg = mod.known_signature(part, l, y, x)
                return sg is None or not all(z in listed_findings for z in sg.split("+"))
            return [(not x.startswith("1")) and unlisted(l, y, x) for l, y, x in zip(ls, im, orc)]

        small = shrink(part, c, fails)
        im = C.run_harness(part.engine, [small], shards=1)[0]
        mo = C.run_model(part.engine, [small], shards=1)[0]
        orc = oracle_verdicts(part, [small], [im], shards=1)[0]
        rp = C.write_replay(pid, {
            "kind": "failing-input", "part": pn, "engine": part.engine, "seed": seed, "case": small,
            "case_readable": part.readable(small), "original_case": c, "impl_observation": im,
            "model_observation": mo, "oracle_verdict": orc, "clause": mod.clause_text(part, orc),
            "repo": C.repo_head(), "other_failing_cases": len(violations) - 1,
            "broken": broken[:10],
        })
        lines.append("VIOLATION property=%s replay=%s" % (pid, rp))
        rc = 1
    elif broken:
        rp = C.write_replay(pid, {
            "kind": "no-failing-input-found", "seed": seed, "broken": broken[:20],
            "repo": C.repo_head(),
            "searched": {k: v["cases"] for k, v in cov["parts"].items()},
        })
        lines.append("VIOLATION property=%s replay=%s no-failing-input-found" % (pid, rp))
        rc = 1

    cov.update({
        "obligations": obligations, "discharged": discharged,
        "checker_cmd": "make -C coq Props/%s.vo && coqc Print Assumptions (tools/common.py audit)" % pid,
        "trusted_base": C.TRUSTED_BASE + getattr(mod, "EXTRA_TRUSTED", []),
        "theorems": sorted(C.theorem_statements(pid)),
        "partial": getattr(mod, "PARTIAL", []),
        "evaluations": evaluations, "distinct_nontrivial": distinct_nontrivial,
        "rule": getattr(mod, "RULE", ""), "samples": samples[:12],
        "traces_validated_against_impl": traces, "broken": broken[:20],
        "known_findings_hit": sorted(known_hits), "repo": C.repo_head(),
    })
    if replay is None:
        C.write_evidence(pid, tier, seed, cov, time.time() - t0, len(violations),
                         getattr(mod, "ASSUMPTIONS", []))
    for l in lines:
        print(l)
    C.log("%s %s: %d obligations, %d discharged, %d cases, %d violations, %d broken, %.1fs" % (
        pid, tier, obligations, discharged, evaluations, len(violations), len(broken), time.time() - t0))
    for b in broken[:8]:
        C.log("  broken: " + b[:400])
    return rc


def main():
    ap = argparse.ArgumentParser()
    ap.add_argument("pid")
    ap.add_argument("--tier", default=os.environ.get("VERIF_TIER", "quick"))
    ap.add_argument("--replay")
    a = ap.parse_args()
    seed = int(os.environ.get("VERIF_SEED", "1"))
    try:
        rc = run(a.pid, a.tier, seed, a.replay)
    except C.Broken as e:
        C.log("BROKEN CHECK (not a verdict): %s" % e)
        sys.exit(2)
    except Exception:                      # a fault of the machinery itself: never exit 1 without a VIOLATION line
        import traceback
        C.log("BROKEN CHECK (not a verdict): " + traceback.format_exc()[-1500:])
        sys.exit(2)
    sys.exit(rc)


if __name__ == "__main__":
    main()
