#!/usr/bin/env python3
"""setup: build everything from files on disk (offline): Coq development (full .vo), extraction +
OCaml driver, Rust harness against /repo (hooks on)."""
import os
import sys

sys.path.insert(0, os.path.dirname(os.path.abspath(__file__)))
import common as C  # noqa: E402


def main():
    try:
        import rs2v
        probs = rs2v.regenerate()
        for p in probs:
            C.log("rs2v: " + p)
    except ImportError:
        pass
    ok, lg = C.build_coq([], timeout=7000)
    C.log("coq: " + ("ok" if ok else "FAILED\n" + lg))
    ok2, lg = C.build_driver()
    C.log("driver: " + ("ok" if ok2 else "FAILED\n" + lg))
    ok3, lg = C.build_harness()
    C.log("harness: " + ("ok" if ok3 else "FAILED\n" + lg))
    # a failing Coq build is reported by the checks themselves; setup only fails when tools are unusable
    sys.exit(0 if (ok2 and ok3) else 1)


if __name__ == "__main__":
    main()
