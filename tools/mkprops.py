#!/usr/bin/env python3
"""mkprops.py -- assembles a Props/<id>.v file from proved lemmas: for every (theorem name, lemma) pair the
statement is obtained from Coq itself (`Check lemma`), written out in full as `Theorem name : <statement>.
Proof. exact lemma. Qed. Print Assumptions name.` and the file is compiled; a statement that does not re-parse
makes the tool fail (nothing is silently weakened: the statement text IS the lemma's type as Coq prints it).

usage: mkprops.py <spec.json>   where spec = {"id": "C02", "header": "...", "imports": ["Proofs.CodecV3Dec", ...],
        "theorems": [["C02_v3_decode_total", "CodecV3Dec.v3_decode_total", "comment"], ...],
        "prelude": "optional Coq text put after the imports", "epilogue": "optional Coq text (Examples)"}
"""
import json
import os
import re
import subprocess
import sys

ROOT = os.path.dirname(os.path.dirname(os.path.abspath(__file__)))
COQ = os.path.join(ROOT, "coq")


def check_types(imports, names, prelude=""):
    src = "".join("From MV Require Import %s.\n" % i for i in imports) + prelude + "\nSet Printing Width 110.\n"
    for n in names:
        src += 'Goal True. idtac "@@@BEGIN %s". exact I. Qed.\nCheck %s.\n' % (n, n)
    src += 'Goal True. idtac "@@@END". exact I. Qed.\n'
    p = os.path.join(ROOT, "work", "mkprops_%d.v" % os.getpid())
    os.makedirs(os.path.dirname(p), exist_ok=True)
    open(p, "w").write(src)
    r = subprocess.run(["timeout", "600", "coqc", "-Q", COQ, "MV", p], capture_output=True, text=True,
                       cwd=os.path.dirname(p))
    for ext in (".v", ".vo", ".vok", ".vos", ".glob"):
        try:
            os.remove(p[:-2] + ext)
        except FileNotFoundError:
            pass
    if r.returncode != 0:
        raise SystemExit("coqc failed:\n" + r.stdout[-2000:] + r.stderr[-3000:])
    res = {}
    for m in re.finditer(r"@@@BEGIN (\S+)\n(.*?)(?=@@@BEGIN|@@@END)", r.stdout, re.S):
        name, body = m.group(1), m.group(2)
        i = body.index(":")
        # `Check x.` prints "x\n     : type" ; the type starts after the first line-leading ':'
        mm = re.search(r"^\s*:\s", body, re.M)
        if not mm:
            raise SystemExit("cannot parse Check output for " + name)
        res[name] = body[mm.end():].strip()
    return res


def main():
    spec = json.load(open(sys.argv[1]))
    pid = spec["id"]
    imports = ["Base.Prelude", "Base.Res", "Base.VarInt"] + spec["imports"]
    lemmas = [t[1] for t in spec["theorems"]]
    prelude = spec.get("prelude", "")
    types = check_types(imports, lemmas, prelude)
    out = ["(* Props/%s.v -- %s" % (pid, spec["header"]),
           "   Statements only: each theorem is closed by `exact <lemma>`; the statement text is the lemma's type as",
           "   printed by Coq (assembled by tools/mkprops.py from tools/props_spec/%s.json). *)" % pid]
    out += ["From MV Require Import %s." % i for i in imports]
    if prelude:
        out.append(prelude)
    out.append("")
    for name, lemma, comment in spec["theorems"]:
        if comment:
            out.append("(* %s *)" % comment)
        out.append("Theorem %s :\n  %s." % (name, types[lemma].replace("\n", "\n  ")))
        out.append("Proof. exact %s. Qed." % lemma)
        out.append("Print Assumptions %s.\n" % name)
    if spec.get("epilogue"):
        out.append(spec["epilogue"])
    path = os.path.join(COQ, "Props", pid + ".v")
    open(path, "w").write("\n".join(out) + "\n")
    cp = os.path.join(COQ, "_CoqProject")
    lines = [l for l in open(cp).read().split("\n") if l]
    if "Props/%s.v" % pid not in lines:
        lines.append("Props/%s.v" % pid)
        open(cp, "w").write("\n".join(lines) + "\n")
        subprocess.run(["coq_makefile", "-f", "_CoqProject", "-o", "Makefile"], cwd=COQ, capture_output=True)
    r = subprocess.run(["timeout", "1800", "make", "-j8", "Props/%s.vo" % pid], cwd=COQ, capture_output=True, text=True)
    bad = [l for l in r.stdout.split("\n") if l.strip() and "Closed under the global context" not in l
           and not l.startswith("COQ") and not l.startswith("make")]
    print(pid, "rc", r.returncode, "theorems", len(spec["theorems"]))
    if r.returncode != 0:
        print(r.stdout[-1500:], r.stderr[-2500:])
        sys.exit(1)
    if bad:
        print("non-closed / other output:", bad[:10])


if __name__ == "__main__":
    main()
