#!/usr/bin/env python3
"""Case generator for engine "limiter" (number 35): the inbound in-flight limiter (property C12).

case syntax (see harness/src/engines/limiter.rs): `max_cap,max_size;op;op;...`
  op `1` poll_ready, `2,kind,size` call (kind 0 other, 1 publish complete, 2 publish streamed,
  3 chunk, 4 final chunk), `3,k` the k-th running call finishes, `4,kind,size` call future created
  but not polled (spawned by io.rs), `5,j` first poll of the j-th such future.

The small python mirror of the limiter below is a *generation aid only* (it decides which sequences
respect the reading rule so that the exhaustive enumeration can be restricted to them); nothing is
ever compared against it.
"""
import random

CAPS = [0, 1, 2, 3]
SIZES = [0, 10, 100]


def fmt(mc, ms, ops):
    return "%d,%d;" % (mc, ms) + ";".join(",".join(str(x) for x in op) for op in ops)


def call_alphabet(ms):
    """(kind, size) choices with sizes around the byte limit"""
    if ms == 0:
        return [(0, 5), (1, 7), (2, 5), (3, 0), (4, 0)]
    half = ms // 2
    return [(0, half), (1, ms), (1, ms + 1), (2, half + 1), (2, ms + 1), (3, 0), (4, 0), (4, 3)]


def call_alphabet_wf(ms, streaming):
    """what a codec can produce: chunks (size 0) only while a payload is streamed"""
    if streaming:
        return [(3, 0), (4, 0)]
    return [c for c in call_alphabet(ms) if c[0] < 3]


class Mirror:
    """generation aid: mirrors Model/Limiter.v far enough to know the answers of poll_ready"""

    def __init__(self, mc, ms):
        self.mc, self.ms = mc, ms
        self.cap = self.size = 0
        self.flag = self.paused = self.may = False
        self.run = []
        self.sub = []

    def copy(self):
        m = Mirror(self.mc, self.ms)
        m.__dict__.update(self.__dict__)
        m.run = list(self.run)
        m.sub = list(self.sub)
        return m

    def avail(self):
        return (self.mc == 0 or self.cap < self.mc) and (self.ms == 0 or self.size <= self.ms)

    def ready(self):
        if self.paused:
            ok = self.avail()
        else:
            ok = self.flag or self.avail()
        self.paused = not ok
        self.may = ok
        return ok

    def call(self, kind, size):
        if self.flag and kind != 3:
            self.flag = False
        if kind == 2:
            self.flag = True
        g = size if self.ms > 0 else 0
        self.cap += 1
        self.size += g
        self.run.append(g)
        self.may = False

    def submit(self, kind, size):
        self.sub.append((kind, size))
        self.may = False

    def start(self, j):
        if j < len(self.sub):
            k, sz = self.sub.pop(j)
            may = self.may
            self.call(k, sz)
            self.may = may

    def complete(self, k):
        if k < len(self.run):
            g = self.run.pop(k)
            self.cap -= 1
            self.size -= g


def exhaustive_legal(mc, ms, maxlen, wf=False, deferred=False, strict=False):
    """every op sequence of length 1..maxlen that respects the reading rule (calls only right after a
    poll that answered ready, completions allowed in between); with wf: frame order of a codec;
    with deferred: hand-over without first poll (op 4) and later first polls (op 5, not while the
    dispatcher is paused or between its poll and the hand-over) as well; with strict: the discipline
    of the repaired io.rs (no poll_ready while a handed-over call has not had its first poll)"""
    out = []

    def rec(m, ops, streaming):
        if ops:
            out.append(fmt(mc, ms, ops))
        if len(ops) == maxlen:
            return
        # two polls in a row change nothing but the woken flag: allow at most two
        if not (len(ops) >= 2 and ops[-1] == (1,) and ops[-2] == (1,)) and not (strict and m.sub):
            m2 = m.copy()
            m2.ready()
            ops.append((1,))
            rec(m2, ops, streaming)
            ops.pop()
        if m.may:
            for (k, sz) in (call_alphabet_wf(ms, streaming) if wf else call_alphabet(ms)):
                m2 = m.copy()
                m2.call(k, sz)
                ops.append((2, k, sz))
                rec(m2, ops, (k == 2) or (streaming and k == 3))
                ops.pop()
                if deferred:
                    m2 = m.copy()
                    m2.submit(k, sz)
                    ops.append((4, k, sz))
                    rec(m2, ops, (k == 2) or (streaming and k == 3))
                    ops.pop()
        if deferred and not m.may and not m.paused:
            for j in range(len(m.sub)):
                m2 = m.copy()
                m2.start(j)
                ops.append((5, j))
                rec(m2, ops, streaming)
                ops.pop()
        for i in range(len(m.run)):
            m2 = m.copy()
            m2.complete(i)
            ops.append((3, i))
            rec(m2, ops, streaming)
            ops.pop()

    rec(Mirror(mc, ms), [], False)
    return out


def exhaustive_any(mc, ms, maxlen):
    """every op sequence of length 1..maxlen over a reduced alphabet, legal or not (calls while the
    dispatcher is paused, completions of absent calls)"""
    alpha = ([(1,)] + [(2, k, sz) for (k, sz) in call_alphabet(ms) if (k, sz) not in ((1, ms), (4, 3))] + [(3, 0), (3, 1)]
             + [(4, 1, ms + 1), (4, 2, ms // 2 + 1), (5, 0)])
    out = []

    def rec(ops):
        if ops:
            out.append(fmt(mc, ms, ops))
        if len(ops) == maxlen:
            return
        for a in alpha:
            ops.append(a)
            rec(ops)
            ops.pop()

    rec([])
    return out


def random_case(rng, maxlen=40, legal=True, wf=False, deferred=False, strict=False):
    mc = rng.choice([0, 1, 1, 2, 3, 4, 7])
    ms = rng.choice([0, 10, 100, 1000, 65536])
    m = Mirror(mc, ms)
    n = rng.randint(9, maxlen)
    ops = []
    streaming = False
    while len(ops) < n:
        r = rng.random()
        if m.may and (r < 0.8 or not legal):
            if wf:
                if streaming:
                    k, sz = rng.choice([3, 3, 4]), 0
                else:
                    k = rng.choice([0, 1, 1, 2])
                    sz = rng.choice([0, 1, ms // 3, ms // 2, ms, ms + 1, rng.randint(0, 2 * ms + 2)])
            else:
                k = rng.choice([0, 1, 1, 2, 2, 3, 3, 4])
                sz = rng.choice([0, 0, 1, ms // 3, ms // 2, ms, ms + 1, rng.randint(0, 2 * ms + 2)])
            if deferred and rng.random() < 0.5:
                m.submit(k, sz)
                ops.append((4, k, sz))
            else:
                m.call(k, sz)
                ops.append((2, k, sz))
            streaming = (k == 2) or (streaming and k == 3)
        elif m.sub and not m.may and (not m.paused or (not legal and rng.random() < 0.02)) and (rng.random() < 0.5 or (strict and rng.random() < 0.8)):
            j = rng.randrange(len(m.sub))
            m.start(j)
            ops.append((5, j))
        elif not legal and r < 0.12 and not m.paused:
            k = rng.choice([0, 1, 2, 3, 4])
            sz = rng.choice([0, 1, ms, ms + 1])
            m.call(k, sz)
            ops.append((2, k, sz))
        elif m.run and r < (0.45 if m.paused else 0.25):
            i = rng.randrange(len(m.run) + (0 if legal else 2))
            m.complete(i)
            ops.append((3, i))
        elif strict and m.sub:
            continue
        else:
            m.ready()
            ops.append((1,))
    return fmt(mc, ms, ops)


def all_cases(rng, tier="quick"):
    """(name, cases) parts; tier quick: legal sequences to length 7, full: to length 8"""
    full = tier != "quick"
    legal_len = 8 if full else 7
    wf_len = 9 if full else 8
    def_len = 7 if full else 6
    any_len = 4
    n_random = 40000 if full else 6000
    cfgs = [(mc, ms) for mc in CAPS for ms in SIZES]
    legal = [c for (mc, ms) in cfgs for c in exhaustive_legal(mc, ms, legal_len)]
    wf = [c for (mc, ms) in cfgs for c in exhaustive_legal(mc, ms, wf_len, wf=True)]
    dfr = [c for (mc, ms) in cfgs for c in exhaustive_legal(mc, ms, def_len + 1, wf=True, deferred=True)]
    dfr += [c for (mc, ms) in cfgs for c in exhaustive_legal(mc, ms, def_len - 1, deferred=True)]
    dfr = sorted(set(dfr) - set(legal) - set(wf))
    spawn = [c for (mc, ms) in cfgs for c in exhaustive_legal(mc, ms, wf_len, wf=True, deferred=True, strict=True)]
    spawn += [c for (mc, ms) in cfgs for c in exhaustive_legal(mc, ms, legal_len - 1, deferred=True, strict=True)]
    spawn = sorted(set(spawn) - set(legal) - set(wf))
    anyseq = [c for (mc, ms) in cfgs for c in exhaustive_any(mc, ms, any_len)]
    rl = [random_case(rng, 40, legal=True, wf=(i % 2 == 0)) for i in range(n_random)]
    rd = [random_case(rng, 40, legal=True, wf=(i % 2 == 0), deferred=True, strict=(i % 4 < 2)) for i in range(n_random)]
    ra = [random_case(rng, 40, legal=False, deferred=(i % 2 == 0)) for i in range(n_random // 2)]
    return [("exhaustive-legal<=%d" % legal_len, legal), ("exhaustive-codec-order<=%d" % wf_len, wf),
            ("exhaustive-legal-spawned<=%d" % (legal_len - 1), spawn),
            ("exhaustive-deferred-pre-fix<=%d" % (def_len - 1), dfr), ("exhaustive-any<=%d" % any_len, anyseq),
            ("random-legal", rl), ("random-deferred", rd), ("random-any", ra)]


if __name__ == "__main__":
    import sys
    rng = random.Random(int(sys.argv[1]) if len(sys.argv) > 1 else 1)
    for name, cs in all_cases(rng, sys.argv[2] if len(sys.argv) > 2 else "quick"):
        print("# %s: %d" % (name, len(cs)), file=sys.stderr)
        for c in cs:
            print(c)
