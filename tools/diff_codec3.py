#!/usr/bin/env python3
"""Differential run of the MQTT v3.1.1 codec: real crate (harness engines dec3/enc3/varint) against the
extracted Coq model (ocaml/driver run 10/11/12) on generated cases.

usage: diff_codec3.py [--seed N] [--dec-size N] [--enc-size N] [--show N] [--dump-dir DIR]
exit 0 when every observation is identical on both sides (and the independent python encoder agrees with
both on valid packets), 1 otherwise, 2 when the machinery is broken.
"""
import argparse
import collections
import os
import random
import sys
import time

sys.path.insert(0, os.path.dirname(os.path.abspath(__file__)))
import common as C  # noqa: E402
import gen_codec3 as G  # noqa: E402


def classify(engine, obs):
    if obs == C.PANIC:
        return "panic"
    if obs in ("97", "96", "95", "98", "99"):
        return "marker " + obs
    fs = obs.split(";")
    if engine == "dec3":
        last = fs[-1].split(",")
        if last[0] == "4":
            return "error %s after %d items" % (last[1], min(len(fs) - 1, 3))
        return "end state %s, %s items" % (last[2], min(len(fs) - 1, 3))
    if engine == "enc3":
        errs = sorted({f.split(",")[1] for f in fs if f.startswith("1,")})
        left = any(f.startswith("1,") and f.split(",")[2] != "0" for f in fs)
        return ("errors " + "/".join(errs) if errs else "all ok") + (" LEFTOVER" if left else "")
    return fs[0].split(",")[0] if engine == "varint" and (obs.startswith("0,") or obs in ("1",) or obs.startswith("2,")) else "bytes"


def compare(engine, cases, show, dump_dir=None):
    t0 = time.time()
    impl = C.run_harness(engine, cases)
    t1 = time.time()
    model = C.run_model(engine, cases)
    t2 = time.time()
    diffs = [i for i in range(len(cases)) if impl[i] != model[i]]
    hist = collections.Counter(classify(engine, o) for o in impl)
    print("== %s: %d cases, %d differences (harness %.1fs, model %.1fs)" % (engine, len(cases), len(diffs), t1 - t0, t2 - t1))
    for k, v in sorted(hist.items(), key=lambda kv: -kv[1])[:40]:
        print("     %7d  %s" % (v, k))
    for i in diffs[:show]:
        print("  DIFF case : %s" % cases[i][:600])
        print("       impl : %s" % impl[i][:600])
        print("       model: %s" % model[i][:600])
    if dump_dir:
        os.makedirs(dump_dir, exist_ok=True)
        with open(os.path.join(dump_dir, engine + ".cases"), "w") as f:
            f.write("\n".join(cases) + "\n")
        with open(os.path.join(dump_dir, engine + ".impl"), "w") as f:
            f.write("\n".join(impl) + "\n")
        with open(os.path.join(dump_dir, engine + ".model"), "w") as f:
            f.write("\n".join(model) + "\n")
    return len(diffs), impl, model


def spec_check(rng, n, show):
    """the python encoder (written from the MQTT 3.1.1 text) against both sides, valid packets only:
    enc3 must emit exactly python's frame, dec3 must return exactly python's packet"""
    pkts = G.all_shapes(rng) + [G.rand_packet(rng) for _ in range(n)]
    enc_cases, enc_exp, dec_cases, dec_exp = [], [], [], []
    for p in pkts:
        frame = G.encode(p)
        rl = len(G.body_of(p).b)
        inline = len(p["payload"]) if p["k"] == "publish" else None
        enc_cases.append(G.enc_case(0, [G.enc_op(p, inline)]))
        enc_exp.append(G.line([[0, rl] + list(frame)]))
        dec_cases.append(G.dec_case(frame))
        dec_exp.append(G.line([G.expected_dec_item(p), [5, 0, 0]]))
    bad = 0
    for engine, cases, exp in (("enc3", enc_cases, enc_exp), ("dec3", dec_cases, dec_exp)):
        impl = C.run_harness(engine, cases)
        model = C.run_model(engine, cases)
        d = [i for i in range(len(cases)) if not (impl[i] == exp[i] == model[i])]
        print("== spec check %s: %d valid packets, %d disagreements with the python encoder" % (engine, len(cases), len(d)))
        for i in d[:show]:
            print("  SPEC case  : %s" % cases[i][:400])
            print("       python: %s" % exp[i][:400])
            print("       impl  : %s" % impl[i][:400])
            print("       model : %s" % model[i][:400])
        bad += len(d)
    return bad


def main():
    ap = argparse.ArgumentParser()
    ap.add_argument("--seed", type=int, default=20260925)
    ap.add_argument("--dec-size", type=int, default=400)
    ap.add_argument("--enc-size", type=int, default=6500)
    ap.add_argument("--show", type=int, default=5)
    ap.add_argument("--dump-dir", default=None)
    ap.add_argument("--no-build", action="store_true")
    a = ap.parse_args()
    if not a.no_build:
        ok, lg = C.build_harness()
        if not ok:
            print("harness build failed:\n" + lg)
            return 2
        ok, lg = C.build_driver()
        if not ok:
            print("driver build failed:\n" + lg)
            return 2
    rng = random.Random(a.seed)
    total = 0
    try:
        d, _, _ = compare("varint", G.gen_varint(rng, 3000), a.show, a.dump_dir)
        total += d
        d, _, _ = compare("dec3", G.gen_dec(rng, a.dec_size), a.show, a.dump_dir)
        total += d
        d, _, _ = compare("enc3", G.gen_enc(rng, a.enc_size), a.show, a.dump_dir)
        total += d
        total += spec_check(rng, 2000, a.show)
    except C.Broken as e:
        print("BROKEN: %s" % e)
        return 2
    print("TOTAL differences: %d" % total)
    return 0 if total == 0 else 1


if __name__ == "__main__":
    sys.exit(main())
