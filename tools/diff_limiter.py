#!/usr/bin/env python3
"""Differential run of the in-flight limiter: real crate (harness engine `limiter`, the real
inflight::InFlightServiceImpl behind ntex_service::Pipeline::bind) against the extracted Coq model
(ocaml/driver run 35) on the cases of gen_limiter.py.

usage: diff_limiter.py [--seed N] [--tier quick|full] [--show N]
exit 0 when every observation is identical on both sides, 1 otherwise, 2 when the machinery is broken.
"""
import argparse
import collections
import os
import random
import sys
import time

sys.path.insert(0, os.path.dirname(os.path.abspath(__file__)))
import common as C  # noqa: E402
import gen_limiter as G  # noqa: E402


def classify(case, obs):
    if obs == C.PANIC:
        return "panic"
    if obs in ("9998", "9997"):
        return "outside the modelled domain (first poll of a call while poll_ready is pending)"
    fs = [f.split(",") for f in obs.split(";")]
    ops = case.split(";")[1:]
    pend = any(o == "1" and f[0] == "0" for o, f in zip(ops, fs))
    woke = any(o.startswith("3") and f[1] == "1" for o, f in zip(ops, fs))
    mx = max(int(f[2]) for f in fs)
    return "pending seen=%d wake on completion=%d max running=%d" % (pend, woke, min(mx, 4))


def main():
    ap = argparse.ArgumentParser()
    ap.add_argument("--seed", type=int, default=1)
    ap.add_argument("--tier", default="quick")
    ap.add_argument("--show", type=int, default=5)
    a = ap.parse_args()
    ok, lg = C.build_harness()
    if not ok:
        print(lg)
        return 2
    ok, lg = C.build_driver()
    if not ok:
        print(lg)
        return 2
    rng = random.Random(a.seed)
    total = bad = 0
    for name, cases in G.all_cases(rng, a.tier):
        t0 = time.time()
        impl = C.run_harness("limiter", cases)
        t1 = time.time()
        model = C.run_model("limiter", cases)
        t2 = time.time()
        diffs = [i for i in range(len(cases)) if impl[i] != model[i]]
        total += len(cases)
        bad += len(diffs)
        print("== %s: %d cases, %d differences (harness %.1fs, model %.1fs)" % (name, len(cases), len(diffs), t1 - t0, t2 - t1))
        hist = collections.Counter(classify(c, o) for c, o in zip(cases, impl))
        for k, v in sorted(hist.items(), key=lambda kv: -kv[1])[:12]:
            print("     %7d  %s" % (v, k))
        for i in diffs[:a.show]:
            print("  DIFF case : %s" % cases[i])
            print("       impl : %s" % impl[i])
            print("       model: %s" % model[i])
    print("TOTAL %d cases, %d differences" % (total, bad))
    return 1 if bad else 0


if __name__ == "__main__":
    try:
        sys.exit(main())
    except C.Broken as e:
        print("BROKEN:", e)
        sys.exit(2)
