(* Model/IoEnv.v -- engine "iostate" (number 36): Model/IoState.v (io_step) and Model/Timer.v
   (update_timer / handle_timeout / pause) composed with a model of what surrounds the dispatcher in
   harness/src/engines/iostate.rs: the read buffer and the fixed-length frame codec, the open/closed
   state of the io object, the gated request handlers with the response re-sequencing queue (the
   algorithm of Model/RespQueue.v, here with error kinds and queue positions instead of wrapping
   indices), the gated control service, the gated service shutdown, the `stopping` condition, and the
   write side (write buffer, a peer that accepts nothing or everything, DSP_W_BACKPRESSURE at 1024 bytes).
   [poll_disp] replays Dispatcher::poll: one [io_step] per iteration of its loop, with the answers the
   environment gives at that moment.  See the harness file for the case syntax. Definitions only. *)
From MV Require Import Base.Prelude Base.Res Model.IoState Model.Timer.

(* handler results: 0 Some([id]) | 1 None | 2 Err(Service) | 3 Err(Protocol) | 4 Some(unencodable) |
   5 Some(id followed by 1099 bytes 250) *)
Record slot := mkSlot { sl_seq : N; sl_id : N; sl_res : option N }.

Record env := mkEnv {
  e_io : st;
  e_t : tstate;
  e_cfg : tcfg;
  e_flen : N;                  (* frame length *)
  e_ctl_mode : N;
  e_sd_gated : bool;
  e_rbuf : list N;             (* bytes received and not decoded *)
  e_hdr : option N;            (* codec 200: id * 1000 + payload length expected after a consumed header *)
  e_open : bool;               (* io accepts encodes (not stopping) *)
  e_closed : bool;             (* io is stopping/closed: the dispatcher sees PeerGone *)
  e_ioerr : bool;              (* the io carries an error *)
  e_peer : bool;               (* the peer end still exists *)
  e_ready : N;                 (* request service readiness mode *)
  e_ctl_ready : N;             (* control service readiness mode *)
  e_queue : list slot;         (* DispatcherState.queue *)
  e_resp : option N;           (* seq of the inline `response` future *)
  e_spawned : list N;          (* seqs of spawned handler tasks still waiting *)
  e_fresh : list N;            (* seqs spawned during the current poll (waiter not yet registered) *)
  e_seq : N;
  e_gates : list (N * N);      (* opened gates not yet consumed: (request id, result) *)
  e_deferred : list (N * N);   (* spawned tasks whose handler is ready at its first poll: (seq, result) *)
  e_ctl_gate : option N;
  e_ctl_logged : bool;         (* the Stop call has been polled once *)
  e_sd_open : bool;
  e_notified : bool;           (* stopping.notify() happened; released tasks run after the poll *)
  e_log : list N;
  e_fin : N;
  e_written : list N;
  e_rpaused : bool;            (* the io read task is paused (poll_read_pause): the peer's bytes / close are not seen *)
  e_pend_in : list N;          (* bytes the peer wrote while the read task was paused *)
  e_pend_close : N;            (* 1 = peer closed, 2 = peer read error, while the read task was paused *)
  e_small : bool;              (* IoConfig::set_write_buf(1024, 256, 16): write back-pressure at 1024 bytes *)
  e_blocked : bool;            (* the peer accepts no bytes (remote_buffer_cap(0)) *)
  e_wq : list N;               (* bytes in the write buffer the peer has not accepted *)
  e_bp : bool;                 (* ntex-io DSP_W_BACKPRESSURE *)
  e_wrlog : list N             (* Wr(..) control calls spawned in this poll: they run after it *)
}.

Definition upd_io (e : env) (s : st) : env :=
  mkEnv s (e_t e) (e_cfg e) (e_flen e) (e_ctl_mode e) (e_sd_gated e) (e_rbuf e) (e_hdr e) (e_open e) (e_closed e)
        (e_ioerr e) (e_peer e) (e_ready e) (e_ctl_ready e) (e_queue e) (e_resp e) (e_spawned e) (e_fresh e)
        (e_seq e) (e_gates e) (e_deferred e) (e_ctl_gate e) (e_ctl_logged e) (e_sd_open e) (e_notified e)
        (e_log e) (e_fin e) (e_written e) (e_rpaused e) (e_pend_in e) (e_pend_close e)
        (e_small e) (e_blocked e) (e_wq e) (e_bp e) (e_wrlog e).
Definition upd_t (e : env) (t : tstate) : env :=
  mkEnv (e_io e) t (e_cfg e) (e_flen e) (e_ctl_mode e) (e_sd_gated e) (e_rbuf e) (e_hdr e) (e_open e) (e_closed e)
        (e_ioerr e) (e_peer e) (e_ready e) (e_ctl_ready e) (e_queue e) (e_resp e) (e_spawned e) (e_fresh e)
        (e_seq e) (e_gates e) (e_deferred e) (e_ctl_gate e) (e_ctl_logged e) (e_sd_open e) (e_notified e)
        (e_log e) (e_fin e) (e_written e) (e_rpaused e) (e_pend_in e) (e_pend_close e)
        (e_small e) (e_blocked e) (e_wq e) (e_bp e) (e_wrlog e).
Definition upd_buf (e : env) (b : list N) (h : option N) : env :=
  mkEnv (e_io e) (e_t e) (e_cfg e) (e_flen e) (e_ctl_mode e) (e_sd_gated e) b h (e_open e) (e_closed e)
        (e_ioerr e) (e_peer e) (e_ready e) (e_ctl_ready e) (e_queue e) (e_resp e) (e_spawned e) (e_fresh e)
        (e_seq e) (e_gates e) (e_deferred e) (e_ctl_gate e) (e_ctl_logged e) (e_sd_open e) (e_notified e)
        (e_log e) (e_fin e) (e_written e) (e_rpaused e) (e_pend_in e) (e_pend_close e)
        (e_small e) (e_blocked e) (e_wq e) (e_bp e) (e_wrlog e).
Definition upd_conn (e : env) (open closed ioerr peer : bool) : env :=
  mkEnv (e_io e) (e_t e) (e_cfg e) (e_flen e) (e_ctl_mode e) (e_sd_gated e) (e_rbuf e) (e_hdr e) open closed
        ioerr peer (e_ready e) (e_ctl_ready e) (e_queue e) (e_resp e) (e_spawned e) (e_fresh e)
        (e_seq e) (e_gates e) (e_deferred e) (e_ctl_gate e) (e_ctl_logged e) (e_sd_open e) (e_notified e)
        (e_log e) (e_fin e) (e_written e) (e_rpaused e) (e_pend_in e) (e_pend_close e)
        (e_small e) (e_blocked e) (e_wq e) (e_bp e) (e_wrlog e).
Definition upd_modes (e : env) (ready ctl_ready : N) (ctl_gate : option N) (sd_open : bool) : env :=
  mkEnv (e_io e) (e_t e) (e_cfg e) (e_flen e) (e_ctl_mode e) (e_sd_gated e) (e_rbuf e) (e_hdr e) (e_open e) (e_closed e)
        (e_ioerr e) (e_peer e) ready ctl_ready (e_queue e) (e_resp e) (e_spawned e) (e_fresh e)
        (e_seq e) (e_gates e) (e_deferred e) ctl_gate (e_ctl_logged e) sd_open (e_notified e)
        (e_log e) (e_fin e) (e_written e) (e_rpaused e) (e_pend_in e) (e_pend_close e)
        (e_small e) (e_blocked e) (e_wq e) (e_bp e) (e_wrlog e).
Definition upd_q (e : env) (q : list slot) (resp : option N) (sp fresh : list N) (seq : N)
           (gates deferred : list (N * N)) : env :=
  mkEnv (e_io e) (e_t e) (e_cfg e) (e_flen e) (e_ctl_mode e) (e_sd_gated e) (e_rbuf e) (e_hdr e) (e_open e) (e_closed e)
        (e_ioerr e) (e_peer e) (e_ready e) (e_ctl_ready e) q resp sp fresh seq gates deferred (e_ctl_gate e)
        (e_ctl_logged e) (e_sd_open e) (e_notified e) (e_log e) (e_fin e) (e_written e) (e_rpaused e) (e_pend_in e) (e_pend_close e)
        (e_small e) (e_blocked e) (e_wq e) (e_bp e) (e_wrlog e).
Definition upd_out (e : env) (logged notified : bool) (log : list N) (fin : N) (written : list N) : env :=
  mkEnv (e_io e) (e_t e) (e_cfg e) (e_flen e) (e_ctl_mode e) (e_sd_gated e) (e_rbuf e) (e_hdr e) (e_open e) (e_closed e)
        (e_ioerr e) (e_peer e) (e_ready e) (e_ctl_ready e) (e_queue e) (e_resp e) (e_spawned e) (e_fresh e)
        (e_seq e) (e_gates e) (e_deferred e) (e_ctl_gate e) logged (e_sd_open e) notified log fin written (e_rpaused e) (e_pend_in e) (e_pend_close e)
        (e_small e) (e_blocked e) (e_wq e) (e_bp e) (e_wrlog e).

Definition upd_rd (e : env) (paused : bool) (pin : list N) (pclose : N) : env :=
  mkEnv (e_io e) (e_t e) (e_cfg e) (e_flen e) (e_ctl_mode e) (e_sd_gated e) (e_rbuf e) (e_hdr e) (e_open e) (e_closed e)
        (e_ioerr e) (e_peer e) (e_ready e) (e_ctl_ready e) (e_queue e) (e_resp e) (e_spawned e) (e_fresh e)
        (e_seq e) (e_gates e) (e_deferred e) (e_ctl_gate e) (e_ctl_logged e) (e_sd_open e) (e_notified e)
        (e_log e) (e_fin e) (e_written e) paused pin pclose
        (e_small e) (e_blocked e) (e_wq e) (e_bp e) (e_wrlog e).

Definition upd_wr (e : env) (blocked : bool) (wq : list N) (bp : bool) (wrlog : list N) : env :=
  mkEnv (e_io e) (e_t e) (e_cfg e) (e_flen e) (e_ctl_mode e) (e_sd_gated e) (e_rbuf e) (e_hdr e) (e_open e) (e_closed e)
        (e_ioerr e) (e_peer e) (e_ready e) (e_ctl_ready e) (e_queue e) (e_resp e) (e_spawned e) (e_fresh e)
        (e_seq e) (e_gates e) (e_deferred e) (e_ctl_gate e) (e_ctl_logged e) (e_sd_open e) (e_notified e)
        (e_log e) (e_fin e) (e_written e) (e_rpaused e) (e_pend_in e) (e_pend_close e)
        (e_small e) blocked wq bp wrlog.

Definition WR_HIGH : N := 1024.
Definition WR_HALF : N := 512.

Definition set_queue (e : env) (q : list slot) : env :=
  upd_q e q (e_resp e) (e_spawned e) (e_fresh e) (e_seq e) (e_gates e) (e_deferred e).
(* IoRef::encode on an open io: the bytes wait in the write buffer until the write task runs; reaching
   the high watermark raises DSP_W_BACKPRESSURE (and wakes the dispatcher) *)
Definition write_bytes (e : env) (bs : list N) : env :=
  let wq := e_wq e ++ bs in
  upd_wr e (e_blocked e) wq (e_bp e || (e_small e && (WR_HIGH <=? N.of_nat (length wq)))) (e_wrlog e).

(* the io write task runs (after the task that encoded): everything goes to a peer that accepts bytes *)
Definition flush_wq (e : env) : env :=
  if e_blocked e then e
  else upd_wr (upd_out e (e_ctl_logged e) (e_notified e) (e_log e) (e_fin e) (e_written e ++ e_wq e))
              false [] (e_bp e) (e_wrlog e).
Definition write_byte (e : env) (b : N) : env := write_bytes e [b].
Definition add_log (e : env) (c : N) : env :=
  upd_out e (e_ctl_logged e) (e_notified e) (e_log e ++ [c]) (e_fin e) (e_written e).

(* feed one event to io_step; the control codes of its outputs go to the log:
   Stop(Protocol) = 10 + detail (1 decode, 2 encode, 4 keep-alive, 5 read timeout / the harness' protocol
   error), Stop(Error) = 20, Stop(PeerGone) = 30 + (io error present), Wr(true) = 40, Wr(false) = 50 *)
Definition code_of (e : env) (detail : N) (c : ctl) : N :=
  match c with
  | StopProtocol => 10 + detail
  | StopError => 20
  | StopPeerGone => 30 + b2n (e_ioerr e)
  | Wr true => 40
  | Wr false => 50
  end.

Definition detail_of_err (h : option herr) (d : N) : N :=
  match h with Some HEncErr => 2 | Some HProtoErr => 5 | Some HSvcErr => 0 | None => d end.

Fixpoint apply_outputs (e : env) (detail : N) (os : list output) : env :=
  match os with
  | [] => e
  | CallControl (Wr b) :: r =>
    (* spawned: the call is made (and logged) after the current poll *)
    apply_outputs (upd_wr e (e_blocked e) (e_wq e) (e_bp e) (e_wrlog e ++ [code_of e detail (Wr b)])) detail r
  | CallControl c :: r => apply_outputs (add_log e (code_of e detail c)) detail r
  | NotifyStopping :: r =>
    apply_outputs (upd_out e (e_ctl_logged e) true (e_log e) (e_fin e) (e_written e)) detail r
  | Done ok :: r =>
    apply_outputs (upd_out e (e_ctl_logged e) (e_notified e) (e_log e) (if ok then 1 else 2) (e_written e)) detail r
  | Dispatch :: r => apply_outputs e detail r
  end.

(* feed one event to io_step and apply its outputs *)
Definition feed (e : env) (ev : event) (detail : N) : env * list output :=
  let pending_err := err (e_io e) in
  let '(s1, os) := io_step (e_io e) ev in
  let d := match ev with
           | EvFlush false => detail
           | EvControlReadyErr | EvHandler _ | EvControl _ | EvSvcShutdown | EvIoShutdown => detail
           | _ => detail_of_err pending_err detail
           end in
  (apply_outputs (upd_io e s1) d os, os).

(* ---------------------------------------------------------------- handlers and the response queue *)
Definition herr_of_res (r : N) : option herr :=
  if r =? 2 then Some HSvcErr else if r =? 3 then Some HProtoErr else if r =? 4 then Some HEncErr else None.

(* the match on item in handle_result / call_service *)
Definition apply_res (e : env) (id r : N) : env :=
  if r =? 0 then (if e_open e then write_byte e id else e)
  else if r =? 5 then (if e_open e then write_bytes e (id :: repeat 250 1099) else e)
  else if r =? 1 then e
  else if (r =? 4) && negb (e_open e) then e          (* IoRef::encode on a closing io: dropped, Ok(()) *)
  else match herr_of_res r with
       | Some h => fst (feed e (EvHandler h) 0)
       | None => e
       end.

(* while let Some(item) = queue.front_mut().and_then(ServiceResult::take) *)
Fixpoint drain (fuel : nat) (e : env) : env :=
  match fuel with
  | O => e
  | S k =>
    match e_queue e with
    | mkSlot _ id (Some r) :: rest => drain k (apply_res (set_queue e rest) id r)
    | _ => e
    end
  end.

Fixpoint find_pos (seq : N) (q : list slot) (i : nat) : option (nat * N) :=
  match q with
  | [] => None
  | sl :: r => if sl_seq sl =? seq then Some (i, sl_id sl) else find_pos seq r (S i)
  end.

Fixpoint set_res (seq r : N) (q : list slot) : list slot :=
  match q with
  | [] => []
  | sl :: t => if sl_seq sl =? seq then mkSlot (sl_seq sl) (sl_id sl) (Some r) :: t else sl :: set_res seq r t
  end.

(* DispatcherState::handle_result for the request with sequence number seq *)
Definition handle_result (e : env) (seq r : N) : env :=
  match find_pos seq (e_queue e) O with
  | Some (O, id) =>
    let e1 := apply_res (set_queue e (tl (e_queue e))) id r in
    drain (length (e_queue e1)) e1
  | Some (_, id) =>
    match herr_of_res r with
    | Some HSvcErr => fst (feed e (EvHandler HSvcErr) 0)
    | Some HProtoErr => fst (feed e (EvHandler HProtoErr) 0)
    | _ => set_queue e (set_res seq r (e_queue e))
    end
  | None => e
  end.

Definition remove_seq (seq : N) (l : list N) : list N := filter (fun x => negb (x =? seq)) l.

Fixpoint take_gate (id : N) (g : list (N * N)) : option (N * list (N * N)) :=
  match g with
  | [] => None
  | (i, r) :: t =>
    if i =? id then Some (r, t)
    else match take_gate id t with Some (x, t') => Some (x, (i, r) :: t') | None => None end
  end.

Fixpoint id_of_seq (seq : N) (q : list slot) : option N :=
  match q with [] => None | sl :: r => if sl_seq sl =? seq then Some (sl_id sl) else id_of_seq seq r end.

(* DispatcherInner::call_service; ids >= 200 answer at their first poll with result id - 200 *)
Definition call_service (e : env) (id : N) : env :=
  let seq := e_seq e in
  let now := if 200 <=? id then Some (id - 200)
             else match take_gate id (e_gates e) with Some (r, _) => Some r | None => None end in
  let e := match take_gate id (e_gates e) with
           | Some (_, g) => if 200 <=? id then e
                            else upd_q e (e_queue e) (e_resp e) (e_spawned e) (e_fresh e) (e_seq e) g (e_deferred e)
           | None => e
           end in
  match e_resp e with
  | Some _ =>
    let q := e_queue e ++ [mkSlot seq id None] in
    match now with
    | Some r => upd_q e q (e_resp e) (e_spawned e) (e_fresh e) (seq + 1) (e_gates e) (e_deferred e ++ [(seq, r)])
    | None => upd_q e q (e_resp e) (e_spawned e ++ [seq]) (e_fresh e ++ [seq]) (seq + 1) (e_gates e) (e_deferred e)
    end
  | None =>
    match now with
    | Some r =>
      match e_queue e with
      | [] => apply_res (upd_q e [] None (e_spawned e) (e_fresh e) (seq + 1) (e_gates e) (e_deferred e)) id r
      | q => upd_q e (q ++ [mkSlot seq id (Some r)]) None (e_spawned e) (e_fresh e) (seq + 1) (e_gates e) (e_deferred e)
      end
    | None =>
      upd_q e (e_queue e ++ [mkSlot seq id None]) (Some seq) (e_spawned e) (e_fresh e) (seq + 1) (e_gates e)
            (e_deferred e)
    end
  end.

(* the inline `response` future at the top of poll: ready when its gate has been opened *)
Definition poll_inline (e : env) : env :=
  match e_resp e with
  | Some seq =>
    match id_of_seq seq (e_queue e) with
    | Some id =>
      match take_gate id (e_gates e) with
      | Some (r, g) =>
        handle_result (upd_q e (e_queue e) None (e_spawned e) (e_fresh e) (e_seq e) g (e_deferred e)) seq r
      | None => e
      end
    | None => e
    end
  | None => e
  end.

(* ---------------------------------------------------------------- the codec *)
Inductive dec := DItem (id : N) (rest : list N) (h : option N) | DNone (rest : list N) (h : option N) | DErr.

(* frame_len < 200: fixed frames, first byte = id, a first byte 255 is an error.
   frame_len = 200: a two-byte header [id; n] is consumed as soon as it is complete, then n payload bytes *)
Definition decode (flen : N) (buf : list N) (h : option N) : dec :=
  if flen =? 200 then
    match h with
    | Some x =>
      let n := x mod 1000 in
      if n <=? N.of_nat (length buf) then DItem (x / 1000) (skipn (N.to_nat n) buf) None else DNone buf h
    | None =>
      match buf with
      | [] => DNone buf None
      | 255 :: _ => DErr
      | [_] => DNone buf None
      | id :: n :: rest =>
        (* header consumed; the id is kept as the first payload byte position: the item is id *)
        if n =? 0 then DItem id rest None
        else if n <=? N.of_nat (length rest) then DItem id (skipn (N.to_nat n) rest) None
        else DNone rest (Some (id * 1000 + n))
      end
    end
  else
    match buf with
    | [] => DNone buf None
    | 255 :: _ => DErr
    | id :: _ =>
      if flen <=? N.of_nat (length buf) then DItem id (skipn (N.to_nat flen) buf) None else DNone buf None
    end.

(* ---------------------------------------------------------------- Dispatcher::poll *)
Definition t_apply (e : env) (r : res (tstate * list tout)) : env * list tout :=
  match r with
  | Ok (t, o) => (upd_t e t, o)
  | _ => (upd_out e (e_ctl_logged e) (e_notified e) (e_log e) 9999 (e_written e), [])
  end.

Definition halt_t (e : env) : env := upd_t e (halt (e_t e)).

Definition tres_of (o : list tout) : tres :=
  match o with StopKeepAlive :: _ => TKeepAlive | StopRead :: _ => TRead | [] => TOk end.

(* poll_read_ready un-pauses the read task: it now reads what the peer wrote / sees the close *)
Definition resume (e : env) : env :=
  if e_rpaused e then
    match e_pend_in e with
    | _ :: _ =>
      (* the read task hands over the bytes first; it sees the close only after the dispatcher has
         consumed them (one more round) *)
      upd_buf (upd_rd e (negb (e_pend_close e =? 0)) [] (e_pend_close e)) (e_rbuf e ++ e_pend_in e) (e_hdr e)
    | [] =>
      let e1 := upd_rd e false [] (if e_pend_close e =? 0 then 0 else 3) in
      if e_pend_close e =? 1 then upd_conn e1 false true (e_ioerr e1) (e_peer e1)
      else if e_pend_close e =? 2 then upd_conn e1 false true true (e_peer e1)
      else e1
    end
  else e.

(* one iteration of the loop; returns (env, continue?) *)
Definition iterate (e : env) : env * bool :=
  match phase (e_io e) with
  | Processing =>
    match err (e_io e) with
    | Some _ =>
      let '(e1, _) := feed e (EvRecv RvNone) 0 in (halt_t e1, true)
    | None =>
      if e_ready e =? 1 then let '(e1, _) := feed e (EvService RErrSvc) 0 in (halt_t e1, true)
      else if e_ready e =? 2 then let '(e1, _) := feed e (EvService RErrProto) 5 in (halt_t e1, true)
      else if e_ready e =? 3 then
        (* flags.remove(KA_TIMEOUT|READ_TIMEOUT); stop_timer; poll_read_pause *)
        if e_closed e then
          let e0 := upd_t e (fst (pause (e_t e))) in
          let '(e1, _) := feed e0 (EvService (RNotReady PPeerGone)) 0 in (halt_t e1, true)
        else
          let '(e0, o) := t_apply e (Ok (pause (e_t e))) in
          match o with
          | _ :: _ => let '(e1, _) := feed e0 (EvService (RNotReady PKeepAlive)) 4 in
                      (halt_t (upd_rd e1 true (e_pend_in e1) (e_pend_close e1)), true)
          | [] =>
            if e_bp e0 then
              (* IoStatusUpdate::WriteBackpressure; the flag is dropped when the buffer is at most half full *)
              let e0' := upd_wr (upd_rd e0 true (e_pend_in e0) (e_pend_close e0)) (e_blocked e0) (e_wq e0)
                                (negb (N.of_nat (length (e_wq e0)) <=? WR_HALF)) (e_wrlog e0) in
              let '(e1, _) := feed e0' (EvService (RNotReady PWrBack)) 0 in (e1, true)
            else
            let '(e1, _) := feed e0 (EvService (RNotReady PPending)) 0 in
                  (upd_rd e1 true (e_pend_in e1) (e_pend_close e1), false)
          end
      else
        match decode (e_flen e) (e_rbuf e) (e_hdr e) with
        | DErr => let '(e1, _) := feed e (EvRecv RvDecodeErr) 1 in (halt_t e1, true)
        | DItem id rest h =>
          let e0 := upd_t (upd_buf e rest h) (update_timer (e_cfg e) (e_t e) true (N.of_nat (length rest))) in
          let '(e1, _) := feed e0 (EvRecv RvItem) 0 in
          (call_service e1 id, true)
        | DNone rest h =>
          let e0 := upd_buf e rest h in
          if e_closed e0 then let '(e1, _) := feed e0 (EvRecv RvPeerGone) 0 in (halt_t e1, true)
          else if dsp_timeout (e_t e0) then
            let '(e1, o) := t_apply e0 (handle_timeout (e_cfg e0) (clear_dsp (e_t e0))) in
            if e_fin e1 =? 9999 then (e1, false)
            else
              let '(e2, _) := feed e1 (EvRecv (RvTimer (tres_of o))) (match tres_of o with TRead => 5 | _ => 4 end) in
              (e2, true)
          else if e_bp e0 then
            let '(e1, _) := feed e0 (EvRecv RvWrBack) 0 in (e1, true)
          else
            let e1 := upd_t e0 (update_timer (e_cfg e0) (e_t e0) false (N.of_nat (length rest))) in
            let '(e2, _) := feed e1 (EvRecv RvNone) 0 in (resume e2, false)
        end
    end
  | Backpressure =>
    (* io.poll_flush(cx, false) *)
    let len := N.of_nat (length (e_wq e)) in
    if (0 <? len) && e_closed e then
      let '(e1, _) := feed (upd_conn e (e_open e) (e_closed e) true (e_peer e)) (EvFlush false) 0 in
      (halt_t (upd_conn e1 (e_open e1) (e_closed e1) (e_ioerr e) (e_peer e1)), true)
    else if (0 <? len) && (WR_HIGH <=? len) then (upd_wr e (e_blocked e) (e_wq e) true (e_wrlog e), false)
    else if e_closed e then
      let '(e1, _) := feed (upd_conn e (e_open e) (e_closed e) true (e_peer e)) (EvFlush false) 0 in
      (halt_t (upd_conn e1 (e_open e1) (e_closed e1) (e_ioerr e) (e_peer e1)), true)
    else
      let e0 := upd_wr e (e_blocked e) (e_wq e) false (e_wrlog e) in
      (* poll_service *)
      match err (e_io e0) with
      | Some _ => let '(e1, _) := feed e0 (EvFlush true) 0 in (halt_t e1, true)
      | None =>
        if e_ready e0 =? 1 then let '(e1, _) := feed e0 (EvService RErrSvc) 0 in (halt_t e1, true)
        else if e_ready e0 =? 2 then let '(e1, _) := feed e0 (EvService RErrProto) 5 in (halt_t e1, true)
        else if e_ready e0 =? 3 then
          let '(e1, o) := t_apply e0 (Ok (pause (e_t e0))) in
          match o with
          | _ :: _ => let '(e2, _) := feed e1 (EvService (RNotReady PKeepAlive)) 4 in
                      (halt_t (upd_rd e2 true (e_pend_in e2) (e_pend_close e2)), true)
          | [] => let '(e2, _) := feed e1 (EvService (RNotReady PPending)) 0 in
                  (upd_rd e2 true (e_pend_in e2) (e_pend_close e2), false)
          end
        else let '(e1, _) := feed e0 (EvFlush true) 0 in (e1, true)
      end
  | Stop =>
    (* service readiness is still polled *)
    let e0 := if negb (ready_err (e_io e)) && ((e_ready e =? 1) || (e_ready e =? 2))
              then fst (feed e (EvService RErrSvc) 0) else e in
    let e1 := e0 in
    if e_ctl_mode e1 =? 1 then let '(e2, _) := feed e1 (EvControl true) 0 in (e2, true)
    else match e_ctl_gate e1 with
         | Some r =>
           let e2 := upd_modes e1 (e_ready e1) (e_ctl_ready e1) None (e_sd_open e1) in
           let e3 := if (r =? 2) && e_open e2 then write_byte e2 238 else e2 in
           let '(e4, _) := feed e3 (EvControl (negb (r =? 1))) 0 in (e4, true)
         | None => (e1, false)
         end
  | Shutdown =>
    if e_sd_gated e && negb (e_sd_open e) then (e, false)
    else let '(e1, _) := feed e EvSvcShutdown 0 in (e1, true)
  | ShutdownIo =>
    (* io.poll_shutdown: start_shutdown; with an in-memory peer the io stops within the same settle *)
    let term := e_rpaused e && ((e_pend_close e =? 1) || (e_pend_close e =? 2)) in
    let e0 := upd_conn e false true (e_ioerr e || (e_rpaused e && (e_pend_close e =? 2))) (e_peer e) in
    let e0 := if term then upd_rd e0 false [] 3 else e0 in
    if e_blocked e && negb (e_closed e) && (e_pend_close e =? 0) && match e_wq e with [] => false | _ => true end
    then (upd_conn e false false (e_ioerr e) (e_peer e), false)
    else
    let '(e1, _) := feed e0 EvIoShutdown 0 in (e1, true)
  | Finished => (e, false)
  end.

Fixpoint loop (fuel : nat) (e : env) : env :=
  match fuel with
  | O => e
  | S k => let '(e1, go) := iterate e in if go then loop k e1 else e1
  end.

(* when the dispatcher future completes it is dropped: the inline response future and (through the
   dropped `stopping` condition) every spawned handler task go away *)
Definition drop_handlers (e : env) : env :=
  if e_fin e =? 0 then e
  else upd_t (upd_q e (e_queue e) None [] [] (e_seq e) (e_gates e) []) (halt (e_t e)).

(* released spawned tasks (stopping.notify()): each runs handle_result(Ok(None)); tasks spawned during
   the very poll that notified have not registered their waiter yet and stay until the drop *)
Definition run_released (e : env) : env :=
  if e_notified e then
    let old := filter (fun s => negb (existsb (N.eqb s) (e_fresh e))) (e_spawned e) in
    let e1 := upd_q e (e_queue e) (e_resp e) (e_fresh e) [] (e_seq e) (e_gates e) (e_deferred e) in
    let e2 := fold_left (fun st s => handle_result st s 1) old e1 in
    upd_out e2 (e_ctl_logged e2) false (e_log e2) (e_fin e2) (e_written e2)
  else upd_q e (e_queue e) (e_resp e) (e_spawned e) [] (e_seq e) (e_gates e) (e_deferred e).

Definition run_deferred (e : env) : env :=
  let d := e_deferred e in
  let e1 := upd_q e (e_queue e) (e_resp e) (e_spawned e) (e_fresh e) (e_seq e) (e_gates e) [] in
  fold_left (fun st x => handle_result st (fst x) (snd x)) d e1.

Definition poll_once_disp (e : env) : env :=
  if e_fin e =? 0 then
    if e_ctl_ready e =? 1 then drop_handlers (fst (feed e EvControlReadyErr 0))
    else
      let e1 := loop 64 (poll_inline (flush_wq e)) in
      (* a read task resumed in this poll that finds the peer gone terminates the io before the write
         task has flushed what this poll encoded *)
      let e2 := if e_pend_close e1 =? 3
                then upd_wr (upd_rd e1 (e_rpaused e1) (e_pend_in e1) 0) (e_blocked e1) [] (e_bp e1) (e_wrlog e1)
                else e1 in
      let e3 := drop_handlers (run_deferred (run_released e2)) in
      flush_wq (upd_wr (upd_out e3 (e_ctl_logged e3) (e_notified e3) (e_log e3 ++ e_wrlog e3) (e_fin e3) (e_written e3))
                       (e_blocked e3) (e_wq e3) (e_bp e3) [])
  else e.

(* settle(): poll until nothing changes; three rounds are enough for every chain in this engine *)
Definition settle (e : env) : env := poll_once_disp (poll_once_disp (poll_once_disp e)).

(* ---------------------------------------------------------------- operations of a case *)
Fixpoint seq_of_id (id : N) (q : list slot) (acc : option N) : option N :=
  match q with
  | [] => acc
  | sl :: r => seq_of_id id r (if sl_id sl =? id then Some (sl_seq sl) else acc)
  end.

(* op 2: the gate of request id opens with result r; the boolean tells whether the dispatcher task is
   woken: the inline future is polled by the dispatcher itself, a spawned task calls
   notify_dispatcher() when handle_result returns true (error, or the queue became empty) *)
Definition is_err_res (r : N) : bool := (r =? 2) || (r =? 3).

Definition open_gate (e : env) (id r : N) : env * bool :=
  let remember := upd_q e (e_queue e) (e_resp e) (e_spawned e) (e_fresh e) (e_seq e) (e_gates e ++ [(id, r)])
                        (e_deferred e) in
  match seq_of_id id (e_queue e) None with
  | Some seq =>
    if existsb (N.eqb seq) (e_spawned e) then
      let first := match e_queue e with sl :: _ => sl_seq sl =? seq | [] => false end in
      let e1 := handle_result (upd_q e (e_queue e) (e_resp e) (remove_seq seq (e_spawned e)) (e_fresh e) (e_seq e)
                                     (e_gates e) (e_deferred e)) seq r in
      (* raising DSP_W_BACKPRESSURE wakes the dispatcher as well *)
      (e1, is_err_res r || (first && match e_queue e1 with [] => true | _ => false end) ||
           (e_bp e1 && negb (e_bp e)))
    else
      match e_resp e with
      | Some s => if s =? seq then (poll_once_disp remember, true) else (remember, false)
      | None => (remember, false)
      end
  | None => (remember, false)
  end.

(* the gate opens but nobody has run yet *)
Definition open_gate_quiet (e : env) (id r : N) : env * bool :=
  (upd_q e (e_queue e) (e_resp e) (e_spawned e) (e_fresh e) (e_seq e) (e_gates e ++ [(id, r)]) (e_deferred e), true).

Fixpoint open_gates (fuel : nat) (e : env) (woke : bool) (l : list N) : env * bool :=
  match fuel with
  | O => (e, woke)
  | S k => match l with
           | id :: r :: t => let '(e1, w) := open_gate e id r in open_gates k e1 (woke || w) t
           | _ => (e, woke)
           end
  end.

Definition step_op (e : env) (f : list N) : env :=
  match f with
  | [1] => e
  | 1 :: bytes =>
    if e_peer e && negb (e_closed e) then
      if e_rpaused e then
        upd_rd e true (e_pend_in e ++ bytes) (e_pend_close e)
      else settle (upd_buf e (e_rbuf e ++ bytes) (e_hdr e))
    else e
  | 2 :: l => let '(e1, woke) := open_gates (length l) e false l in if woke then settle e1 else e1
  | [3] =>
    if e_peer e then
      if e_rpaused e && negb (e_closed e) && e_open e      (* a shutdown in progress watches the peer itself *)
      then upd_conn (upd_rd e true (e_pend_in e) 1) (e_open e) (e_closed e) (e_ioerr e) false
      else settle (upd_conn e false true (e_ioerr e) false)
    else e
  | [4] =>
    if e_peer e && negb (e_closed e) then
      if e_rpaused e && e_open e then upd_rd e true (e_pend_in e) 2
      else settle (upd_conn e false true true true)
    else e
  | [5; r] =>
    (* the gate wakes the dispatcher only when a Stop call is waiting on it *)
    let waiting := match phase (e_io e), e_ctl_gate e with Stop, None => e_ctl_mode e =? 0 | _, _ => false end in
    let e1 := upd_modes e (e_ready e) (e_ctl_ready e) (Some r) (e_sd_open e) in
    if waiting then settle e1 else e1
  | [6] =>
    (* start_shutdown wakes the read task: bytes that arrived while it was paused reach the read buffer *)
    let e := upd_rd (upd_buf e (e_rbuf e ++ e_pend_in e) (e_hdr e)) (e_rpaused e) [] (e_pend_close e) in
    (* graceful close: with bytes the peer does not accept the io keeps flushing and is not stopped yet *)
    if e_blocked e && negb (e_closed e) && e_peer e && (e_pend_close e =? 0) &&
       match e_wq e with [] => false | _ => true end
    then settle (upd_conn e false false (e_ioerr e) (e_peer e))
    else settle (upd_conn e false true (e_ioerr e) (e_peer e))
  | [7] => settle (upd_conn e false true (e_ioerr e) (e_peer e))
  | [8; m] => settle (upd_modes e m (e_ctl_ready e) (e_ctl_gate e) (e_sd_open e))
  | [8; m; _] => upd_modes e m (e_ctl_ready e) (e_ctl_gate e) (e_sd_open e)
  | [9] => settle (fst (t_apply e (timer_step (e_cfg e) (e_t e) Inject)))
  | [10; m] => settle (upd_modes e (e_ready e) m (e_ctl_gate e) (e_sd_open e))
  | [12; c] =>
    if negb (e_peer e) then e
    else if c =? 0 then upd_wr e true (e_wq e) (e_bp e) (e_wrlog e)
    else
      (* the peer accepts bytes again: the write task flushes everything and wakes the dispatcher *)
      let e1 := upd_wr e false [] (e_bp e) (e_wrlog e) in
      let e2 := if e_closed e then e1
                else upd_out e1 (e_ctl_logged e1) (e_notified e1) (e_log e1) (e_fin e1) (e_written e1 ++ e_wq e) in
      (* a graceful shutdown that was waiting for the flush completes *)
      if negb (e_open e2) && negb (e_closed e2)
      then settle (upd_conn (settle e2) false true (e_ioerr e2) (e_peer e2))
      else settle e2
  | [13; id; r] =>
    (* the gate of the inline handler opens and a timer expiry is delivered before the dispatcher runs *)
    let e1 := fst (t_apply e (timer_step (e_cfg e) (e_t e) Inject)) in
    settle (fst (open_gate_quiet e1 id r))
  | [11] =>
    let waiting := match phase (e_io e) with Shutdown => e_sd_gated e && negb (e_sd_open e) | _ => false end in
    let e1 := upd_modes e (e_ready e) (e_ctl_ready e) (e_ctl_gate e) true in
    if waiting then settle e1 else e1
  | _ => e
  end.

Definition nth_cfg (c : list N) (i : nat) : N := nth i c 0.

Definition env_init (c : list N) : env :=
  let ka := nth_cfg c 0 in
  let flen := if nth_cfg c 1 =? 0 then 1 else nth_cfg c 1 in
  let rr := if nth_cfg c 4 =? 0 then None else Some (mkRr (nth_cfg c 4) (nth_cfg c 5) (nth_cfg c 6)) in
  let cfg := mkTcfg ka rr in
  mkEnv io_init (t_init cfg) cfg flen (nth_cfg c 2) (nth_cfg c 3 =? 1) [] None true false false true 0 0
        [] None [] [] 0 [] [] None false false false [] 0 [] false [] 0 (nth_cfg c 10 =? 1) false [] false [].

Definition observe (e : env) : list N :=
  let pending := (match e_resp e with Some _ => 1 | None => 0 end) + N.of_nat (length (e_spawned e)) in
  let tm := match timer (e_t e) with
            | Some dl => ((dl - now (e_t e)) + 5) / 10 * 10
            | None => 0
            end in
  e_fin e :: pending :: tm :: N.of_nat (length (e_log e)) ::
  e_log e ++ [N.of_nat (length (filter (N.eqb 250) (e_written e)))] ++
  filter (fun b => negb (b =? 250)) (e_written e).

Fixpoint run_ops (e : env) (ops : list (list N)) : list (list N) :=
  match ops with
  | [] => []
  | f :: r => let e1 := flush_wq (step_op e f) in observe e1 :: run_ops e1 r
  end.

Definition panicked (o : list (list N)) : bool :=
  existsb (fun f => match f with 9999 :: _ => true | _ => false end) o.

Definition run_iostate (c : list (list N)) : list (list N) :=
  match c with
  | [] => []
  | cfg :: ops =>
    let o := run_ops (settle (env_init cfg)) ops in
    if panicked o then [[9999]] else o
  end.
