(* Model/InboundBurst.v -- engines "inb3b" = 46, "inb5b" = 47: the server model of Model/Inbound.v with one more
   operation,
       4 :: f      the peer writes the packet of operation f (= 1 :: ...) and NOTHING RUNS before the next operation
   so that several frames reach the endpoint in ONE read (a pipelined burst in one TCP segment).  The observation of
   a held operation is taken without running a task.  Definitions only. *)
From MV Require Import Base.Prelude.
From MV Require Import Model.RespQueue Model.Inbound.

Definition is_hold (f : list N) : bool := match f with x :: _ => x =? 4 | [] => false end.

Definition settle_op (f : list N) (s : st) : st :=
  if is_hold f then step_op (tl f) s else run_all 400 (step_op f s).

Fixpoint run_ops_b (ops : list (list N)) (s : st) : list (list N) :=
  match ops with
  | [] => []
  | f :: r => let s1 := settle_op f s in observe s1 :: run_ops_b r (clear_obs s1)
  end.

Fixpoint any_panic_b (ops : list (list N)) (s : st) : bool :=
  match ops with
  | [] => panicked (q_ s)
  | f :: r => let s1 := settle_op f s in panicked (q_ s1) || any_panic_b r (clear_obs s1)
  end.

Definition run_inb_b (is5 : bool) (c : list (list N)) : list (list N) :=
  match c with
  | [] => []
  | cf :: ops => if any_panic_b ops (init_st is5 cf) then [[9999]] else run_ops_b ops (init_st is5 cf)
  end.

Definition run_inb3b (c : list (list N)) : list (list N) := run_inb_b false c.
Definition run_inb5b (c : list (list N)) : list (list N) := run_inb_b true c.

Definition not_held (f : list N) : bool := negb (is_hold f).
