(* Model/CtlWrap.v -- the glue between the framed dispatcher's write back-pressure notifications and the sink:
     /repo/src/v3/default.rs, /repo/src/v5/default.rs   (ControlService: the wrapper a server / client puts around
                                                          the application's control service)
     /repo/src/io.rs                                     (Dispatcher: `spawn(inner.control.call(Control::wr(b)))`)
   Engines "ctlwrap3" / "ctlwrap5" (44 / 45), harness/src/engines/ctlwrap.rs.

   ControlService::call(req):
       match &req { .. Control::WrBackpressure(status) =>
                         if status.enabled() { shared.enable_wr_backpressure() }
                         else                { shared.disable_wr_backpressure() } }
       ctx.call(&self.svc, req).await            (the application's control service)
   The sink is told BEFORE the application's control service is called, i.e. in the first atomic segment of the
   task io.rs spawns for the notification (the ISSUE of the notification); the rest of that task is the
   application's call, which may suspend for any time and complete in any order relative to the calls of later
   notifications.  Its completion touches nothing of the connection state (`.map(|_| None)`).

   The dispatcher side (io.rs): IoDispatcherState::Processing -> Backpressure when the io reports
   WriteBackpressure (notification "on"), Backpressure -> Processing when the write buffer is flushed
   (notification "off"); a dispatcher in the Backpressure state does not read.  Once the io is closed nothing is
   issued any more.  [bp] is that state.

   The sink state is the one of Model/Sink.v (server role); enable/disable_wr_backpressure is [Sink.do_wrb]
   (operation [Sink.OWrb]), the tasks are its kinds 5 (MqttSink::ready()) and 1 (QoS 1 send_at_least_once), the
   peer's PUBACK is [Sink.OAcks [(1, id)]].  The 2048 byte QoS 0 PUBLISH the harness writes to fill the write
   buffer does not touch the sink's books (encode_publish with no streamed payload outstanding: Ok) and is left out.

   Definitions only. *)
From MV Require Import Base.Prelude.
From MV Require Model.Sink.

Record st := mkSt {
  sk : Sink.sink;          (* MqttShared + the tasks using the sink *)
  bp : bool;               (* the dispatcher is in IoDispatcherState::Backpressure *)
  issued : N;              (* WrBackpressure calls the application's control service has received *)
  done : list N            (* the calls (1-based numbers, in issue order) that have completed *)
}.

Definition init (v cap : N) : st := mkSt (Sink.sink_init v false (Sink.U16 cap)) false 0 [].

Inductive op :=
| ONotify (b : bool)       (* write back-pressure begins / ends at the io *)
| OComplete (k : N)        (* the application's k-th control call completes *)
| OReady (t : N)           (* start task t = MqttSink::ready(), polled once *)
| OPoll (t : N)            (* poll task t once *)
| OSend (t : N)            (* start task t = QoS 1 send_at_least_once, polled once *)
| OAck (id : N)            (* the peer's PUBACK *)
| ONop.

Definition is_open (s : st) : bool := Sink.io (sk s) =? 0.

(* the notification the dispatcher issues in this operation, if any *)
Definition issues (s : st) (o : op) : option bool :=
  match o with
  | ONotify b => if is_open s && negb (Bool.eqb b (bp s)) then Some b else None
  | _ => None
  end.

(* the task spawned for a notification, up to the point where the application's service suspends:
   ControlService::call sets / clears the flag (and wakes the parked senders), then the application is called *)
Definition notify (s : st) (b : bool) : st :=
  mkSt (Sink.sink_op (sk s) (Sink.OWrb b)) b (issued s + 1) (done s).

Definition complete (s : st) (k : N) : st :=
  if (1 <=? k) && (k <=? issued s) && negb (Sink.memN k (done s))
  then mkSt (sk s) (bp s) (issued s) (k :: done s)
  else s.

Definition on_sink (s : st) (o : Sink.op) : st := mkSt (Sink.sink_op (sk s) o) (bp s) (issued s) (done s).

Definition step (s : st) (o : op) : st :=
  match o with
  | ONotify b => match issues s o with Some v => notify s v | None => s end
  | OComplete k => complete s k
  | OReady t => on_sink s (Sink.OStart t 5 0 0)
  | OPoll t => on_sink s (Sink.OPoll t)
  | OSend t => on_sink s (Sink.OStart t 1 0 0)
  | OAck id => if bp s then s else on_sink s (Sink.OAcks [(1, Sink.U16 id)])
  | ONop => s
  end.

Definition run_from (s : st) (ops : list op) : st := fold_left step ops s.

(* the values of the notifications issued along a run, oldest first *)
Fixpoint notifications (s : st) (ops : list op) : list bool :=
  match ops with
  | [] => []
  | o :: r =>
    match issues s o with
    | Some b => b :: notifications (step s o) r
    | None => notifications (step s o) r
    end
  end.

(* MqttSink::is_ready *)
Definition is_ready (s : st) : bool := negb (Sink.is_closed (sk s)) && Sink.shared_is_ready (sk s).

(* Flags::WRB_ENABLED *)
Definition flag (s : st) : bool := Sink.wrb (sk s).

(* ---------------------------------------------------------------- numeric form, observation, engines *)
Definition parse_op (f : list N) : op :=
  match f with
  | 1 :: b :: _ => ONotify (negb (b =? 0))
  | 2 :: k :: _ => OComplete k
  | 3 :: t :: _ => OReady t
  | 4 :: t :: _ => OPoll t
  | 5 :: t :: _ => OSend t
  | 6 :: id :: _ => OAck id
  | _ => ONop
  end.

(* task status of the observation: 1 pending, 2 done Ok, 3 done Err (9 panicked) *)
Definition status3 (n : N) : N := if n <=? 2 then n else if n =? 9 then 9 else 3.

Fixpoint obs_tasks (l : list (N * Sink.task)) : list N :=
  match l with
  | [] => []
  | (t, x) :: r => t :: status3 (Sink.status_of (Sink.tst x)) :: obs_tasks r
  end.

Definition observe (s : st) : list N :=
  [b2n (is_ready s); issued s; Sink.lenN (done s)] ++ obs_tasks (Sink.tasks (sk s)).

Fixpoint run_ops (s : st) (ops : list (list N)) : list (list N) :=
  match ops with
  | [] => []
  | f :: r => let s1 := step s (parse_op f) in observe s1 :: run_ops s1 r
  end.

Definition run_ctlwrap (v : N) (c : list (list N)) : list (list N) :=
  match c with
  | (cp :: _) :: ops => run_ops (init v cp) ops
  | _ => [[9997]]
  end.

Definition run_ctlwrap3 (c : list (list N)) : list (list N) := run_ctlwrap 3 c.
Definition run_ctlwrap5 (c : list (list N)) : list (list N) := run_ctlwrap 5 c.
