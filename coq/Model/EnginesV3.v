(* Model/EnginesV3.v -- engines of the correspondence check for the MQTT v3.1.1 codec model.
     run_v3 10 = "dec3"    run_v3 11 = "enc3"    run_v3 12 = "varint"

   Dump grammar (flat, self-delimiting; the same text is printed by dec3 and read by enc3):
     bool     ::= 0 | 1
     qos      ::= 0 | 1 | 2
     str      ::= len b_1 .. b_len
     opt(X)   ::= 0 | 1 X
     id       ::= 1..65535
     packet   ::= 1 connect | 2 connack | 4 id | 5 id | 6 id | 7 id          (CONNECT CONNACK PUBACK PUBREC PUBREL PUBCOMP)
                | 8 id n (str qos)^n | 9 id n rc^n | 10 id n str^n | 11 id   (SUBSCRIBE SUBACK UNSUBSCRIBE UNSUBACK)
                | 12 | 13 | 14                                               (PINGREQ PINGRESP DISCONNECT)
     connect  ::= clean_session keep_alive opt(lastwill) str(client_id) opt(str username) opt(str password)
     lastwill ::= qos retain str(topic) str(message)
     connack  ::= return_code(0..6) session_present
     rc       ::= 0 | 1 | 2 | 128
     publish  ::= dup retain qos str(topic) opt(id) payload_size
   (field order = field order of the Rust structs; the packet tag is the MQTT packet type number) *)
From MV Require Import Base.Prelude Base.Res Base.VarInt Base.Utf8 Model.CodecV3.

(* ------------------------------------------------------------------ printing *)
Definition dump_str (s : bytes) : list N := len s :: s.
Definition dump_opt {A} (f : A -> list N) (o : option A) : list N :=
  match o with None => [0] | Some a => 1 :: f a end.
Definition dump_id (i : N) : list N := [i].

Definition dump_last_will (w : last_will) : list N :=
  qos_to_n (lw_qos w) :: b2n (lw_retain w) :: dump_str (lw_topic w) ++ dump_str (lw_message w).

Definition dump_connect (c : connect) : list N :=
  b2n (c_clean_session c) :: c_keep_alive c ::
  dump_opt dump_last_will (c_last_will c) ++ dump_str (c_client_id c)
  ++ dump_opt dump_str (c_username c) ++ dump_opt dump_str (c_password c).

Definition dump_publish (p : publish) : list N :=
  b2n (p_dup p) :: b2n (p_retain p) :: qos_to_n (p_qos p) ::
  dump_str (p_topic p) ++ dump_opt dump_id (p_packet_id p) ++ [p_payload_size p].

Definition dump_packet (p : packet) : list N :=
  match p with
  | PConnect c => 1 :: dump_connect c
  | PConnectAck a => [2; reason_to_n (ca_return_code a); b2n (ca_session_present a)]
  | PPublishAck i => [4; i]
  | PPublishReceived i => [5; i]
  | PPublishRelease i => [6; i]
  | PPublishComplete i => [7; i]
  | PSubscribe i fs =>
    8 :: i :: N.of_nat (length fs) :: flat_map (fun f => dump_str (fst f) ++ [qos_to_n (snd f)]) fs
  | PSubscribeAck i st => 9 :: i :: N.of_nat (length st) :: map sub_rc_byte st
  | PUnsubscribe i fs => 10 :: i :: N.of_nat (length fs) :: flat_map dump_str fs
  | PUnsubscribeAck i => [11; i]
  | PPingRequest => [12]
  | PPingResponse => [13]
  | PDisconnect => [14]
  end.

Definition show_item (it : item) : list N :=
  match it with
  | IPacket p rl => 1 :: rl :: dump_packet p
  | IPublish p payload rl => 2 :: rl :: dump_publish p ++ len payload :: payload
  | IChunk payload eof => 3 :: b2n eof :: payload
  end.

(* ------------------------------------------------------------------ parsing (None = not a dump) *)
Definition parser (A : Type) := list N -> option (A * list N).

Definition p_num (max : N) : parser N :=
  fun s => match s with v :: r => if v <=? max then Some (v, r) else None | [] => None end.
Definition p_bool : parser bool :=
  fun s => match s with 0 :: r => Some (false, r) | 1 :: r => Some (true, r) | _ => None end.
Definition p_qos : parser qos :=
  fun s => match s with
           | 0 :: r => Some (AtMostOnce, r)
           | 1 :: r => Some (AtLeastOnce, r)
           | 2 :: r => Some (ExactlyOnce, r)
           | _ => None
           end.
Definition p_id : parser N :=
  fun s => match s with v :: r => if nz16_ok v then Some (v, r) else None | [] => None end.
(* raw bytes with a length prefix *)
Definition p_bytes : parser bytes :=
  fun s => match s with
           | n :: r =>
             if n <=? len r then
               let (b, r') := split_at n r in
               if bytes_ok b then Some (b, r') else None
             else None
           | [] => None
           end.
(* ByteString: must be valid UTF-8 *)
Definition p_str : parser bytes :=
  fun s => match p_bytes s with
           | Some (b, r) => if utf8_valid b then Some (b, r) else None
           | None => None
           end.
Definition p_opt {A} (p : parser A) : parser (option A) :=
  fun s => match s with
           | 0 :: r => Some (None, r)
           | 1 :: r => match p r with Some (a, r') => Some (Some a, r') | None => None end
           | _ => None
           end.

Definition pbind {A B} (p : parser A) (k : A -> parser B) : parser B :=
  fun s => match p s with Some (a, r) => k a r | None => None end.
Definition pret {A} (a : A) : parser A := fun s => Some (a, s).
Notation "'let+' x ':=' p 'in' k" := (pbind p (fun x => k))
  (at level 200, x pattern, p at level 100, k at level 200).

(* n repetitions; n is bounded by the number of numbers left *)
Fixpoint p_rep {A} (p : parser A) (n : nat) : parser (list A) :=
  match n with
  | O => pret []
  | S k => let+ a := p in let+ l := p_rep p k in pret (a :: l)
  end.
Definition p_list {A} (p : parser A) : parser (list A) :=
  fun s => match s with
           | n :: r => if n <=? len r then p_rep p (N.to_nat n) r else None
           | [] => None
           end.

Definition p_last_will : parser last_will :=
  let+ q := p_qos in let+ rt := p_bool in let+ t := p_str in let+ m := p_bytes in pret (mkLastWill q rt t m).

Definition p_connect : parser connect :=
  let+ cs := p_bool in let+ ka := p_num U16MAX in let+ lw := p_opt p_last_will in let+ cid := p_str in
  let+ u := p_opt p_str in let+ pw := p_opt p_bytes in pret (mkConnect cs ka lw cid u pw).

Definition p_publish : parser publish :=
  let+ d := p_bool in let+ rt := p_bool in let+ q := p_qos in let+ t := p_str in let+ i := p_opt p_id in
  let+ ps := p_num U32MAX in pret (mkPublish d rt q t i ps).

Definition p_reason : parser connack_reason :=
  fun s => match s with
           | v :: r => match reason_of_n v with Ok x => Some (x, r) | _ => None end
           | [] => None
           end.

Definition p_sub_rc : parser sub_rc :=
  fun s => match s with
           | 0 :: r => Some (SrcSuccess AtMostOnce, r)
           | 1 :: r => Some (SrcSuccess AtLeastOnce, r)
           | 2 :: r => Some (SrcSuccess ExactlyOnce, r)
           | 128 :: r => Some (SrcFailure, r)
           | _ => None
           end.

Definition p_packet : parser packet :=
  fun s =>
    match s with
    | 1 :: r => (let+ c := p_connect in pret (PConnect c)) r
    | 2 :: r => (let+ rc := p_reason in let+ sp := p_bool in pret (PConnectAck (mkConnectAck rc sp))) r
    | 4 :: r => (let+ i := p_id in pret (PPublishAck i)) r
    | 5 :: r => (let+ i := p_id in pret (PPublishReceived i)) r
    | 6 :: r => (let+ i := p_id in pret (PPublishRelease i)) r
    | 7 :: r => (let+ i := p_id in pret (PPublishComplete i)) r
    | 8 :: r => (let+ i := p_id in
                 let+ fs := p_list (let+ t := p_str in let+ q := p_qos in pret (t, q)) in
                 pret (PSubscribe i fs)) r
    | 9 :: r => (let+ i := p_id in let+ st := p_list p_sub_rc in pret (PSubscribeAck i st)) r
    | 10 :: r => (let+ i := p_id in let+ fs := p_list p_str in pret (PUnsubscribe i fs)) r
    | 11 :: r => (let+ i := p_id in pret (PUnsubscribeAck i)) r
    | 12 :: r => Some (PPingRequest, r)
    | 13 :: r => Some (PPingResponse, r)
    | 14 :: r => Some (PDisconnect, r)
    | _ => None
    end.

(* ------------------------------------------------------------------ dec3 *)
(* pieces of the stream: cut positions are absolute offsets, forced monotone and clamped *)
Fixpoint pieces (prev : N) (cuts : list N) (s : bytes) : list bytes :=
  match cuts with
  | [] => [s]
  | c :: r =>
    let c' := N.max c prev in
    let k := N.min (c' - prev) (len s) in
    let (a, b) := split_at k s in
    a :: pieces c' r b
  end.

Inductive drain_res :=
| DNeed (acc : list (list N)) (st : dstate) (buf : bytes)
| DErr (acc : list (list N))
| DPanic.

(* call decode until it says "need more" (acc is the reversed list of item fields) *)
Fixpoint drain (fuel : nat) (max_size min_chunk : N) (st : dstate) (buf : bytes) (acc : list (list N))
  : drain_res :=
  match fuel with
  | O => DPanic
  | S k =>
    match decode_step max_size min_chunk st buf with
    | (Ok None, st', buf') => DNeed acc st' buf'
    | (Ok (Some it), st', buf') => drain k max_size min_chunk st' buf' (show_item it :: acc)
    | (Err e, _, _) => DErr ([4; e] :: acc)
    | (Panic _, _, _) => DPanic
    end
  end.

Definition state_tag (st : dstate) : N :=
  match st with FrameHeader => 0 | Frame _ _ => 1 | PublishHeader _ _ => 2 | PublishPayload _ => 3 end.

Fixpoint feed (max_size min_chunk : N) (ps : list bytes) (st : dstate) (buf : bytes) (acc : list (list N))
  : list (list N) :=
  match ps with
  | [] => rev ([5; len buf; state_tag st] :: acc)
  | p :: r =>
    let buf := buf ++ p in
    match drain (S (S (length buf))) max_size min_chunk st buf acc with
    | DNeed acc' st' buf' => feed max_size min_chunk r st' buf' acc'
    | DErr acc' => rev acc'
    | DPanic => [[9999]]
    end
  end.

Definition run_dec3 (c : list (list N)) : list (list N) :=
  match c with
  | [[max_size; min_chunk]; cuts; stream] =>
    if (max_size <=? U32MAX) && (min_chunk <=? U32MAX) && bytes_ok stream
    then feed max_size min_chunk (pieces 0 cuts stream) FrameHeader [] []
    else [[97]]
  | _ => [[97]]
  end.

(* ------------------------------------------------------------------ enc3 *)
Definition parse_op (f : list N) : option encoded :=
  match f with
  | 1 :: r => match p_packet r with Some (p, []) => Some (EPacket p) | _ => None end
  | 2 :: 0 :: r => match p_publish r with Some (p, []) => Some (EPublish p None) | _ => None end
  | 2 :: 1 :: r =>
    match p_publish r with
    | Some (p, payload) => if bytes_ok payload then Some (EPublish p (Some payload)) else None
    | None => None
    end
  | 3 :: r => if bytes_ok r then Some (EChunk r) else None
  | _ => None
  end.

Fixpoint parse_ops (fs : list (list N)) : option (list encoded) :=
  match fs with
  | [] => Some []
  | f :: r =>
    match parse_op f, parse_ops r with
    | Some o, Some os => Some (o :: os)
    | _, _ => None
    end
  end.

(* the size the encoder claims for the packet (remaining length it writes) *)
Definition size_claim (it : encoded) : N :=
  match it with
  | EPacket p => as_u32 (get_encoded_size p)
  | EPublish p _ => as_u32 (get_encoded_publish_size p)
  | EChunk _ => 0
  end.

Fixpoint run_ops (max_size : N) (ep : option N) (dst : bytes) (ops : list encoded) (acc : list (list N))
  : list (list N) :=
  match ops with
  | [] => rev acc
  | it :: r =>
    let n := len dst in
    match encodev max_size ep it dst with
    | (dst', ep', Ok _) =>
      run_ops max_size ep' dst' r ((0 :: size_claim it :: skipn (N.to_nat n) dst') :: acc)
    | (dst', ep', Err e) =>
      run_ops max_size ep' dst' r ([1; e; len dst' - n] :: acc)
    | (_, _, Panic _) => [[9999]]
    end
  end.

Definition run_enc3 (c : list (list N)) : list (list N) :=
  match c with
  | [max_size] :: ops =>
    if max_size <=? U32MAX then
      match parse_ops ops with
      | Some l => run_ops max_size None [] l []
      | None => [[97]]
      end
    else [[97]]
  | _ => [[97]]
  end.

(* ------------------------------------------------------------------ varint *)
Definition run_varint (c : list (list N)) : list (list N) :=
  match c with
  | [[n]] =>
    if n <=? U32MAX then
      match write_vi n with Ok b => [b] | Err e => [[1; e]] | Panic _ => [[9999]] end
    else [[97]]
  | [[]; s] =>
    if bytes_ok s then
      match dec_vi_opt s with
      | Ok (Some (v, consumed)) => [[0; v; consumed]]
      | Ok None => [[1]]
      | Err e => [[2; e]]
      | Panic _ => [[9999]]
      end
    else [[97]]
  | _ => [[97]]
  end.

(* ------------------------------------------------------------------ dispatch *)
Definition run_v3 (e : N) (c : list (list N)) : list (list N) :=
  match e with
  | 10 => run_dec3 c
  | 11 => run_enc3 c
  | 12 => run_varint c
  | _ => [[98]]
  end.

Definition oracle_v3 (e : N) (c o : list (list N)) : list (list N) := [[98]].
