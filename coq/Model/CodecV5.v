(* Model/CodecV5.v -- executable model of the MQTT v5 codec of ntex-mqtt (definitions only).
   Sources followed line by line:
     src/v5/codec/codec.rs   (Codec::decode, set_max_outbound_size, check_frame_size, encodev/encode_item)
     src/v5/codec/decode.rs  (decode_packet)
     src/v5/codec/encode.rs  (EncodeLtd for Packet, encoded_size_opt_props, encode_opt_props, property helpers)
     src/v5/codec/packet/*.rs, src/utils.rs (Decode / Encode / Property impls, take_properties)
   Conventions: every datum is an [N]; a ByteString is a byte list that passed [utf8_valid];
   enums (QoS, RetainHandling, reason codes) are the [u8] discriminant with a validity predicate.
   [res] = Ok / Err code / Panic site (debug-build semantics: unsigned underflow, debug_assert!,
   write_variable_length on >= 2^28 panic).  Encoders are writers [bytes * res unit]: the bytes are
   what the Rust code has put into the buffer up to the point where it returned. *)
From MV Require Import Base.Prelude Base.Res Base.VarInt Base.Utf8.

Definition PS_debug_assert : N := 106.    (* ack_props::encode: debug_assert!(size > 0) *)
Definition PS_unreachable : N := 107.     (* fuel exhausted: cannot happen, every round consumes a byte *)

Definition U16MAX : N := 65535.
Definition USIZE_MAX : N := U64MAX.
Definition TWO32 : N := 4294967296.
Definition MAX_PACKET_SIZE : N := 268435455.  (* types.rs: 0xF_FF_FF_FF *)

(* ------------------------------------------------------------------ packet_type (types.rs) *)
Definition PT_CONNECT : N := 16.
Definition PT_CONNACK : N := 32.
Definition PT_PUBLISH_START : N := 48.
Definition PT_PUBLISH_END : N := 63.
Definition PT_PUBACK : N := 64.
Definition PT_PUBREC : N := 80.
Definition PT_PUBREL : N := 98.
Definition PT_PUBCOMP : N := 112.
Definition PT_SUBSCRIBE : N := 130.
Definition PT_SUBACK : N := 144.
Definition PT_UNSUBSCRIBE : N := 162.
Definition PT_UNSUBACK : N := 176.
Definition PT_PINGREQ : N := 192.
Definition PT_PINGRESP : N := 208.
Definition PT_DISCONNECT : N := 224.
Definition PT_AUTH : N := 240.
Definition is_publish (fb : N) : bool := (PT_PUBLISH_START <=? fb) && (fb <=? PT_PUBLISH_END).

(* ------------------------------------------------------------------ property_type (packet/mod.rs) *)
Definition P_UTF8_PAYLOAD : N := 1.
Definition P_MSG_EXPIRY_INT : N := 2.
Definition P_CONTENT_TYPE : N := 3.
Definition P_RESP_TOPIC : N := 8.
Definition P_CORR_DATA : N := 9.
Definition P_SUB_ID : N := 11.
Definition P_SESS_EXPIRY_INT : N := 17.
Definition P_ASSND_CLIENT_ID : N := 18.
Definition P_SERVER_KA : N := 19.
Definition P_AUTH_METHOD : N := 21.
Definition P_AUTH_DATA : N := 22.
Definition P_REQ_PROB_INFO : N := 23.
Definition P_WILL_DELAY_INT : N := 24.
Definition P_REQ_RESP_INFO : N := 25.
Definition P_RESP_INFO : N := 26.
Definition P_SERVER_REF : N := 28.
Definition P_REASON_STRING : N := 31.
Definition P_RECEIVE_MAX : N := 33.
Definition P_TOPIC_ALIAS_MAX : N := 34.
Definition P_TOPIC_ALIAS : N := 35.
Definition P_MAX_QOS : N := 36.
Definition P_RETAIN_AVAIL : N := 37.
Definition P_USER : N := 38.
Definition P_MAX_PACKET_SIZE : N := 39.
Definition P_WILDCARD_SUB_AVAIL : N := 40.
Definition P_SUB_IDS_AVAIL : N := 41.
Definition P_SHARED_SUB_AVAIL : N := 42.

(* ------------------------------------------------------------------ prim_enum! discriminants *)
Definition mem (l : list N) (n : N) : bool := existsb (N.eqb n) l.

Definition qos_ok (n : N) : bool := mem [0; 1; 2] n.
Definition retain_handling_ok (n : N) : bool := mem [0; 1; 2] n.
Definition publish_ack_reason_ok (n : N) : bool := mem [0; 16; 128; 131; 135; 144; 145; 151; 153] n.
Definition publish_ack2_reason_ok (n : N) : bool := mem [0; 146] n.
Definition connect_ack_reason_ok (n : N) : bool :=
  mem [0; 128; 129; 130; 131; 132; 133; 134; 135; 136; 137; 138; 140; 144; 149; 151; 153; 154; 155; 156;
       157; 159] n.
Definition subscribe_ack_reason_ok (n : N) : bool :=
  mem [0; 1; 2; 128; 131; 135; 143; 145; 151; 158; 161; 162] n.
Definition unsubscribe_ack_reason_ok (n : N) : bool := mem [0; 17; 128; 131; 135; 143; 145] n.
Definition disconnect_reason_ok (n : N) : bool :=
  mem [0; 4; 128; 129; 130; 131; 135; 137; 139; 140; 141; 142; 143; 144; 147; 148; 149; 150; 151; 152;
       153; 154; 155; 156; 157; 158; 159; 160; 161; 162] n.
Definition auth_reason_ok (n : N) : bool := mem [0; 24; 25] n.

Definition RECEIVE_MAX_DEFAULT : N := 65535.   (* v5/mod.rs *)

(* ------------------------------------------------------------------ packet structs *)
Definition uprop := (bytes * bytes)%type.       (* UserProperty = (ByteString, ByteString) *)
Definition uprops := list uprop.                 (* UserProperties *)

Record last_will := mkLastWill {
  lw_qos : N;
  lw_retain : bool;
  lw_topic : bytes;
  lw_message : bytes;
  lw_will_delay_interval_sec : option N;
  lw_correlation_data : option bytes;
  lw_message_expiry_interval : option N;        (* NonZeroU32 *)
  lw_content_type : option bytes;
  lw_user_properties : uprops;
  lw_is_utf8_payload : option bool;
  lw_response_topic : option bytes }.

Record connect := mkConnect {
  c_clean_start : bool;
  c_keep_alive : N;
  c_session_expiry_interval_secs : N;
  c_auth_method : option bytes;
  c_auth_data : option bytes;
  c_request_problem_info : bool;
  c_request_response_info : bool;
  c_receive_max : option N;                      (* NonZeroU16 *)
  c_topic_alias_max : N;
  c_user_properties : uprops;
  c_max_packet_size : option N;                  (* NonZeroU32 *)
  c_last_will : option last_will;
  c_client_id : bytes;
  c_username : option bytes;
  c_password : option bytes }.

Record connect_ack := mkConnectAck {
  ca_session_present : bool;
  ca_reason_code : N;
  ca_session_expiry_interval_secs : option N;
  ca_receive_max : N;                            (* NonZeroU16 *)
  ca_max_qos : N;
  ca_max_packet_size : option N;
  ca_assigned_client_id : option bytes;
  ca_topic_alias_max : N;
  ca_retain_available : bool;
  ca_wildcard_subscription_available : bool;
  ca_subscription_identifiers_available : bool;
  ca_shared_subscription_available : bool;
  ca_server_keepalive_sec : option N;
  ca_response_info : option bytes;
  ca_server_reference : option bytes;
  ca_auth_method : option bytes;
  ca_auth_data : option bytes;
  ca_reason_string : option bytes;
  ca_user_properties : uprops }.

Record publish_properties := mkPublishProperties {
  pp_topic_alias : option N;                     (* NonZeroU16 *)
  pp_correlation_data : option bytes;
  pp_message_expiry_interval : option N;         (* NonZeroU32 *)
  pp_content_type : option bytes;
  pp_user_properties : uprops;
  pp_is_utf8_payload : bool;
  pp_response_topic : option bytes;
  pp_subscription_ids : list N }.                (* Vec<NonZeroU32> *)

Record publish := mkPublish {
  p_dup : bool;
  p_retain : bool;
  p_qos : N;
  p_packet_id : option N;                        (* NonZeroU16 *)
  p_topic : bytes;
  p_payload_size : N;
  p_properties : publish_properties }.

Record publish_ack := mkPublishAck {
  pa_packet_id : N;
  pa_reason_code : N;
  pa_properties : uprops;
  pa_reason_string : option bytes }.

Record publish_ack2 := mkPublishAck2 {
  pa2_packet_id : N;
  pa2_reason_code : N;
  pa2_properties : uprops;
  pa2_reason_string : option bytes }.

Record subscription_options := mkSubscriptionOptions {
  so_qos : N;
  so_no_local : bool;
  so_retain_as_published : bool;
  so_retain_handling : N }.

Record subscribe := mkSubscribe {
  s_packet_id : N;
  s_id : option N;                               (* NonZeroU32 *)
  s_user_properties : uprops;
  s_topic_filters : list (bytes * subscription_options) }.

Record subscribe_ack := mkSubscribeAck {
  sa_packet_id : N;
  sa_properties : uprops;
  sa_reason_string : option bytes;
  sa_status : list N }.

Record unsubscribe := mkUnsubscribe {
  u_packet_id : N;
  u_user_properties : uprops;
  u_topic_filters : list bytes }.

Record unsubscribe_ack := mkUnsubscribeAck {
  ua_packet_id : N;
  ua_properties : uprops;
  ua_reason_string : option bytes;
  ua_status : list N }.

Record disconnect := mkDisconnect {
  d_reason_code : N;
  d_session_expiry_interval_secs : option N;
  d_server_reference : option bytes;
  d_reason_string : option bytes;
  d_user_properties : uprops }.

Record auth := mkAuth {
  a_reason_code : N;
  a_auth_method : option bytes;
  a_auth_data : option bytes;
  a_reason_string : option bytes;
  a_user_properties : uprops }.

Inductive packet :=
| Connect (c : connect)
| ConnectAck (c : connect_ack)
| PublishAck (a : publish_ack)
| PublishReceived (a : publish_ack)
| PublishRelease (a : publish_ack2)
| PublishComplete (a : publish_ack2)
| Subscribe (s : subscribe)
| SubscribeAck (s : subscribe_ack)
| Unsubscribe (u : unsubscribe)
| UnsubscribeAck (u : unsubscribe_ack)
| PingRequest
| PingResponse
| Disconnect (d : disconnect)
| Auth (a : auth).

(* v5/codec/mod.rs *)
Inductive decoded :=
| DPacket (p : packet) (size : N)
| DPublish (p : publish) (payload : bytes) (size : N)
| DPayloadChunk (chunk : bytes) (eof : bool).

Inductive encoded :=
| EPacket (p : packet)
| EPublish (p : publish) (buf : option bytes)
| EPayloadChunk (chunk : bytes).

(* ================================================================== DECODING ============== *)
(* A cursor is the list of bytes not yet consumed. *)

(* ------------------------------------------------------------------ utils.rs: impl Decode *)
Definition dec_bool (s : bytes) : res (bool * bytes) :=
  match s with
  | [] => Err DE_InvalidLength
  | v :: r => if v <=? 1 then Ok (v =? 1, r) else Err DE_MalformedPacket
  end.

Definition dec_u16 (s : bytes) : res (N * bytes) :=
  match s with
  | a :: b :: r => Ok (a * 256 + b, r)
  | _ => Err DE_InvalidLength
  end.

Definition dec_u32 (s : bytes) : res (N * bytes) :=
  match s with
  | a :: b :: c :: d :: r => Ok (a * 16777216 + b * 65536 + c * 256 + d, r)
  | _ => Err DE_InvalidLength
  end.

Definition dec_nz32 (s : bytes) : res (N * bytes) :=
  let* (v, r) := dec_u32 s in
  if v =? 0 then Err DE_MalformedPacket else Ok (v, r).

Definition dec_nz16 (s : bytes) : res (N * bytes) :=
  let* (v, r) := dec_u16 s in
  if v =? 0 then Err DE_MalformedPacket else Ok (v, r).

(* src.split_to(n), caller has checked n <= remaining *)
Definition split_to (n : N) (s : bytes) : bytes * bytes :=
  (firstn (N.to_nat n) s, skipn (N.to_nat n) s).

Definition dec_bytes (s : bytes) : res (bytes * bytes) :=
  let* (n, r) := dec_u16 s in
  if len r <? n then Err DE_InvalidLength else Ok (split_to n r).

Definition dec_string (s : bytes) : res (bytes * bytes) :=
  let* (b, r) := dec_bytes s in
  if utf8_valid b then Ok (b, r) else Err DE_Utf8Error.

(* decode.rs: impl Decode for UserProperty *)
Definition dec_uprop (s : bytes) : res (uprop * bytes) :=
  let* (k, r) := dec_string s in
  let* (v, r') := dec_string r in
  Ok ((k, v), r').

(* utils::take_properties *)
Definition take_properties (s : bytes) : res (bytes * bytes) :=
  let* (prop_len, r) := dec_vi s in
  if len r <? prop_len then Err DE_InvalidLength else Ok (split_to prop_len r).

(* ------------------------------------------------------------------ property blocks
   Every `while prop_src.has_remaining() { match prop_src.get_u8() { ... } }` loop of the crate has
   the same shape; the arms differ in (a) which identifiers are accepted, (b) the value type and
   (c) whether the target is an Option filled through Property::read_value (ensure!(is_none) FIRST,
   then decode) or a Vec that is pushed to.  The loop is modelled once, driven by a per-packet table
   giving (value kind, once-only) for each accepted identifier; the collected (id, value) list is in
   wire order, so Vec targets keep their order. *)
Inductive pkind :=
| KBool        (* bool::decode *)
| KU16         (* u16::decode *)
| KU32         (* u32::decode *)
| KNZ16        (* NonZeroU16::decode *)
| KNZ32        (* NonZeroU32::decode *)
| KBytes       (* Bytes::decode *)
| KStr         (* ByteString::decode *)
| KQoS         (* ensure!(has_remaining, InvalidLength); get_u8().try_into()? -- CONNACK MAX_QOS *)
| KVarNZ       (* decode_variable_length_cursor + NonZeroU32::new -- SUB_ID *)
| KPair.       (* UserProperty::decode *)

Inductive pval :=
| VN (n : N)
| VB (b : bytes)
| VP (k v : bytes).

Definition dec_pval (k : pkind) (s : bytes) : res (pval * bytes) :=
  match k with
  | KBool => let* (v, r) := dec_bool s in Ok (VN (b2n v), r)
  | KU16 => let* (v, r) := dec_u16 s in Ok (VN v, r)
  | KU32 => let* (v, r) := dec_u32 s in Ok (VN v, r)
  | KNZ16 => let* (v, r) := dec_nz16 s in Ok (VN v, r)
  | KNZ32 => let* (v, r) := dec_nz32 s in Ok (VN v, r)
  | KBytes => let* (v, r) := dec_bytes s in Ok (VB v, r)
  | KStr => let* (v, r) := dec_string s in Ok (VB v, r)
  | KQoS => match s with
            | [] => Err DE_InvalidLength
            | v :: r => if qos_ok v then Ok (VN v, r) else Err DE_MalformedPacket
            end
  | KVarNZ => let* (v, r) := dec_vi s in
              if v =? 0 then Err DE_MalformedPacket else Ok (VN v, r)
  | KPair => let* (p, r) := dec_uprop s in Ok (VP (fst p) (snd p), r)
  end.

Definition ptable := N -> option (pkind * bool).   (* bool: once-only (an Option target) *)
Definition pbag := list (N * pval).

Definition bag_has (id : N) (b : pbag) : bool := existsb (fun e => fst e =? id) b.

Fixpoint parse_props (fuel : nat) (tbl : ptable) (acc : pbag) (s : bytes) : res pbag :=
  match s with
  | [] => Ok (rev acc)
  | id :: r =>
    match fuel with
    | O => Panic PS_unreachable
    | S f =>
      match tbl id with
      | None => Err DE_MalformedPacket
      | Some (k, once) =>
        let* _ := ensure (negb (once && bag_has id acc)) DE_MalformedPacket in
        let* (v, r') := dec_pval k r in
        parse_props f tbl ((id, v) :: acc) r'
      end
    end
  end.

Definition props_of (tbl : ptable) (prop_src : bytes) : res pbag :=
  parse_props (length prop_src) tbl [] prop_src.

Fixpoint bag_n (id : N) (b : pbag) : option N :=
  match b with
  | [] => None
  | (i, VN n) :: r => if i =? id then Some n else bag_n id r
  | _ :: r => bag_n id r
  end.
Fixpoint bag_b (id : N) (b : pbag) : option bytes :=
  match b with
  | [] => None
  | (i, VB x) :: r => if i =? id then Some x else bag_b id r
  | _ :: r => bag_b id r
  end.
Definition bag_bool (id : N) (b : pbag) : option bool :=
  match bag_n id b with Some n => Some (n =? 1) | None => None end.
Fixpoint bag_ns (id : N) (b : pbag) : list N :=
  match b with
  | [] => []
  | (i, VN n) :: r => if i =? id then n :: bag_ns id r else bag_ns id r
  | _ :: r => bag_ns id r
  end.
Fixpoint bag_pairs (id : N) (b : pbag) : uprops :=
  match b with
  | [] => []
  | (i, VP k v) :: r => if i =? id then (k, v) :: bag_pairs id r else bag_pairs id r
  | _ :: r => bag_pairs id r
  end.
Definition dflt {A} (o : option A) (d : A) : A := match o with Some x => x | None => d end.

Definition tbl_of (l : list (N * (pkind * bool))) : ptable :=
  fun id => match find (fun e => fst e =? id) l with Some e => Some (snd e) | None => None end.

(* packet/mod.rs ack_props::decode *)
Definition tbl_ack : ptable := tbl_of [(P_REASON_STRING, (KStr, true)); (P_USER, (KPair, false))].

Definition ack_props_decode (src : bytes) : res ((uprops * option bytes) * bytes) :=
  let* (prop_src, r) := take_properties src in
  let* bag := props_of tbl_ack prop_src in
  Ok ((bag_pairs P_USER bag, bag_b P_REASON_STRING bag), r).

(* ------------------------------------------------------------------ packet/pubacks.rs *)
Definition publish_ack_decode (src : bytes) : res publish_ack :=
  let* (packet_id, r) := dec_nz16 src in
  match r with
  | [] => Ok (mkPublishAck packet_id 0 [] None)
  | rc :: r1 =>
    let* _ := ensure (publish_ack_reason_ok rc) DE_MalformedPacket in
    match r1 with
    | [] => Ok (mkPublishAck packet_id rc [] None)
    | _ =>
      let* (pr, r2) := ack_props_decode r1 in
      let* _ := ensure (match r2 with [] => true | _ => false end) DE_InvalidLength in
      Ok (mkPublishAck packet_id rc (fst pr) (snd pr))
    end
  end.

Definition publish_ack2_decode (src : bytes) : res publish_ack2 :=
  let* (packet_id, r) := dec_nz16 src in
  match r with
  | [] => Ok (mkPublishAck2 packet_id 0 [] None)
  | rc :: r1 =>
    let* _ := ensure (publish_ack2_reason_ok rc) DE_MalformedPacket in
    match r1 with
    | [] => Ok (mkPublishAck2 packet_id rc [] None)
    | _ =>
      let* (pr, r2) := ack_props_decode r1 in
      let* _ := ensure (match r2 with [] => true | _ => false end) DE_InvalidLength in
      Ok (mkPublishAck2 packet_id rc (fst pr) (snd pr))
    end
  end.

(* ------------------------------------------------------------------ packet/publish.rs *)
Definition tbl_publish : ptable :=
  tbl_of [(P_UTF8_PAYLOAD, (KBool, true)); (P_MSG_EXPIRY_INT, (KNZ32, true)); (P_CONTENT_TYPE, (KStr, true));
          (P_RESP_TOPIC, (KStr, true)); (P_CORR_DATA, (KBytes, true)); (P_SUB_ID, (KVarNZ, false));
          (P_TOPIC_ALIAS, (KNZ16, true)); (P_USER, (KPair, false))].

Definition parse_publish_properties (src : bytes) : res (publish_properties * bytes) :=
  let* (prop_src, r) := take_properties src in
  let* bag := props_of tbl_publish prop_src in
  Ok (mkPublishProperties
        (bag_n P_TOPIC_ALIAS bag)
        (bag_b P_CORR_DATA bag)
        (bag_n P_MSG_EXPIRY_INT bag)
        (bag_b P_CONTENT_TYPE bag)
        (bag_pairs P_USER bag)
        (dflt (bag_bool P_UTF8_PAYLOAD bag) false)
        (bag_b P_RESP_TOPIC bag)
        (bag_ns P_SUB_ID bag), r).

Definition flags_qos (packet_flags : N) : N := (packet_flags / 2) mod 4.   (* (flags & 0b0110) >> 1 *)

(* Publish::decode(src, packet_flags, payload_size); bytes left in src are ignored by the Rust *)
Definition publish_decode (src : bytes) (packet_flags payload_size : N) : res publish :=
  let* (topic, r) := dec_string src in
  let qos := flags_qos packet_flags in
  let* _ := ensure (qos_ok qos) DE_MalformedPacket in
  let* (packet_id, r1) :=
     (if qos =? 0 then Ok (None, r)
      else let* (v, r') := dec_nz16 r in Ok (Some v, r')) in
  let* (properties, _) := parse_publish_properties r1 in
  Ok (mkPublish ((packet_flags / 8) mod 2 =? 1) (packet_flags mod 2 =? 1) qos packet_id topic
                payload_size properties).

(* checked slice src[a..b] *)
Definition slice (a b : N) (s : bytes) : res bytes :=
  if (a <=? b) && (b <=? len s) then Ok (firstn (N.to_nat (b - a)) (skipn (N.to_nat a) s))
  else Panic PS_index.

(* Publish::packet_header_size(src, packet_flags, remaining_length) *)
Definition packet_header_size (src : bytes) (packet_flags remaining_length : N) : res (option N) :=
  let* _ := ensure (2 <=? remaining_length) DE_InvalidLength in
  match src with
  | b0 :: b1 :: _ =>
    let len0 := b0 * 256 + b1 + 2 in
    let qos := flags_qos packet_flags in
    let* _ := ensure (qos_ok qos) DE_MalformedPacket in
    let len1 := if qos =? 0 then len0 else len0 + 2 in
    let* _ := ensure (len1 <? remaining_length) DE_InvalidLength in
    if len src <? len1 then Ok None
    else
      let end_ := N.min (len src) remaining_length in
      let* sl := slice len1 end_ src in
      let* o := dec_vi_opt sl in
      match o with
      | Some (prop_len, pos) =>
        let l := len1 + prop_len + pos in
        let* _ := ensure (l <=? remaining_length) DE_InvalidLength in
        Ok (Some l)
      | None =>
        let* _ := ensure (end_ <? remaining_length) DE_InvalidLength in
        Ok None
      end
  | _ => Ok None
  end.

(* ------------------------------------------------------------------ packet/connect.rs *)
Definition tbl_connect : ptable :=
  tbl_of [(P_SESS_EXPIRY_INT, (KU32, true)); (P_AUTH_METHOD, (KStr, true)); (P_AUTH_DATA, (KBytes, true));
          (P_REQ_PROB_INFO, (KBool, true)); (P_REQ_RESP_INFO, (KBool, true)); (P_RECEIVE_MAX, (KNZ16, true));
          (P_TOPIC_ALIAS_MAX, (KU16, true)); (P_USER, (KPair, false)); (P_MAX_PACKET_SIZE, (KNZ32, true))].

Definition tbl_will : ptable :=
  tbl_of [(P_WILL_DELAY_INT, (KU32, true)); (P_CORR_DATA, (KBytes, true)); (P_MSG_EXPIRY_INT, (KNZ32, true));
          (P_CONTENT_TYPE, (KStr, true)); (P_UTF8_PAYLOAD, (KBool, true)); (P_RESP_TOPIC, (KStr, true));
          (P_USER, (KPair, false))].

Definition bit (flags : N) (mask : N) : bool := (flags / mask) mod 2 =? 1.   (* mask a power of two *)

(* decode_last_will(src, flags): QoS::try_from is evaluated last (struct literal) *)
Definition decode_last_will (src : bytes) (flags : N) : res (last_will * bytes) :=
  let* (prop_src, r) := take_properties src in
  let* bag := props_of tbl_will prop_src in
  let* (topic, r1) := dec_string r in
  let* (message, r2) := dec_bytes r1 in
  let qos := (flags / 8) mod 4 in
  let* _ := ensure (qos_ok qos) DE_MalformedPacket in
  Ok (mkLastWill qos (bit flags 32) topic message
        (bag_n P_WILL_DELAY_INT bag) (bag_b P_CORR_DATA bag) (bag_n P_MSG_EXPIRY_INT bag)
        (bag_b P_CONTENT_TYPE bag) (bag_pairs P_USER bag) (bag_bool P_UTF8_PAYLOAD bag)
        (bag_b P_RESP_TOPIC bag), r2).

Definition MQTT : bytes := [77; 81; 84; 84].

Definition connect_decode (src : bytes) : res connect :=
  let* _ := ensure (10 <=? len src) DE_InvalidLength in
  match src with
  | l0 :: l1 :: m0 :: m1 :: m2 :: m3 :: level :: flags :: k0 :: k1 :: r =>
    let* _ := ensure ((l0 * 256 + l1 =? 4) && bytes_eqb [m0; m1; m2; m3] MQTT) DE_InvalidProtocol in
    let* _ := ensure (level =? 5) DE_UnsupportedProtocolLevel in
    (* ConnectFlags::from_bits: only bit 0 is not a known flag *)
    let* _ := ensure (flags mod 2 =? 0) DE_ConnectReservedFlagSet in
    let keep_alive := k0 * 256 + k1 in
    let* (prop_src, r1) := take_properties r in
    let* bag := props_of tbl_connect prop_src in
    let* (client_id, r2) := dec_string r1 in
    let* (last_will, r3) :=
       (if bit flags 4 then let* (w, r') := decode_last_will r2 flags in Ok (Some w, r')
        else Ok (None, r2)) in
    let* (username, r4) :=
       (if bit flags 128 then let* (u, r') := dec_string r3 in Ok (Some u, r') else Ok (None, r3)) in
    let* (password, _) :=
       (if bit flags 64 then let* (p, r') := dec_bytes r4 in Ok (Some p, r') else Ok (None, r4)) in
    Ok (mkConnect (bit flags 2) keep_alive
          (dflt (bag_n P_SESS_EXPIRY_INT bag) 0)
          (bag_b P_AUTH_METHOD bag) (bag_b P_AUTH_DATA bag)
          (dflt (bag_bool P_REQ_PROB_INFO bag) true)
          (dflt (bag_bool P_REQ_RESP_INFO bag) false)
          (bag_n P_RECEIVE_MAX bag)
          (dflt (bag_n P_TOPIC_ALIAS_MAX bag) 0)
          (bag_pairs P_USER bag)
          (bag_n P_MAX_PACKET_SIZE bag)
          last_will client_id username password)
  | _ => Panic PS_unreachable
  end.

(* ------------------------------------------------------------------ packet/connack.rs *)
Definition tbl_connack : ptable :=
  tbl_of [(P_SESS_EXPIRY_INT, (KU32, true)); (P_RECEIVE_MAX, (KNZ16, true)); (P_MAX_QOS, (KQoS, true));
          (P_RETAIN_AVAIL, (KBool, true)); (P_MAX_PACKET_SIZE, (KU32, true)); (P_ASSND_CLIENT_ID, (KStr, true));
          (P_TOPIC_ALIAS_MAX, (KU16, true)); (P_REASON_STRING, (KStr, true)); (P_USER, (KPair, false));
          (P_WILDCARD_SUB_AVAIL, (KBool, true)); (P_SUB_IDS_AVAIL, (KBool, true));
          (P_SHARED_SUB_AVAIL, (KBool, true)); (P_SERVER_KA, (KU16, true)); (P_RESP_INFO, (KStr, true));
          (P_SERVER_REF, (KStr, true)); (P_AUTH_METHOD, (KStr, true)); (P_AUTH_DATA, (KBytes, true))].

Definition connect_ack_decode (src : bytes) : res connect_ack :=
  match src with
  | flags :: rc :: r =>
    (* ConnectAckFlags::from_bits: only SESSION_PRESENT = 1 is known *)
    let* _ := ensure (flags <=? 1) DE_ConnAckReservedFlagSet in
    let* _ := ensure (connect_ack_reason_ok rc) DE_MalformedPacket in
    let* (prop_src, r1) := take_properties r in
    let* bag := props_of tbl_connack prop_src in
    let* _ := ensure (match r1 with [] => true | _ => false end) DE_InvalidLength in
    Ok (mkConnectAck (flags =? 1) rc
          (bag_n P_SESS_EXPIRY_INT bag)
          (dflt (bag_n P_RECEIVE_MAX bag) RECEIVE_MAX_DEFAULT)
          (dflt (bag_n P_MAX_QOS bag) 2)
          (bag_n P_MAX_PACKET_SIZE bag)
          (bag_b P_ASSND_CLIENT_ID bag)
          (dflt (bag_n P_TOPIC_ALIAS_MAX bag) 0)
          (dflt (bag_bool P_RETAIN_AVAIL bag) true)
          (dflt (bag_bool P_WILDCARD_SUB_AVAIL bag) true)
          (dflt (bag_bool P_SUB_IDS_AVAIL bag) true)
          (dflt (bag_bool P_SHARED_SUB_AVAIL bag) true)
          (bag_n P_SERVER_KA bag)
          (bag_b P_RESP_INFO bag)
          (bag_b P_SERVER_REF bag)
          (bag_b P_AUTH_METHOD bag)
          (bag_b P_AUTH_DATA bag)
          (bag_b P_REASON_STRING bag)
          (bag_pairs P_USER bag))
  | _ => Err DE_InvalidLength
  end.

(* ------------------------------------------------------------------ packet/subscribe.rs *)
Definition tbl_subscribe : ptable := tbl_of [(P_SUB_ID, (KVarNZ, true)); (P_USER, (KPair, false))].
Definition tbl_unsubscribe : ptable := tbl_of [(P_USER, (KPair, false))].

Definition subscription_options_decode (s : bytes) : res (subscription_options * bytes) :=
  match s with
  | [] => Err DE_InvalidLength
  | val :: r =>
    let qos := val mod 4 in
    let* _ := ensure (qos_ok qos) DE_MalformedPacket in
    let rh := (val / 16) mod 4 in
    let* _ := ensure (retain_handling_ok rh) DE_MalformedPacket in
    Ok (mkSubscriptionOptions qos ((val / 4) mod 2 =? 1) ((val / 8) mod 2 =? 1) rh, r)
  end.

Fixpoint subscribe_filters (fuel : nat) (s : bytes) : res (list (bytes * subscription_options)) :=
  match s with
  | [] => Ok []
  | _ :: _ =>
    match fuel with
    | O => Panic PS_unreachable
    | S f =>
      let* (topic, r) := dec_string s in
      let* (opts, r') := subscription_options_decode r in
      let* rest := subscribe_filters f r' in
      Ok ((topic, opts) :: rest)
    end
  end.

Definition subscribe_decode (src : bytes) : res subscribe :=
  let* (packet_id, r) := dec_nz16 src in
  let* (prop_src, r1) := take_properties r in
  let* bag := props_of tbl_subscribe prop_src in
  let* topic_filters := subscribe_filters (length r1) r1 in
  Ok (mkSubscribe packet_id (bag_n P_SUB_ID bag) (bag_pairs P_USER bag) topic_filters).

(* `for code in src { status.push(code.try_into()?) }` *)
Fixpoint status_decode (ok : N -> bool) (s : bytes) : res (list N) :=
  match s with
  | [] => Ok []
  | c :: r =>
    let* _ := ensure (ok c) DE_MalformedPacket in
    let* rest := status_decode ok r in
    Ok (c :: rest)
  end.

Definition subscribe_ack_decode (src : bytes) : res subscribe_ack :=
  let* (packet_id, r) := dec_nz16 src in
  let* (pr, r1) := ack_props_decode r in
  let* status := status_decode subscribe_ack_reason_ok r1 in
  Ok (mkSubscribeAck packet_id (fst pr) (snd pr) status).

Fixpoint unsubscribe_filters (fuel : nat) (s : bytes) : res (list bytes) :=
  match s with
  | [] => Ok []
  | _ :: _ =>
    match fuel with
    | O => Panic PS_unreachable
    | S f =>
      let* (topic, r) := dec_string s in
      let* rest := unsubscribe_filters f r in
      Ok (topic :: rest)
    end
  end.

Definition unsubscribe_decode (src : bytes) : res unsubscribe :=
  let* (packet_id, r) := dec_nz16 src in
  let* (prop_src, r1) := take_properties r in
  let* bag := props_of tbl_unsubscribe prop_src in
  let* topic_filters := unsubscribe_filters (length r1) r1 in
  Ok (mkUnsubscribe packet_id (bag_pairs P_USER bag) topic_filters).

Definition unsubscribe_ack_decode (src : bytes) : res unsubscribe_ack :=
  let* (packet_id, r) := dec_nz16 src in
  let* (pr, r1) := ack_props_decode r in
  let* status := status_decode unsubscribe_ack_reason_ok r1 in
  Ok (mkUnsubscribeAck packet_id (fst pr) (snd pr) status).

(* ------------------------------------------------------------------ packet/disconnect.rs *)
Definition tbl_disconnect : ptable :=
  tbl_of [(P_SESS_EXPIRY_INT, (KU32, true)); (P_REASON_STRING, (KStr, true)); (P_USER, (KPair, false));
          (P_SERVER_REF, (KStr, true))].

Definition disconnect_decode (src : bytes) : res disconnect :=
  match src with
  | [] => Ok (mkDisconnect 0 None None None [])
  | rc :: r =>
    let* _ := ensure (disconnect_reason_ok rc) DE_MalformedPacket in
    match r with
    | [] => Ok (mkDisconnect rc None None None [])
    | _ =>
      let* (prop_src, r1) := take_properties r in
      let* bag := props_of tbl_disconnect prop_src in
      let* _ := ensure (match r1 with [] => true | _ => false end) DE_InvalidLength in
      Ok (mkDisconnect rc (bag_n P_SESS_EXPIRY_INT bag) (bag_b P_SERVER_REF bag)
            (bag_b P_REASON_STRING bag) (bag_pairs P_USER bag))
    end
  end.

(* ------------------------------------------------------------------ packet/auth.rs *)
Definition tbl_auth : ptable :=
  tbl_of [(P_AUTH_METHOD, (KStr, true)); (P_AUTH_DATA, (KBytes, true)); (P_REASON_STRING, (KStr, true));
          (P_USER, (KPair, false))].

Definition auth_decode (src : bytes) : res auth :=
  match src with
  | [] => Ok (mkAuth 0 None None None [])
  | rc :: r =>
    let* _ := ensure (auth_reason_ok rc) DE_MalformedPacket in
    match r with
    | [] => Ok (mkAuth rc None None None [])
    | _ =>
      (* `if reason_code != Success || src.has_remaining()` is always true here *)
      let* (prop_src, r1) := take_properties r in
      let* bag := props_of tbl_auth prop_src in
      let* _ := ensure (match r1 with [] => true | _ => false end) DE_InvalidLength in
      Ok (mkAuth rc (bag_b P_AUTH_METHOD bag) (bag_b P_AUTH_DATA bag) (bag_b P_REASON_STRING bag)
            (bag_pairs P_USER bag))
    end
  end.

(* ------------------------------------------------------------------ decode.rs: decode_packet *)
Definition decode_packet (first_byte : N) (src : bytes) : res packet :=
  if first_byte =? PT_PUBACK then let* a := publish_ack_decode src in Ok (PublishAck a)
  else if first_byte =? PT_PINGREQ then Ok PingRequest
  else if first_byte =? PT_PINGRESP then Ok PingResponse
  else if first_byte =? PT_SUBSCRIBE then let* a := subscribe_decode src in Ok (Subscribe a)
  else if first_byte =? PT_SUBACK then let* a := subscribe_ack_decode src in Ok (SubscribeAck a)
  else if first_byte =? PT_UNSUBSCRIBE then let* a := unsubscribe_decode src in Ok (Unsubscribe a)
  else if first_byte =? PT_UNSUBACK then let* a := unsubscribe_ack_decode src in Ok (UnsubscribeAck a)
  else if first_byte =? PT_CONNECT then let* a := connect_decode src in Ok (Connect a)
  else if first_byte =? PT_CONNACK then let* a := connect_ack_decode src in Ok (ConnectAck a)
  else if first_byte =? PT_DISCONNECT then let* a := disconnect_decode src in Ok (Disconnect a)
  else if first_byte =? PT_AUTH then let* a := auth_decode src in Ok (Auth a)
  else if first_byte =? PT_PUBREC then let* a := publish_ack_decode src in Ok (PublishReceived a)
  else if first_byte =? PT_PUBREL then let* a := publish_ack2_decode src in Ok (PublishRelease a)
  else if first_byte =? PT_PUBCOMP then let* a := publish_ack2_decode src in Ok (PublishComplete a)
  else Err DE_UnsupportedPacketType.

(* ------------------------------------------------------------------ codec.rs: Codec::decode
   One call of decode(&self, src).  The Rust `loop` runs at most three rounds
   (FrameHeader -> Frame | FrameHeader -> PublishHeader -> PublishProperties); each state is a
   function that tail-calls the next one where the Rust goes round the loop.
   Result: (return value, state cell, NO_PROBLEM_INFO flag, src afterwards). *)
Inductive dstate :=
| FrameHeader
| Frame (first_byte remaining_length : N)
| PublishHeader (first_byte remaining_length : N)
| PublishProperties (props_len first_byte remaining_length : N)
| PublishPayload (remaining : N).

Definition dresult := (res (option decoded) * dstate * bool * bytes)%type.

Definition dret (r : res (option decoded)) (st : dstate) (npi : bool) (src : bytes) : dresult :=
  (r, st, npi, src).

Definition lift_err {A B} (r : res A) : res B :=
  match r with Ok _ => Panic PS_unreachable | Err e => Err e | Panic p => Panic p end.

Definition step_frame (npi : bool) (fb rl : N) (src : bytes) : dresult :=
  if len src <? rl then dret (Ok None) (Frame fb rl) npi src
  else
    let '(packet_buf, src') := split_to rl src in
    match decode_packet fb packet_buf with
    | Ok packet =>
      let npi' := match packet with Connect c => negb (c_request_problem_info c) | _ => npi end in
      dret (Ok (Some (DPacket packet rl))) FrameHeader npi' src'
    | r => dret (lift_err r) (Frame fb rl) npi src'
    end.

Definition step_publish_properties (min_chunk : N) (npi : bool) (props_len fb rl : N) (src : bytes)
  : dresult :=
  let st := PublishProperties props_len fb rl in
  if len src <? props_len then dret (Ok None) st npi src
  else
    match sub_chk rl props_len with
    | Ok payload_len =>
      let '(buf, src1) := split_to props_len src in
      match publish_decode buf fb payload_len with
      | Ok publish =>
        let l := len src1 in
        if (payload_len <=? l) || (min_chunk =? 0) || (min_chunk <=? l) then
          let '(payload, src2) := split_to (N.min l payload_len) src1 in
          let remaining := payload_len - len payload in
          let st' := if 0 <? remaining then PublishPayload remaining else FrameHeader in
          dret (Ok (Some (DPublish publish payload rl))) st' npi src2
        else
          dret (Ok (Some (DPublish publish [] rl))) (PublishPayload payload_len) npi src1
      | r => dret (lift_err r) st npi src1
      end
    | r => dret (lift_err r) st npi src
    end.

Definition step_publish_header (min_chunk : N) (npi : bool) (fb rl : N) (src : bytes) : dresult :=
  match packet_header_size src fb rl with
  | Ok (Some l) => step_publish_properties min_chunk npi l fb rl src
  | Ok None => dret (Ok None) (PublishHeader fb rl) npi src
  | r => dret (lift_err r) (PublishHeader fb rl) npi src
  end.

Definition step_publish_payload (min_chunk : N) (npi : bool) (remaining : N) (src : bytes) : dresult :=
  let l := len src in
  if (remaining <=? l) || (negb (min_chunk =? 0) && (min_chunk <=? l)) then
    let '(payload, src') := split_to (N.min l remaining) src in
    let remaining' := remaining - len payload in
    if 0 <? remaining' then dret (Ok (Some (DPayloadChunk payload false))) (PublishPayload remaining') npi src'
    else dret (Ok (Some (DPayloadChunk payload true))) FrameHeader npi src'
  else dret (Ok None) (PublishPayload remaining) npi src.

Definition step_frame_header (max_in min_chunk : N) (npi : bool) (src : bytes) : dresult :=
  match src with
  | first_byte :: ((_ :: _) as tl_) =>
    match dec_vi_opt tl_ with
    | Ok (Some (remaining_length, consumed)) =>
      if negb (max_in =? 0) && (max_in <? remaining_length) then
        dret (Err DE_MaxSizeExceeded) FrameHeader npi src
      else
        let src' := skipn (N.to_nat (consumed + 1)) src in
        if is_publish first_byte then step_publish_header min_chunk npi first_byte remaining_length src'
        else
          (* state := Frame; `if src.len() < remaining_length { return Ok(None) }` else next round,
             which is exactly step_frame *)
          step_frame npi first_byte remaining_length src'
    | Ok None => dret (Ok None) FrameHeader npi src
    | r => dret (lift_err r) FrameHeader npi src
    end
  | _ => dret (Ok None) FrameHeader npi src
  end.

Definition decode_step (max_in min_chunk : N) (npi : bool) (st : dstate) (src : bytes) : dresult :=
  match st with
  | FrameHeader => step_frame_header max_in min_chunk npi src
  | Frame fb rl => step_frame npi fb rl src
  | PublishHeader fb rl => step_publish_header min_chunk npi fb rl src
  | PublishProperties pl fb rl => step_publish_properties min_chunk npi pl fb rl src
  | PublishPayload remaining => step_publish_payload min_chunk npi remaining src
  end.

(* ================================================================== ENCODING ============== *)
(* writer: bytes put into the buffer so far, and how the function returned *)
Definition wr := (bytes * res unit)%type.
Definition wput (b : bytes) : wr := (b, Ok tt).
Definition wnop : wr := ([], Ok tt).
Definition wfail (e : N) : wr := ([], Err e).
Definition wpanic (p : N) : wr := ([], Panic p).
(* [wseq a k]: run a; if it returned Ok run k (given what a wrote) *)
Definition wseq (a : wr) (k : bytes -> wr) : wr :=
  match a with
  | (x, Ok _) => let '(y, r) := k x in (x ++ y, r)
  | (x, Err e) => (x, Err e)
  | (x, Panic p) => (x, Panic p)
  end.
Notation "a >>> b" := (wseq a (fun _ => b)) (at level 61, right associativity).
(* a pure computation that may fail/panic before anything more is written *)
Definition wlet {A} (r : res A) (k : A -> wr) : wr :=
  match r with Ok a => k a | Err e => ([], Err e) | Panic p => ([], Panic p) end.

Definition w_vi (n : N) : wr := wlet (write_vi n) wput.      (* utils::write_variable_length *)

(* ------------------------------------------------------------------ utils.rs: impl Encode *)
Definition w_u8 (n : N) : wr := wput [n].
Definition w_bool (b : bool) : wr := wput [b2n b].
Definition w_u16 (n : N) : wr := wput [n / 256; n mod 256].
Definition w_u32 (n : N) : wr := wput [n / 16777216; (n / 65536) mod 256; (n / 256) mod 256; n mod 256].
(* Bytes / ByteString / &[u8]: u16::try_from(len) first *)
Definition w_bytes (b : bytes) : wr :=
  if len b <=? U16MAX then wput (len b / 256 :: len b mod 256 :: b) else wfail EE_InvalidLength.
Definition w_uprop (p : uprop) : wr := w_bytes (fst p) >>> w_bytes (snd p).

Definition es_bytes (b : bytes) : N := 2 + len b.
Definition es_uprop (p : uprop) : N := es_bytes (fst p) + es_bytes (snd p).

(* encode.rs: impl Encode for UserProperties *)
Fixpoint es_uprops (l : uprops) : N :=
  match l with [] => 0 | p :: r => (1 + es_uprop p) + es_uprops r end.
Fixpoint w_uprops (l : uprops) : wr :=
  match l with [] => wnop | p :: r => w_u8 P_USER >>> w_uprop p >>> w_uprops r end.

(* encode.rs: encoded_property_size / encoded_property_size_default / encode_property / .._default *)
Definition eps {A} (sz : A -> N) (v : option A) : N :=
  match v with Some x => 1 + sz x | None => 0 end.
Definition eps_default {A} (sz : A -> N) (is_default : bool) (v : A) : N :=
  if is_default then 0 else 1 + sz v.
Definition w_prop {A} (enc : A -> wr) (v : option A) (prop_type : N) : wr :=
  match v with Some x => w_u8 prop_type >>> enc x | None => wnop end.
Definition w_prop_default {A} (enc : A -> wr) (is_default : bool) (v : A) (prop_type : N) : wr :=
  if is_default then wnop else w_u8 prop_type >>> enc v.

Definition sz1 {A} (_ : A) : N := 1.
Definition sz2 {A} (_ : A) : N := 2.
Definition sz4 {A} (_ : A) : N := 4.

(* encode.rs: encoded_size_opt_props(user_props, reason_str, limit) *)
Fixpoint encoded_size_opt_props (ups : uprops) (reason : option bytes) (limit : N) : N :=
  match ups with
  | p :: r =>
    let prop_len := 1 + es_uprop p in
    if limit <? prop_len then 0                     (* return len *)
    else prop_len + encoded_size_opt_props r reason (limit - prop_len)
  | [] =>
    match reason with
    | Some s => let reason_len := 1 + es_bytes s in if reason_len <=? limit then reason_len else 0
    | None => 0
    end
  end.

(* encode.rs: encode_opt_props(user_props, reason_str, buf, size) *)
Fixpoint encode_opt_props (ups : uprops) (reason : option bytes) (size : N) : wr :=
  match ups with
  | p :: r =>
    let prop_len := 1 + es_bytes (fst p) + es_bytes (snd p) in
    if size <? prop_len then wnop                   (* return Ok(()) *)
    else w_u8 P_USER >>> w_uprop p >>> encode_opt_props r reason (size - prop_len)
  | [] =>
    match reason with
    | Some s => if len s <? size then w_u8 P_REASON_STRING >>> w_bytes s else wnop
    | None => wnop
    end
  end.

(* packet/mod.rs: ack_props::encoded_size / ack_props::encode *)
Definition ack_props_encoded_size (ups : uprops) (reason : option bytes) (limit : N) : N :=
  if limit <? 4 then 1
  else let l := encoded_size_opt_props ups reason (limit - 4) in var_int_len l + l.

Definition ack_props_encode (ups : uprops) (reason : option bytes) (size : N) : wr :=
  if size =? 0 then wpanic PS_debug_assert
  else if size =? 1 then w_u8 0
  else wlet (var_int_len_from_size size) (fun size' =>
         w_vi size' >>> encode_opt_props ups reason size').

(* ------------------------------------------------------------------ packet/pubacks.rs *)
Definition publish_ack_encoded_size (a : publish_ack) (limit : N) : N :=
  3 + ack_props_encoded_size (pa_properties a) (pa_reason_string a) (reduce_limit limit (3 + 4)).
Definition publish_ack_encode (a : publish_ack) (size : N) : wr :=
  w_u16 (pa_packet_id a) >>> w_u8 (pa_reason_code a) >>>
  wlet (sub_chk size 3) (fun s => ack_props_encode (pa_properties a) (pa_reason_string a) s).

Definition publish_ack2_encoded_size (a : publish_ack2) (limit : N) : N :=
  3 + ack_props_encoded_size (pa2_properties a) (pa2_reason_string a) (reduce_limit limit (3 + 4)).
Definition publish_ack2_encode (a : publish_ack2) (size : N) : wr :=
  w_u16 (pa2_packet_id a) >>> w_u8 (pa2_reason_code a) >>>
  wlet (sub_chk size 3) (fun s => ack_props_encode (pa2_properties a) (pa2_reason_string a) s).

(* ------------------------------------------------------------------ packet/publish.rs *)
Fixpoint sub_ids_size (l : list N) : N :=
  match l with [] => 0 | id :: r => (1 + var_int_len id) + sub_ids_size r end.
(* a subscription identifier above MAX_PACKET_SIZE is refused before its id byte is written *)
Definition w_sub_id (id : N) : wr :=
  if MAX_PACKET_SIZE <? id then wfail EE_MalformedPacket else w_u8 P_SUB_ID >>> w_vi id.
Fixpoint w_sub_ids (l : list N) : wr :=
  match l with [] => wnop | id :: r => w_sub_id id >>> w_sub_ids r end.

Definition publish_properties_encoded_size (p : publish_properties) (_limit : N) : N :=
  let prop_len :=
    eps sz2 (pp_topic_alias p)
    + eps es_bytes (pp_correlation_data p)
    + eps sz4 (pp_message_expiry_interval p)
    + eps es_bytes (pp_content_type p)
    + eps_default sz1 (Bool.eqb (pp_is_utf8_payload p) false) (pp_is_utf8_payload p)
    + eps es_bytes (pp_response_topic p)
    + sub_ids_size (pp_subscription_ids p)
    + es_uprops (pp_user_properties p) in
  prop_len + var_int_len prop_len.

Definition publish_properties_encode (p : publish_properties) (size : N) : wr :=
  wlet (var_int_len_from_size size) (fun prop_len =>
    w_vi prop_len >>>
    w_prop w_u16 (pp_topic_alias p) P_TOPIC_ALIAS >>>
    w_prop w_bytes (pp_correlation_data p) P_CORR_DATA >>>
    w_prop w_u32 (pp_message_expiry_interval p) P_MSG_EXPIRY_INT >>>
    w_prop w_bytes (pp_content_type p) P_CONTENT_TYPE >>>
    w_prop_default w_bool (Bool.eqb (pp_is_utf8_payload p) false) (pp_is_utf8_payload p) P_UTF8_PAYLOAD >>>
    w_prop w_bytes (pp_response_topic p) P_RESP_TOPIC >>>
    w_sub_ids (pp_subscription_ids p) >>>
    w_uprops (pp_user_properties p)).

Definition publish_encoded_size (p : publish) (limit : N) : N :=
  let packet_id_size := if p_qos p =? 0 then 0 else 2 in
  es_bytes (p_topic p) + packet_id_size + publish_properties_encoded_size (p_properties p) limit
  + p_payload_size p.

Definition publish_encode (p : publish) (size : N) : wr :=
  w_u8 (PT_PUBLISH_START + p_qos p * 2 + b2n (p_dup p) * 8 + b2n (p_retain p)) >>>
  w_vi size >>>
  wseq (w_bytes (p_topic p) >>>
        (if p_qos p =? 0 then
           match p_packet_id p with Some _ => wfail EE_MalformedPacket | None => wnop end
         else
           match p_packet_id p with None => wfail EE_PacketIdRequired | Some id => w_u16 id end))
       (fun hdr =>   (* hdr = buf[start_len..] *)
          wlet (sub_chk size ((len hdr + p_payload_size p) mod TWO32)) (fun psize =>
            publish_properties_encode (p_properties p) psize)).

(* ------------------------------------------------------------------ packet/connect.rs *)
Definition will_properties_len (w : last_will) : N :=
  eps sz4 (lw_will_delay_interval_sec w)
  + eps es_bytes (lw_correlation_data w)
  + eps sz4 (lw_message_expiry_interval w)
  + eps es_bytes (lw_content_type w)
  + eps sz1 (lw_is_utf8_payload w)
  + eps es_bytes (lw_response_topic w)
  + es_uprops (lw_user_properties w).

Definition connect_properties_len (c : connect) : N :=
  eps es_bytes (c_auth_method c)
  + eps es_bytes (c_auth_data c)
  + eps_default sz4 (c_session_expiry_interval_secs c =? 0) (c_session_expiry_interval_secs c)
  + eps_default sz1 (Bool.eqb (c_request_problem_info c) true) (c_request_problem_info c)
  + eps_default sz1 (Bool.eqb (c_request_response_info c) false) (c_request_response_info c)
  + eps sz2 (c_receive_max c)
  + eps sz4 (c_max_packet_size c)
  + eps_default sz2 (c_topic_alias_max c =? 0) (c_topic_alias_max c)
  + es_uprops (c_user_properties c).

Definition connect_encoded_size (c : connect) (_limit : N) : N :=
  let prop_len := connect_properties_len c in
  6 + 1 + 1 + 2 + var_int_len prop_len + prop_len + es_bytes (c_client_id c)
  + match c_last_will c with
    | Some w => let pl := will_properties_len w in
                var_int_len pl + pl + es_bytes (lw_topic w) + es_bytes (lw_message w)
    | None => 0
    end
  + match c_username c with Some u => es_bytes u | None => 0 end
  + match c_password c with Some p => es_bytes p | None => 0 end.

Definition is_some {A} (o : option A) : bool := match o with Some _ => true | None => false end.

Definition connect_flags (c : connect) : N :=
  (if is_some (c_username c) then 128 else 0)
  + (if is_some (c_password c) then 64 else 0)
  + match c_last_will c with
    | Some w => 4 + (if lw_retain w then 32 else 0) + lw_qos w * 8
    | None => 0
    end
  + (if c_clean_start c then 2 else 0).

Definition connect_encode (c : connect) (_size : N) : wr :=
  w_bytes MQTT >>>
  wput [5; connect_flags c] >>>
  w_u16 (c_keep_alive c) >>>
  w_vi (connect_properties_len c mod TWO32) >>>
  w_prop_default w_u32 (c_session_expiry_interval_secs c =? 0) (c_session_expiry_interval_secs c)
                 P_SESS_EXPIRY_INT >>>
  w_prop w_bytes (c_auth_method c) P_AUTH_METHOD >>>
  w_prop w_bytes (c_auth_data c) P_AUTH_DATA >>>
  w_prop_default w_bool (Bool.eqb (c_request_problem_info c) true) (c_request_problem_info c) P_REQ_PROB_INFO >>>
  w_prop_default w_bool (Bool.eqb (c_request_response_info c) false) (c_request_response_info c)
                 P_REQ_RESP_INFO >>>
  w_prop w_u16 (c_receive_max c) P_RECEIVE_MAX >>>
  w_prop w_u32 (c_max_packet_size c) P_MAX_PACKET_SIZE >>>
  w_prop_default w_u16 (c_topic_alias_max c =? 0) (c_topic_alias_max c) P_TOPIC_ALIAS_MAX >>>
  w_uprops (c_user_properties c) >>>
  w_bytes (c_client_id c) >>>
  match c_last_will c with
  | Some w =>
    w_vi (will_properties_len w mod TWO32) >>>
    w_prop w_u32 (lw_will_delay_interval_sec w) P_WILL_DELAY_INT >>>
    w_prop w_bool (lw_is_utf8_payload w) P_UTF8_PAYLOAD >>>
    w_prop w_u32 (lw_message_expiry_interval w) P_MSG_EXPIRY_INT >>>
    w_prop w_bytes (lw_content_type w) P_CONTENT_TYPE >>>
    w_prop w_bytes (lw_response_topic w) P_RESP_TOPIC >>>
    w_prop w_bytes (lw_correlation_data w) P_CORR_DATA >>>
    w_uprops (lw_user_properties w) >>>
    w_bytes (lw_topic w) >>>
    w_bytes (lw_message w)
  | None => wnop
  end >>>
  match c_username c with Some s => w_bytes s | None => wnop end >>>
  match c_password c with Some p => w_bytes p | None => wnop end.

(* ------------------------------------------------------------------ packet/connack.rs *)
Definition connect_ack_encoded_size (a : connect_ack) (limit : N) : N :=
  let prop_len0 :=
    eps sz4 (ca_session_expiry_interval_secs a)
    + eps_default sz2 (ca_receive_max a =? RECEIVE_MAX_DEFAULT) (ca_receive_max a)
    + (if ca_max_qos a <? 2 then 1 + 1 else 0)
    + eps sz4 (ca_max_packet_size a)
    + eps es_bytes (ca_assigned_client_id a)
    + eps_default sz1 (Bool.eqb (ca_retain_available a) true) (ca_retain_available a)
    + eps_default sz1 (Bool.eqb (ca_wildcard_subscription_available a) true) (ca_wildcard_subscription_available a)
    + eps_default sz1 (Bool.eqb (ca_subscription_identifiers_available a) true)
                  (ca_subscription_identifiers_available a)
    + eps_default sz1 (Bool.eqb (ca_shared_subscription_available a) true) (ca_shared_subscription_available a)
    + eps sz2 (ca_server_keepalive_sec a)
    + eps es_bytes (ca_response_info a)
    + eps es_bytes (ca_server_reference a)
    + eps es_bytes (ca_auth_method a)
    + eps es_bytes (ca_auth_data a) in
  let prop_len1 := if 0 <? ca_topic_alias_max a then prop_len0 + (1 + 2) else prop_len0 in
  let diag_len := encoded_size_opt_props (ca_user_properties a) (ca_reason_string a)
                    (reduce_limit limit (2 + 4 + prop_len1)) in
  let prop_len := prop_len1 + diag_len in
  2 + var_int_len prop_len + prop_len.

Definition connect_ack_encode (a : connect_ack) (size : N) : wr :=
  wseq (wput [b2n (ca_session_present a); ca_reason_code a] >>>
        wlet (sub_chk size 2) (fun s2 => wlet (var_int_len_from_size s2) (fun prop_len =>
        w_vi prop_len >>>
        w_prop w_u32 (ca_session_expiry_interval_secs a) P_SESS_EXPIRY_INT >>>
        w_prop_default w_u16 (ca_receive_max a =? RECEIVE_MAX_DEFAULT) (ca_receive_max a) P_RECEIVE_MAX >>>
        (if ca_max_qos a <? 2 then wput [P_MAX_QOS; ca_max_qos a] else wnop) >>>
        w_prop_default w_bool (Bool.eqb (ca_retain_available a) true) (ca_retain_available a) P_RETAIN_AVAIL >>>
        w_prop w_u32 (ca_max_packet_size a) P_MAX_PACKET_SIZE >>>
        w_prop w_bytes (ca_assigned_client_id a) P_ASSND_CLIENT_ID >>>
        w_prop_default w_u16 (ca_topic_alias_max a =? 0) (ca_topic_alias_max a) P_TOPIC_ALIAS_MAX >>>
        w_prop_default w_bool (Bool.eqb (ca_wildcard_subscription_available a) true)
                       (ca_wildcard_subscription_available a) P_WILDCARD_SUB_AVAIL >>>
        w_prop_default w_bool (Bool.eqb (ca_subscription_identifiers_available a) true)
                       (ca_subscription_identifiers_available a) P_SUB_IDS_AVAIL >>>
        w_prop_default w_bool (Bool.eqb (ca_shared_subscription_available a) true)
                       (ca_shared_subscription_available a) P_SHARED_SUB_AVAIL >>>
        w_prop w_u16 (ca_server_keepalive_sec a) P_SERVER_KA >>>
        w_prop w_bytes (ca_response_info a) P_RESP_INFO >>>
        w_prop w_bytes (ca_server_reference a) P_SERVER_REF >>>
        w_prop w_bytes (ca_auth_method a) P_AUTH_METHOD >>>
        w_prop w_bytes (ca_auth_data a) P_AUTH_DATA)))
       (fun written =>   (* written = buf[start_len..] *)
          wlet (sub_chk size (len written mod TWO32)) (fun rest =>
            encode_opt_props (ca_user_properties a) (ca_reason_string a) rest)).

(* ------------------------------------------------------------------ packet/subscribe.rs *)
Definition subscription_options_byte (o : subscription_options) : N :=
  so_qos o + b2n (so_no_local o) * 4 + b2n (so_retain_as_published o) * 8 + so_retain_handling o * 16.

Fixpoint sub_filters_size (l : list (bytes * subscription_options)) : N :=
  match l with [] => 0 | (f, _) :: r => (es_bytes f + 1) + sub_filters_size r end.
Fixpoint w_sub_filters (l : list (bytes * subscription_options)) : wr :=
  match l with
  | [] => wnop
  | (f, o) :: r => w_bytes f >>> w_u8 (subscription_options_byte o) >>> w_sub_filters r
  end.

Definition subscribe_prop_len (s : subscribe) : N :=
  match s_id s with Some v => 1 + var_int_len v | None => 0 end + es_uprops (s_user_properties s).

Definition subscribe_encoded_size (s : subscribe) (_limit : N) : N :=
  let prop_len := subscribe_prop_len s in
  2 + var_int_len prop_len + prop_len + sub_filters_size (s_topic_filters s).

Definition subscribe_encode (s : subscribe) (_size : N) : wr :=
  w_u16 (s_packet_id s) >>>
  w_vi (subscribe_prop_len s mod TWO32) >>>
  match s_id s with Some id => w_sub_id id | None => wnop end >>>
  w_uprops (s_user_properties s) >>>
  w_sub_filters (s_topic_filters s).

Definition subscribe_ack_encoded_size (a : subscribe_ack) (limit : N) : N :=
  let l := len (sa_status a) in
  if U32MAX - 2 <? l then USIZE_MAX
  else 2 + ack_props_encoded_size (sa_properties a) (sa_reason_string a) (reduce_limit limit (2 + l)) + l.

Definition subscribe_ack_encode (a : subscribe_ack) (size : N) : wr :=
  w_u16 (sa_packet_id a) >>>
  wlet (sub_chk size 2) (fun s2 => wlet (sub_chk s2 (len (sa_status a) mod TWO32)) (fun s3 =>
    ack_props_encode (sa_properties a) (sa_reason_string a) s3)) >>>
  wput (sa_status a).

Fixpoint unsub_filters_size (l : list bytes) : N :=
  match l with [] => 0 | f :: r => (2 + len f) + unsub_filters_size r end.
Fixpoint w_unsub_filters (l : list bytes) : wr :=
  match l with [] => wnop | f :: r => w_bytes f >>> w_unsub_filters r end.

Definition unsubscribe_encoded_size (u : unsubscribe) (_limit : N) : N :=
  let prop_len := es_uprops (u_user_properties u) in
  2 + var_int_len prop_len + prop_len + unsub_filters_size (u_topic_filters u).

Definition unsubscribe_encode (u : unsubscribe) (_size : N) : wr :=
  w_u16 (u_packet_id u) >>>
  w_vi (es_uprops (u_user_properties u) mod TWO32) >>>
  w_uprops (u_user_properties u) >>>
  w_unsub_filters (u_topic_filters u).

Definition unsubscribe_ack_encoded_size (a : unsubscribe_ack) (limit : N) : N :=
  let l := len (ua_status a) in
  2 + l + ack_props_encoded_size (ua_properties a) (ua_reason_string a) (reduce_limit limit (2 + l)).

Definition unsubscribe_ack_encode (a : unsubscribe_ack) (size : N) : wr :=
  w_u16 (ua_packet_id a) >>>
  wlet (sub_chk size 2) (fun s2 => wlet (sub_chk s2 (len (ua_status a) mod TWO32)) (fun s3 =>
    ack_props_encode (ua_properties a) (ua_reason_string a) s3)) >>>
  wput (ua_status a).

(* ------------------------------------------------------------------ packet/disconnect.rs *)
Definition disconnect_encoded_size (d : disconnect) (limit : N) : N :=
  let prop_len0 := eps sz4 (d_session_expiry_interval_secs d) + eps es_bytes (d_server_reference d) in
  let diag_len := encoded_size_opt_props (d_user_properties d) (d_reason_string d)
                    (reduce_limit limit (prop_len0 + 1 + 4)) in
  let prop_len := prop_len0 + diag_len in
  1 + var_int_len prop_len + prop_len.

Definition disconnect_encode (d : disconnect) (size : N) : wr :=
  wseq (w_u8 (d_reason_code d) >>>
        wlet (sub_chk size 1) (fun s1 => wlet (var_int_len_from_size s1) (fun prop_len =>
        w_vi prop_len >>>
        w_prop w_u32 (d_session_expiry_interval_secs d) P_SESS_EXPIRY_INT >>>
        w_prop w_bytes (d_server_reference d) P_SERVER_REF)))
       (fun written =>
          wlet (sub_chk size (len written mod TWO32)) (fun rest =>
            encode_opt_props (d_user_properties d) (d_reason_string d) rest)).

(* ------------------------------------------------------------------ packet/auth.rs *)
Definition auth_encoded_size (a : auth) (limit : N) : N :=
  let prop_len0 := eps es_bytes (a_auth_method a) + eps es_bytes (a_auth_data a) in
  let diag_len := encoded_size_opt_props (a_user_properties a) (a_reason_string a)
                    (reduce_limit limit (prop_len0 + 1 + 4)) in
  let prop_len := prop_len0 + diag_len in
  1 + var_int_len prop_len + prop_len.

Definition auth_encode (a : auth) (size : N) : wr :=
  wseq (w_u8 (a_reason_code a) >>>
        wlet (sub_chk size 1) (fun s1 => wlet (var_int_len_from_size s1) (fun prop_len =>
        w_vi prop_len >>>
        w_prop w_bytes (a_auth_method a) P_AUTH_METHOD >>>
        w_prop w_bytes (a_auth_data a) P_AUTH_DATA)))
       (fun written =>
          wlet (sub_chk size (len written mod TWO32)) (fun rest =>
            encode_opt_props (a_user_properties a) (a_reason_string a) rest)).

(* ------------------------------------------------------------------ encode.rs: EncodeLtd for Packet *)
Definition packet_encoded_size (p : packet) (limit : N) : N :=
  match p with
  | Connect c => connect_encoded_size c limit
  | ConnectAck a => connect_ack_encoded_size a limit
  | PublishAck a | PublishReceived a => publish_ack_encoded_size a limit
  | PublishRelease a | PublishComplete a => publish_ack2_encoded_size a limit
  | Subscribe s => subscribe_encoded_size s limit
  | SubscribeAck a => subscribe_ack_encoded_size a limit
  | Unsubscribe u => unsubscribe_encoded_size u limit
  | UnsubscribeAck a => unsubscribe_ack_encoded_size a limit
  | PingRequest | PingResponse => 0
  | Disconnect d => disconnect_encoded_size d limit
  | Auth a => auth_encoded_size a limit
  end.

Definition packet_encode (p : packet) (check_size : N) : wr :=
  match p with
  | Connect c => w_u8 PT_CONNECT >>> w_vi check_size >>> connect_encode c check_size
  | ConnectAck a => w_u8 PT_CONNACK >>> w_vi check_size >>> connect_ack_encode a check_size
  | PublishAck a => w_u8 PT_PUBACK >>> w_vi check_size >>> publish_ack_encode a check_size
  | PublishReceived a => w_u8 PT_PUBREC >>> w_vi check_size >>> publish_ack_encode a check_size
  | PublishRelease a => w_u8 PT_PUBREL >>> w_vi check_size >>> publish_ack2_encode a check_size
  | PublishComplete a => w_u8 PT_PUBCOMP >>> w_vi check_size >>> publish_ack2_encode a check_size
  | Subscribe s => w_u8 PT_SUBSCRIBE >>> w_vi check_size >>> subscribe_encode s check_size
  | SubscribeAck a => w_u8 PT_SUBACK >>> w_vi check_size >>> subscribe_ack_encode a check_size
  | Unsubscribe u => w_u8 PT_UNSUBSCRIBE >>> w_vi check_size >>> unsubscribe_encode u check_size
  | UnsubscribeAck a => w_u8 PT_UNSUBACK >>> w_vi check_size >>> unsubscribe_ack_encode a check_size
  | PingRequest => wput [PT_PINGREQ; 0]
  | PingResponse => wput [PT_PINGRESP; 0]
  | Disconnect d => w_u8 PT_DISCONNECT >>> w_vi check_size >>> disconnect_encode d check_size
  | Auth a => w_u8 PT_AUTH >>> w_vi check_size >>> auth_encode a check_size
  end.

(* ------------------------------------------------------------------ codec.rs: encoder side *)
Record ecodec := mkECodec {
  ec_max_out_size : N;
  ec_max_out_frame : N;
  ec_no_problem_info : bool;                     (* CodecFlags::NO_PROBLEM_INFO *)
  ec_encoding_payload : option N }.              (* Option<NonZeroU32> *)

Definition ecodec_new : ecodec := mkECodec 0 0 false None.

Definition set_max_outbound_size (c : ecodec) (size : N) : ecodec :=
  mkECodec (if 5 <? size then size - 5 else size) size (ec_no_problem_info c) (ec_encoding_payload c).

Definition check_frame_size (c : ecodec) (content_size : N) : res unit :=
  let max := ec_max_out_frame c in
  if negb (max =? 0) && (max <? content_size + var_int_len content_size + 1)
  then Err EE_OverMaxPacketSize else Ok tt.

(* handle [MQTT 3.1.2.11.7] *)
Definition strip_problem_info (item : encoded) : encoded :=
  match item with
  | EPacket (PublishAck a) => EPacket (PublishAck (mkPublishAck (pa_packet_id a) (pa_reason_code a) [] None))
  | EPacket (PublishReceived a) =>
    EPacket (PublishReceived (mkPublishAck (pa_packet_id a) (pa_reason_code a) [] None))
  | EPacket (PublishRelease a) =>
    EPacket (PublishRelease (mkPublishAck2 (pa2_packet_id a) (pa2_reason_code a) [] None))
  | EPacket (PublishComplete a) =>
    EPacket (PublishComplete (mkPublishAck2 (pa2_packet_id a) (pa2_reason_code a) [] None))
  | EPacket (Subscribe s) =>
    EPacket (Subscribe (mkSubscribe (s_packet_id s) (s_id s) [] (s_topic_filters s)))
  | EPacket (SubscribeAck a) => EPacket (SubscribeAck (mkSubscribeAck (sa_packet_id a) [] None (sa_status a)))
  | EPacket (Unsubscribe u) => EPacket (Unsubscribe (mkUnsubscribe (u_packet_id u) [] (u_topic_filters u)))
  | EPacket (UnsubscribeAck a) =>
    EPacket (UnsubscribeAck (mkUnsubscribeAck (ua_packet_id a) [] None (ua_status a)))
  | EPacket (Auth a) => EPacket (Auth (mkAuth (a_reason_code a) (a_auth_method a) (a_auth_data a) None []))
  | _ => item
  end.

Definition nonzero (n : N) : option N := if n =? 0 then None else Some n.   (* NonZeroU32::new *)

Definition max_size_of (c : ecodec) : N :=
  if negb (ec_max_out_size c =? 0) then N.min (ec_max_out_size c) MAX_PACKET_SIZE else MAX_PACKET_SIZE.

(* Codec::encode_item: what it appended to dst, its result, the codec afterwards *)
Definition encode_item (c : ecodec) (item0 : encoded) : wr * ecodec :=
  let item := if ec_no_problem_info c then strip_problem_info item0 else item0 in
  let max_size := max_size_of c in
  let set_payload (v : option N) :=
      mkECodec (ec_max_out_size c) (ec_max_out_frame c) (ec_no_problem_info c) v in
  match item with
  | EPacket pkt =>
    match ec_encoding_payload c with
    | Some _ => (wfail EE_ExpectPayload, c)
    | None =>
      let content_size := packet_encoded_size pkt max_size in
      if max_size <? content_size then (wfail EE_OverMaxPacketSize, c)
      else (wlet (check_frame_size c content_size) (fun _ => packet_encode pkt content_size), c)
    end
  | EPublish pkt buf =>
    (* compared as usize BEFORE the cast to u32 (content_size <= max_size <= MAX_PACKET_SIZE afterwards) *)
    let content_size := publish_encoded_size pkt max_size in
    if max_size <? content_size then (wfail EE_OverMaxPacketSize, c)
    else if match buf with Some b => p_payload_size pkt <? len b | None => false end
    then (wfail EE_OverPublishSize, c)
    else
      match check_frame_size c content_size with
      | Ok _ =>
        match publish_encode pkt content_size with
        | (w, Ok _) =>
          match buf with
          | Some b =>
            match sub_chk (p_payload_size pkt) (len b mod TWO32) with
            | Ok remaining => ((w ++ b, Ok tt), set_payload (nonzero remaining))
            | Err e => ((w, Err e), c)
            | Panic p => ((w, Panic p), c)
            end
          | None => ((w, Ok tt), set_payload (nonzero (p_payload_size pkt)))
          end
        | w => (w, c)
        end
      | Err e => (wfail e, c)
      | Panic p => (wpanic p, c)
      end
  | EPayloadChunk chunk =>
    match ec_encoding_payload c with
    | Some remaining =>
      let l := len chunk mod TWO32 in
      if remaining <? l then (wfail EE_OverPublishSize, c)
      else (wput chunk, set_payload (nonzero (remaining - l)))
    | None => (wfail EE_UnexpectedPayload, c)
    end
  end.

(* Encoder::encodev: on Err the buffer is truncated back to its previous length *)
Definition encodev (c : ecodec) (item : encoded) : wr * ecodec :=
  let '((w, r), c') := encode_item c item in
  match r with
  | Err e => (([], Err e), c')
  | _ => ((w, r), c')
  end.

(* names used by the statements about the codec *)
Definition item := decoded.
Definition encoded_size (limit : N) (p : packet) : N := packet_encoded_size p limit.
Definition encode (p : packet) (size : N) : wr := packet_encode p size.
