(* Model/Handshake.v -- the handshake stage of a server connection and the limits it puts in force
   (property C19).  Definitions only.  Sources followed line by line:
     src/v3/handshake.rs, src/v5/handshake.rs   Handshake::{ack, failed}, HandshakeAck builders
     src/v3/server.rs, src/v5/server.rs         HandshakeService::call
     src/service.rs                             MqttHandler::call (dispatcher only after Ok(..))
     src/v5/codec/codec.rs                      set_max_outbound_size
     src/v3/client/connector.rs, src/v5/client/connector.rs   connect_inner
   All numbers are the Rust machine integers as [N]: u16 for keep-alive / max_send / receive
   maximum / topic alias maximum, u32 for packet sizes, QoS as 0..2. *)
From MV Require Import Base.Prelude Base.Res.
From MV Require Model.CodecV3 Model.CodecV5.

Definition U16MAX : N := 65535.
Definition DEFAULT_KEEPALIVE : N := 30.          (* v3: Seconds(30); v5: literal 30 *)
Definition RECEIVE_MAX_DEFAULT : N := 65535.     (* v5/mod.rs *)

Definition dflt {A} (o : option A) (d : A) : A := match o with Some x => x | None => d end.

(* config.rs: the fields of MqttServiceConfig the handshake reads *)
Record svc_cfg := mkCfg {
  cfg_max_qos : N;
  cfg_max_size : N;
  cfg_max_receive : N;
  cfg_max_topic_alias : N;
  cfg_max_send : N;
  cfg_min_chunk_size : N }.

(* MqttServiceConfig::new() *)
Definition cfg_default : svc_cfg := mkCfg 1 0 16 32 16 32768.

(* u16::saturating_add *)
Definition sat_add16 (a b : N) : N := N.min U16MAX (a + b).

(* Handshake::ack (both versions), [MQTT-3.1.2-24] / [MQTT-3.1.2-22]:
     if pkt.keep_alive != 0 { (pkt.keep_alive >> 1).saturating_add(pkt.keep_alive) } else { 30 } *)
Definition keepalive_of (ka : N) : N :=
  if ka =? 0 then DEFAULT_KEEPALIVE else sat_add16 (ka / 2) ka.

(* what is in force once the dispatcher runs *)
Record limits := mkLimits {
  l_keepalive : N;        (* Seconds given to Dispatcher::keepalive_timeout; 0 = no idle timeout *)
  l_cap : N;              (* MqttShared::cap: the send window *)
  l_max_in : N;           (* decoder: max remaining length accepted; 0 = unlimited *)
  l_max_out : N;          (* v5 encoder: max_out_size cell as stored by set_max_outbound_size *)
  l_max_out_frame : N;    (* v5 encoder: max_out_frame cell *)
  l_max_qos : N;
  l_topic_alias_max : N;  (* v5 *)
  l_receive_max : N }.    (* v5: MqttShared::receive_max; v3: the in-flight limiter's max_cap *)

(* ------------------------------------------------------------------ MQTT 3.1.1 *)
(* v3::HandshakeAck (without io / shared / the session value) *)
Record ack3 := mkAck3 {
  a3_session : bool;                         (* session.is_some() *)
  a3_session_present : bool;
  a3_return_code : CodecV3.connack_reason;
  a3_keepalive : N;
  a3_max_send : option N;
  a3_max_packet_size : option N }.           (* Option<NonZeroU32> *)

(* Handshake::ack(st, session_present) *)
Definition hs3_ack (c : CodecV3.connect) (session_present : bool) : ack3 :=
  mkAck3 true session_present CodecV3.ConnectionAccepted (keepalive_of (CodecV3.c_keep_alive c)) None None.

(* Handshake::failed(return_code) *)
Definition hs3_failed (code : CodecV3.connack_reason) : ack3 :=
  mkAck3 false false code DEFAULT_KEEPALIVE None None.

(* HandshakeAck::idle_timeout *)
Definition ack3_idle_timeout (a : ack3) (t : N) : ack3 :=
  mkAck3 (a3_session a) (a3_session_present a) (a3_return_code a) t (a3_max_send a) (a3_max_packet_size a).

(* HandshakeAck::max_send: Some(0) is turned into None *)
Definition norm_max_send (val : option N) : option N :=
  match val with Some v => if v =? 0 then None else Some v | None => None end.

Definition ack3_max_send (a : ack3) (val : option N) : ack3 :=
  mkAck3 (a3_session a) (a3_session_present a) (a3_return_code a) (a3_keepalive a) (norm_max_send val)
         (a3_max_packet_size a).

(* HandshakeAck::max_packet_size(NonZeroU32) *)
Definition ack3_max_packet_size (a : ack3) (val : N) : ack3 :=
  mkAck3 (a3_session a) (a3_session_present a) (a3_return_code a) (a3_keepalive a) (a3_max_send a) (Some val).

(* v3 HandshakeService::call, `if let Some(session) = ack.session` branch:
     codec.set_max_size(cfg.max_size) (before the read), shared.set_cap(ack.max_send.unwrap_or(cfg.max_send)),
     codec.set_max_size(max_packet_size) if given; keep-alive = ack.keepalive.
   max QoS is read from the configuration by the dispatcher (v3/dispatcher.rs) and the in-flight
   limiter is built from cfg.max_receive (v3/default.rs): neither can be changed by the handshake. *)
Definition negotiate_v3 (cfg : svc_cfg) (c : CodecV3.connect) (a : ack3) : limits :=
  mkLimits (a3_keepalive a)
           (dflt (a3_max_send a) (cfg_max_send cfg))
           (dflt (a3_max_packet_size a) (cfg_max_size cfg))
           0 0
           (cfg_max_qos cfg)
           0
           (cfg_max_receive cfg).

(* the CONNACK written in either branch *)
Definition connack_v3 (a : ack3) : CodecV3.connect_ack :=
  if a3_session a then CodecV3.mkConnectAck CodecV3.ConnectionAccepted (a3_session_present a)
  else CodecV3.mkConnectAck (a3_return_code a) false.

(* ------------------------------------------------------------------ MQTT 5 *)
(* the cells of MqttShared / Codec the v5 HandshakeService::call fills from the configuration
   before it reads the first packet *)
Record shared5 := mkShared5 {
  sh_max_in : N;
  sh_max_qos : N;
  sh_receive_max : N;
  sh_topic_alias_max : N }.

Definition shared5_init (cfg : svc_cfg) : shared5 :=
  mkShared5 (cfg_max_size cfg) (cfg_max_qos cfg) (cfg_max_receive cfg) (cfg_max_topic_alias cfg).

(* codec::ConnectAck::default() *)
Definition connack_default : CodecV5.connect_ack :=
  CodecV5.mkConnectAck false 0 None RECEIVE_MAX_DEFAULT 2 None None 0 true true true true None None None None
                       None None [].

(* v5::HandshakeAck *)
Record ack5 := mkAck5 {
  a5_session : bool;
  a5_packet : CodecV5.connect_ack;
  a5_keepalive : N;
  a5_max_send : option N }.

Definition set_limits5 (p : CodecV5.connect_ack) (max_qos topic_alias_max receive_max : N)
                       (max_packet_size : option N) : CodecV5.connect_ack :=
  CodecV5.mkConnectAck (CodecV5.ca_session_present p) (CodecV5.ca_reason_code p)
    (CodecV5.ca_session_expiry_interval_secs p) receive_max max_qos max_packet_size
    (CodecV5.ca_assigned_client_id p) topic_alias_max (CodecV5.ca_retain_available p)
    (CodecV5.ca_wildcard_subscription_available p) (CodecV5.ca_subscription_identifiers_available p)
    (CodecV5.ca_shared_subscription_available p) (CodecV5.ca_server_keepalive_sec p)
    (CodecV5.ca_response_info p) (CodecV5.ca_server_reference p) (CodecV5.ca_auth_method p)
    (CodecV5.ca_auth_data p) (CodecV5.ca_reason_string p) (CodecV5.ca_user_properties p).

Definition set_server_keepalive (p : CodecV5.connect_ack) (v : option N) : CodecV5.connect_ack :=
  CodecV5.mkConnectAck (CodecV5.ca_session_present p) (CodecV5.ca_reason_code p)
    (CodecV5.ca_session_expiry_interval_secs p) (CodecV5.ca_receive_max p) (CodecV5.ca_max_qos p)
    (CodecV5.ca_max_packet_size p) (CodecV5.ca_assigned_client_id p) (CodecV5.ca_topic_alias_max p)
    (CodecV5.ca_retain_available p) (CodecV5.ca_wildcard_subscription_available p)
    (CodecV5.ca_subscription_identifiers_available p) (CodecV5.ca_shared_subscription_available p) v
    (CodecV5.ca_response_info p) (CodecV5.ca_server_reference p) (CodecV5.ca_auth_method p)
    (CodecV5.ca_auth_data p) (CodecV5.ca_reason_string p) (CodecV5.ca_user_properties p).

Definition set_reason5 (p : CodecV5.connect_ack) (code : N) : CodecV5.connect_ack :=
  CodecV5.mkConnectAck (CodecV5.ca_session_present p) code
    (CodecV5.ca_session_expiry_interval_secs p) (CodecV5.ca_receive_max p) (CodecV5.ca_max_qos p)
    (CodecV5.ca_max_packet_size p) (CodecV5.ca_assigned_client_id p) (CodecV5.ca_topic_alias_max p)
    (CodecV5.ca_retain_available p) (CodecV5.ca_wildcard_subscription_available p)
    (CodecV5.ca_subscription_identifiers_available p) (CodecV5.ca_shared_subscription_available p)
    (CodecV5.ca_server_keepalive_sec p)
    (CodecV5.ca_response_info p) (CodecV5.ca_server_reference p) (CodecV5.ca_auth_method p)
    (CodecV5.ca_auth_data p) (CodecV5.ca_reason_string p) (CodecV5.ca_user_properties p).

(* Handshake::ack(st): the CONNACK is pre-filled from the shared cells;
   NonZeroU16::new(receive_max).unwrap_or(RECEIVE_MAX_DEFAULT) *)
Definition hs5_ack (sh : shared5) (c : CodecV5.connect) : ack5 :=
  mkAck5 true
    (set_limits5 connack_default (sh_max_qos sh) (sh_topic_alias_max sh)
       (if sh_receive_max sh =? 0 then RECEIVE_MAX_DEFAULT else sh_receive_max sh)
       (if sh_max_in sh =? 0 then None else Some (sh_max_in sh)))
    (keepalive_of (CodecV5.c_keep_alive c)) None.

(* Handshake::failed(reason_code) / Handshake::fail_with(ack) *)
Definition hs5_fail_with (p : CodecV5.connect_ack) : ack5 := mkAck5 false p DEFAULT_KEEPALIVE None.
Definition hs5_failed (code : N) : ack5 := hs5_fail_with (set_reason5 connack_default code).

(* HandshakeAck::keep_alive(timeout): assert!(timeout != 0) *)
Definition ack5_keep_alive (a : ack5) (t : N) : res ack5 :=
  if t =? 0 then Panic PS_unwrap else Ok (mkAck5 (a5_session a) (a5_packet a) t (a5_max_send a)).

Definition ack5_max_send (a : ack5) (val : option N) : ack5 :=
  mkAck5 (a5_session a) (a5_packet a) (a5_keepalive a) (norm_max_send val).

(* HandshakeAck::with(f) *)
Definition ack5_with (a : ack5) (f : CodecV5.connect_ack -> CodecV5.connect_ack) : ack5 :=
  mkAck5 (a5_session a) (f (a5_packet a)) (a5_keepalive a) (a5_max_send a).

(* `if ack.packet.server_keepalive_sec.is_none() && (keep_alive > ack.keepalive)` *)
Definition announce_keepalive (c : CodecV5.connect) (a : ack5) : CodecV5.connect_ack :=
  match CodecV5.ca_server_keepalive_sec (a5_packet a) with
  | None => if a5_keepalive a <? CodecV5.c_keep_alive c
            then set_server_keepalive (a5_packet a) (Some (a5_keepalive a))
            else a5_packet a
  | Some _ => a5_packet a
  end.

(* the encoder cells after `if let Some(size) = connect.max_packet_size { set_max_outbound_size(size) }` *)
Definition outbound5 (c : CodecV5.connect) : CodecV5.ecodec :=
  match CodecV5.c_max_packet_size c with
  | Some size => CodecV5.set_max_outbound_size CodecV5.ecodec_new size
  | None => CodecV5.ecodec_new
  end.

(* `peer_receive_max.map_or(max_send_cfg, |val| cmp::min(max_send_cfg, val))` *)
Definition cap_v5 (cfg : svc_cfg) (c : CodecV5.connect) (a : ack5) : N :=
  let max_send_cfg := dflt (a5_max_send a) (cfg_max_send cfg) in
  match CodecV5.c_receive_max c with
  | None => max_send_cfg
  | Some val => N.min max_send_cfg val
  end.

(* v5 HandshakeService::call, accepted branch: limits in force and the CONNACK that is encoded *)
Definition negotiate_v5 (cfg : svc_cfg) (c : CodecV5.connect) (a : ack5) : limits * CodecV5.connect_ack :=
  let p := a5_packet a in
  let out := outbound5 c in
  (mkLimits (a5_keepalive a)
            (cap_v5 cfg c a)
            (dflt (CodecV5.ca_max_packet_size p) 0)
            (CodecV5.ec_max_out_size out) (CodecV5.ec_max_out_frame out)
            (CodecV5.ca_max_qos p)
            (CodecV5.ca_topic_alias_max p)
            (CodecV5.ca_receive_max p),
   announce_keepalive c a).

(* refused branch: the packet of the ack is written unchanged *)
Definition connack_refused_v5 (a : ack5) : CodecV5.connect_ack := a5_packet a.

(* ------------------------------------------------------------------ the first packet *)
(* what `io.recv(&shared.codec)` produced *)
Inductive first_item :=
| FConnect                       (* Decoded::Packet(Packet::Connect(..), _) *)
| FPacket (packet_type : N)      (* Decoded::Packet(other, _) *)
| FPublish.                      (* Decoded::Publish(..) *)

(* what the application's handshake service answered *)
Inductive app_answer :=
| AppAccept                      (* Ok(ack) with ack.session = Some(_) *)
| AppRefuse (code : N)           (* Ok(ack) with ack.session = None *)
| AppError.                      (* Err(_) *)

Inductive outcome :=
| OAccept                        (* limits applied, CONNACK(accepted) encoded, Ok((io, codec, session, keepalive)) *)
| ORefuse (code : N)             (* CONNACK(code) encoded, io.shutdown(), Err(Handshake(Disconnected(None))) *)
| OError (rk ptype : N).         (* Err(..) without any write; numbering of harness/src/engines/hs.rs *)

Definition RK_OK : N := 1.
Definition RK_SERVICE : N := 2.              (* MqttError::Service (v3 maps the handshake error so) *)
Definition RK_HS_SERVICE : N := 3.           (* MqttError::Handshake(HandshakeError::Service) (v5) *)
Definition RK_DISCONNECTED : N := 5.         (* Handshake(Disconnected(None)) *)
Definition RK_VIOLATION : N := 7.            (* Handshake(Protocol(ProtocolViolation(unexpected packet))) *)
Definition PUBLISH_START : N := 48.

Definition first_packet (version : N) (it : first_item) (a : app_answer) : outcome :=
  match it with
  | FConnect =>
    match a with
    | AppAccept => OAccept
    | AppRefuse code => ORefuse code
    | AppError => OError (if version =? 3 then RK_SERVICE else RK_HS_SERVICE) 0
    end
  | FPacket t => OError RK_VIOLATION t
  | FPublish => OError RK_VIOLATION PUBLISH_START
  end.

(* is the application's handshake service called at all *)
Definition app_called (it : first_item) : bool :=
  match it with FConnect => true | _ => false end.

(* service.rs MqttHandler::call: `let (io, codec, session, keepalive) = handshake?;` -- control,
   publish and protocol services are created and the Dispatcher is started only after Ok *)
Definition dispatcher_runs (o : outcome) : bool :=
  match o with OAccept => true | _ => false end.

(* the CONNACK code written before the outcome takes effect *)
Definition connack_written (o : outcome) : option N :=
  match o with OAccept => Some 0 | ORefuse code => Some code | OError _ _ => None end.

(* result of the server future when the handshake does not succeed *)
Definition end_result (o : outcome) : option (N * N) :=
  match o with
  | OAccept => None
  | ORefuse _ => Some (RK_DISCONNECTED, 0)
  | OError rk t => Some (rk, t)
  end.

(* ------------------------------------------------------------------ client side *)
(* v3 connect_inner: nothing in CONNACK carries limits; cap and sizes come from the configuration,
   the keep-alive pinger uses the client's own value *)
Definition client_apply_v3 (cfg : svc_cfg) (c : CodecV3.connect) (a : CodecV3.connect_ack) : option limits :=
  match CodecV3.ca_return_code a with
  | CodecV3.ConnectionAccepted =>
    Some (mkLimits (CodecV3.c_keep_alive c) (cfg_max_send cfg) (cfg_max_size cfg) 0 0 2 0 (cfg_max_receive cfg))
  | _ => None
  end.

(* v5 connect_inner + Client::start*: `create_dispatcher(.., self.max_receive, 16, ..)` *)
Definition CLIENT_TOPIC_ALIAS_MAX : N := 16.

Definition client_apply_v5 (cfg : svc_cfg) (c : CodecV5.connect) (a : CodecV5.connect_ack) : option limits :=
  if CodecV5.ca_reason_code a =? 0 then
    let out := match CodecV5.ca_max_packet_size a with
               | Some size => CodecV5.set_max_outbound_size CodecV5.ecodec_new size
               | None => CodecV5.ecodec_new
               end in
    Some (mkLimits (dflt (CodecV5.ca_server_keepalive_sec a) (CodecV5.c_keep_alive c))
                   (CodecV5.ca_receive_max a)
                   (dflt (CodecV5.c_max_packet_size c) 0)
                   (CodecV5.ec_max_out_size out) (CodecV5.ec_max_out_frame out)
                   2
                   CLIENT_TOPIC_ALIAS_MAX
                   (dflt (CodecV5.c_receive_max c) 65535))
  else None.
