(* Model/EnginesHs.v -- engine 38 "hs" of the correspondence check (property C19): the handshake stage
   of a server connection -- src/server.rs (combined MqttServer: version sniffing, routing),
   src/v3/server.rs / src/v5/server.rs (HandshakeService::call), src/service.rs (dispatcher only
   after a successful handshake) -- composed from Model/Sniff.v, the CONNECT decoders / CONNACK
   encoders of Model/CodecV3.v and Model/CodecV5.v, and Model/Handshake.v.
   Case and observation syntax: harness/src/engines/hs.rs.  Numbers of a case are in the range of
   the Rust type they are cast to (u16 limits, u32 sizes, u8 bytes).
   After acceptance a small part of the inbound dispatchers is modelled, enough to probe the limits
   in force: PUBLISH (maximum QoS, topic alias maximum, receive maximum with handlers that never
   complete on topic "h", duplicate ids), PINGREQ, frames above the inbound size limit, the
   keep-alive timer.  Anything else is reported as `97` (not modelled). Definitions only. *)
From MV Require Import Base.Prelude Base.Res Base.VarInt Model.Sniff Model.Handshake.
From MV Require Model.CodecV3 Model.CodecV5.

Definition nthN (l : list N) (i : nat) : N := nth i l 0.

Definition cfg_of (f : list N) : svc_cfg :=
  mkCfg (N.min (nthN f 4) 2) (nthN f 7) (nthN f 5) (nthN f 6) (nthN f 3) 32768.

(* ------------------------------------------------------------------ the application (harness closures) *)
Definition code3 (n : N) : CodecV3.connack_reason :=
  match CodecV3.reason_of_n n with Ok r => r | _ => CodecV3.NotAuthorized end.
Definition code5 (n : N) : N := if CodecV5.connect_ack_reason_ok n then n else 128.

(* None = the handshake service returned Err *)
Definition app3 (f : list N) (c : CodecV3.connect) : option ack3 :=
  match nthN f 1 with
  | 0 =>
    let a := hs3_ack c false in
    let a := if 1 <=? nthN f 9 then ack3_idle_timeout a (nthN f 9 - 1) else a in
    let a := match nthN f 8 with
             | 0 => a
             | 1 => ack3_max_send a None
             | n => ack3_max_send a (Some (n - 2))
             end in
    let a := if 3 <=? nthN f 10 then ack3_max_packet_size a (nthN f 10 - 2) else a in
    Some a
  | 1 => Some (hs3_failed (code3 (nthN f 2)))
  | _ => None
  end.

Definition with5 (f : list N) (p : CodecV5.connect_ack) : CodecV5.connect_ack :=
  let sz := match nthN f 10 with
            | 0 => CodecV5.ca_max_packet_size p
            | 1 => None
            | n => Some (n - 2)
            end in
  let rm := if 1 <=? nthN f 11 then nthN f 11 else CodecV5.ca_receive_max p in
  let mq := if 1 <=? nthN f 12 then N.min (nthN f 12 - 1) 2 else CodecV5.ca_max_qos p in
  let am := if 1 <=? nthN f 13 then nthN f 13 - 1 else CodecV5.ca_topic_alias_max p in
  let p1 := set_limits5 p mq am rm sz in
  if 1 <=? nthN f 14 then set_server_keepalive p1 (Some (nthN f 14 - 1)) else p1.

Definition app5 (f : list N) (cfg : svc_cfg) (c : CodecV5.connect) : res (option ack5) :=
  match nthN f 1 with
  | 0 =>
    let a := hs5_ack (shared5_init cfg) c in
    let* a := (if 2 <=? nthN f 9 then ack5_keep_alive a (nthN f 9 - 1) else Ok a) in
    let a := match nthN f 8 with
             | 0 => a
             | 1 => ack5_max_send a None
             | n => ack5_max_send a (Some (n - 2))
             end in
    Ok (Some (ack5_with a (with5 f)))
  | 1 => Ok (Some (hs5_failed (code5 (nthN f 2))))
  | _ => Ok None
  end.

(* ------------------------------------------------------------------ state of one connection *)
Record rstate := mkRun {
  r_lim : limits;
  r_ec : CodecV5.ecodec;                (* v5 encoder cells *)
  r_pending : list N;              (* ids of inbound publishes not acknowledged yet *)
  r_aliases : list (N * bytes);    (* v5 inbound topic aliases *)
  r_blocked : bool;                (* a handler that never completes heads the response queue *)
  r_held : N;                      (* handlers that never complete *)
  r_idle : N }.                    (* ms without inbound traffic *)

Inductive phase :=
| PSniff                                                      (* combined server: version not known *)
| PWait (v : N) (st3 : CodecV3.dstate) (st5 : CodecV5.dstate) (npi : bool)  (* io.recv of the first packet *)
| PHeld3 (c : CodecV3.connect) (st3 : CodecV3.dstate)                  (* handshake service called, not answered *)
| PHeld5 (c : CodecV5.connect) (st5 : CodecV5.dstate) (npi : bool)
| PRun (v : N) (st3 : CodecV3.dstate) (st5 : CodecV5.dstate) (npi : bool) (r : rstate)
| PEnd.

Record hst := mkHst {
  h_phase : phase;
  h_buf : bytes;                   (* read buffer *)
  h_gate : bool;                   (* the harness lets the handshake service answer *)
  h_hs : N;                        (* which handshake service ran *)
  h_connect : list N;
  h_out : bytes;                   (* bytes written to the peer, not yet read by the harness *)
  h_handlers : N;
  h_protos : N;
  h_closed : bool;
  h_rk : N;
  h_ptype : N;
  h_cap : option N;                (* sink.credit(): None = no sink exists *)
  h_bad : N }.                     (* 0 fine, 1 panic, 2 not modelled *)

Definition set_phase (s : hst) (p : phase) : hst :=
  mkHst p (h_buf s) (h_gate s) (h_hs s) (h_connect s) (h_out s) (h_handlers s) (h_protos s) (h_closed s)
        (h_rk s) (h_ptype s) (h_cap s) (h_bad s).
Definition set_buf (s : hst) (b : bytes) : hst :=
  mkHst (h_phase s) b (h_gate s) (h_hs s) (h_connect s) (h_out s) (h_handlers s) (h_protos s) (h_closed s)
        (h_rk s) (h_ptype s) (h_cap s) (h_bad s).
Definition set_gate (s : hst) : hst :=
  mkHst (h_phase s) (h_buf s) true (h_hs s) (h_connect s) (h_out s) (h_handlers s) (h_protos s) (h_closed s)
        (h_rk s) (h_ptype s) (h_cap s) (h_bad s).
Definition set_called (s : hst) (v : N) (connect : list N) : hst :=
  mkHst (h_phase s) (h_buf s) (h_gate s) v connect (h_out s) (h_handlers s) (h_protos s) (h_closed s)
        (h_rk s) (h_ptype s) (Some 0) (h_bad s).
Definition set_out (s : hst) (o : bytes) : hst :=
  mkHst (h_phase s) (h_buf s) (h_gate s) (h_hs s) (h_connect s) o (h_handlers s) (h_protos s) (h_closed s)
        (h_rk s) (h_ptype s) (h_cap s) (h_bad s).
Definition emit (s : hst) (w : bytes) : hst := set_out s (h_out s ++ w).
Definition add_handler (s : hst) : hst :=
  mkHst (h_phase s) (h_buf s) (h_gate s) (h_hs s) (h_connect s) (h_out s) (h_handlers s + 1) (h_protos s)
        (h_closed s) (h_rk s) (h_ptype s) (h_cap s) (h_bad s).
Definition add_proto (s : hst) : hst :=
  mkHst (h_phase s) (h_buf s) (h_gate s) (h_hs s) (h_connect s) (h_out s) (h_handlers s) (h_protos s + 1)
        (h_closed s) (h_rk s) (h_ptype s) (h_cap s) (h_bad s).
Definition set_cap (s : hst) (c : N) : hst :=
  mkHst (h_phase s) (h_buf s) (h_gate s) (h_hs s) (h_connect s) (h_out s) (h_handlers s) (h_protos s)
        (h_closed s) (h_rk s) (h_ptype s) (Some c) (h_bad s).
Definition set_bad (s : hst) (b : N) : hst :=
  mkHst (h_phase s) (h_buf s) (h_gate s) (h_hs s) (h_connect s) (h_out s) (h_handlers s) (h_protos s)
        (h_closed s) (h_rk s) (h_ptype s) (h_cap s) b.
(* the server future completes: the io is dropped / shut down *)
Definition finish (s : hst) (rk ptype : N) : hst :=
  mkHst PEnd (h_buf s) (h_gate s) (h_hs s) (h_connect s) (h_out s) (h_handlers s) (h_protos s) true
        rk ptype (h_cap s) (h_bad s).

Definition init (kind : N) : hst :=
  mkHst (if kind =? 3 then PWait 3 CodecV3.FrameHeader CodecV5.FrameHeader false
         else if kind =? 5 then PWait 5 CodecV3.FrameHeader CodecV5.FrameHeader false
         else PSniff)
        [] false 0 [] [] 0 0 false 0 0 None 0.

(* ------------------------------------------------------------------ dumps *)
Definition d_bytes (b : bytes) : list N := len b :: b.
Definition d_optb (o : option bytes) : list N := match o with Some b => 1 :: d_bytes b | None => [0] end.
Definition d_optn (o : option N) : list N := match o with Some n => [1; n] | None => [0] end.
Definition is_some {A} (o : option A) : bool := match o with Some _ => true | None => false end.

Definition dump3 (c : CodecV3.connect) (size : N) : list N :=
  [3; CodecV3.c_keep_alive c; b2n (CodecV3.c_clean_session c)] ++ d_bytes (CodecV3.c_client_id c)
  ++ d_optb (CodecV3.c_username c) ++ d_optb (CodecV3.c_password c) ++ [b2n (is_some (CodecV3.c_last_will c)); size].

Definition dump5 (c : CodecV5.connect) (size : N) : list N :=
  [5; CodecV5.c_keep_alive c; b2n (CodecV5.c_clean_start c)] ++ d_bytes (CodecV5.c_client_id c)
  ++ d_optb (CodecV5.c_username c) ++ d_optb (CodecV5.c_password c) ++ [b2n (is_some (CodecV5.c_last_will c)); size]
  ++ [CodecV5.c_session_expiry_interval_secs c] ++ d_optn (CodecV5.c_receive_max c) ++ [CodecV5.c_topic_alias_max c]
  ++ d_optn (CodecV5.c_max_packet_size c).

(* v5 Packet::packet_type() *)
Definition ptype5 (p : CodecV5.packet) : N :=
  match p with
  | CodecV5.Connect _ => CodecV5.PT_CONNECT
  | CodecV5.ConnectAck _ => CodecV5.PT_CONNACK
  | CodecV5.PublishAck _ => CodecV5.PT_PUBACK
  | CodecV5.PublishReceived _ => CodecV5.PT_PUBREC
  | CodecV5.PublishRelease _ => CodecV5.PT_PUBREL
  | CodecV5.PublishComplete _ => CodecV5.PT_PUBCOMP
  | CodecV5.Subscribe _ => CodecV5.PT_SUBSCRIBE
  | CodecV5.SubscribeAck _ => CodecV5.PT_SUBACK
  | CodecV5.Unsubscribe _ => CodecV5.PT_UNSUBSCRIBE
  | CodecV5.UnsubscribeAck _ => CodecV5.PT_UNSUBACK
  | CodecV5.PingRequest => CodecV5.PT_PINGREQ
  | CodecV5.PingResponse => CodecV5.PT_PINGRESP
  | CodecV5.Disconnect _ => CodecV5.PT_DISCONNECT
  | CodecV5.Auth _ => CodecV5.PT_AUTH
  end.

(* ------------------------------------------------------------------ running dispatcher (probes) *)
Definition has_wild (t : bytes) : bool := existsb (fun b => (b =? 35) || (b =? 43)) t.
Definition is_hold (t : bytes) : bool := bytes_eqb t [104].
Definition memN (x : N) (l : list N) : bool := existsb (N.eqb x) l.
Definition removeN (x : N) (l : list N) : list N := filter (fun y => negb (y =? x)) l.
Fixpoint alias_get (a : N) (l : list (N * bytes)) : option bytes :=
  match l with
  | [] => None
  | (k, t) :: r => if k =? a then Some t else alias_get a r
  end.
Definition alias_set (a : N) (t : bytes) (l : list (N * bytes)) : list (N * bytes) :=
  (a, t) :: filter (fun e => negb (fst e =? a)) l.

Definition upd_run (r : rstate) (pending : list N) (aliases : list (N * bytes)) (blocked : bool) : rstate :=
  mkRun (r_lim r) (r_ec r) pending aliases blocked (r_held r) (r_idle r).
Definition hold_run (r : rstate) (pending : list N) (aliases : list (N * bytes)) : rstate :=
  mkRun (r_lim r) (r_ec r) pending aliases true (r_held r + 1) (r_idle r).
Definition set_idle (r : rstate) (i : N) : rstate :=
  mkRun (r_lim r) (r_ec r) (r_pending r) (r_aliases r) (r_blocked r) (r_held r) i.

(* the dispatcher stops after a protocol error: v3 closes, v5 writes DISCONNECT(rc) first *)
Definition stop3 (s : hst) : hst := finish s RK_OK 0.
Definition stop5 (s : hst) (ec : CodecV5.ecodec) (rc : N) : hst :=
  match CodecV5.encodev ec (CodecV5.EPacket (CodecV5.Disconnect (CodecV5.mkDisconnect rc None None None []))) with
  | ((w, Ok _), _) => finish (emit s w) RK_OK 0
  | ((_, Err _), _) => set_bad s 2
  | ((_, Panic _), _) => set_bad s 1
  end.

(* a response leaves through the response queue: nothing is written behind a blocked head *)
Definition respond3 (s : hst) (max_in : N) (blocked : bool) (p : CodecV3.packet) : hst :=
  if blocked then s
  else match CodecV3.encodev_appended max_in None (CodecV3.EPacket p) with
       | (w, _, Ok _) => emit s w
       | (_, _, Err _) => set_bad s 2
       | (_, _, Panic _) => set_bad s 1
       end.
Definition write5 (s : hst) (ec : CodecV5.ecodec) (p : CodecV5.packet) : hst :=
  match CodecV5.encodev ec (CodecV5.EPacket p) with
  | ((w, Ok _), _) => emit s w
  | ((_, Err _), _) => set_bad s 2
  | ((_, Panic _), _) => set_bad s 1
  end.
Definition respond5 (s : hst) (ec : CodecV5.ecodec) (blocked : bool) (p : CodecV5.packet) : hst :=
  if blocked then s else write5 s ec p.

(* DisconnectReasonCode of the violations used *)
Definition RC_MALFORMED : N := 129.
Definition RC_PROTOCOL_ERROR : N := 130.
Definition RC_IMPL_SPECIFIC : N := 131.
Definition RC_KEEPALIVE_TIMEOUT : N := 141.
Definition RC_RECEIVE_MAX_EXCEEDED : N := 147.
Definition RC_TOPIC_ALIAS_INVALID : N := 148.
Definition RC_PACKET_TOO_LARGE : N := 149.
Definition RC_RETAIN_NOT_SUPPORTED : N := 154.
Definition RC_QOS_NOT_SUPPORTED : N := 155.
Definition PA_PACKET_ID_IN_USE : N := 145.

(* Disconnect::from_proto_error for ProtocolError::Decode(e) *)
Definition rc_of_decode (e : N) : N :=
  if e =? DE_InvalidLength then RC_MALFORMED
  else if e =? DE_MaxSizeExceeded then RC_PACKET_TOO_LARGE
  else RC_IMPL_SPECIFIC.

(* v3/dispatcher.rs Decoded::Publish arm followed by publish_fn, handler ready at once *)
Definition dispatch3 (s : hst) (st3 : CodecV3.dstate) (st5 : CodecV5.dstate) (npi : bool) (r : rstate) (it : CodecV3.item) : hst :=
  let keep r' := set_phase s (PRun 3 st3 st5 npi r') in
  match it with
  | CodecV3.IPublish p payload _ =>
    if len payload <? CodecV3.p_payload_size p then set_bad s 2
    else if has_wild (CodecV3.p_topic p) then stop3 s
    else if match CodecV3.p_packet_id p with Some id => memN id (r_pending r) | None => false end then stop3 s
    else if l_max_qos (r_lim r) <? CodecV3.qos_to_n (CodecV3.p_qos p) then stop3 s
    else if is_hold (CodecV3.p_topic p) then
      set_phase (add_handler s)
        (PRun 3 st3 st5 npi (hold_run r (match CodecV3.p_packet_id p with Some id => id :: r_pending r
                                                                         | None => r_pending r end)
                                       (r_aliases r)))
    else
      let s1 := add_handler s in
      match CodecV3.p_packet_id p with
      | None => set_phase s1 (PRun 3 st3 st5 npi r)
      | Some id =>
        match CodecV3.p_qos p with
        | CodecV3.ExactlyOnce =>
          respond3 (set_phase s1 (PRun 3 st3 st5 npi (upd_run r (id :: r_pending r) (r_aliases r) (r_blocked r))))
                   (l_max_in (r_lim r)) (r_blocked r) (CodecV3.PPublishReceived id)
        | _ => respond3 (set_phase s1 (PRun 3 st3 st5 npi r)) (l_max_in (r_lim r)) (r_blocked r)
                        (CodecV3.PPublishAck id)
        end
      end
  | CodecV3.IPacket CodecV3.PPingRequest _ =>
    respond3 (add_proto (keep r)) (l_max_in (r_lim r)) (r_blocked r) CodecV3.PPingResponse
  | _ => set_bad s 2
  end.

Definition ack5_of (id rc : N) : CodecV5.publish_ack := CodecV5.mkPublishAck id rc [] None.

(* v5/dispatcher.rs Decoded::Publish arm followed by publish_fn *)
Definition dispatch5 (s : hst) (st3 : CodecV3.dstate) (st5 : CodecV5.dstate) (npi : bool) (r : rstate) (it : CodecV5.decoded) : hst :=
  let lim := r_lim r in
  let ec := r_ec r in
  match it with
  | CodecV5.DPublish p payload _ =>
    if len payload <? CodecV5.p_payload_size p then set_bad s 2
    else if has_wild (CodecV5.p_topic p) then stop5 s ec RC_PROTOCOL_ERROR
    else
      (* the checks guarded by `if let Some(pid) = packet_id` : Some verdict = return early *)
      let early : option hst :=
        match CodecV5.p_packet_id p with
        | Some id =>
          if negb (l_receive_max lim =? 0) && (l_receive_max lim <=? N.of_nat (length (r_pending r)))
          then Some (stop5 s ec RC_RECEIVE_MAX_EXCEEDED)
          else if l_max_qos lim <? CodecV5.p_qos p then Some (stop5 s ec RC_QOS_NOT_SUPPORTED)
          else if memN id (r_pending r) then
            (* sink.encode_packet: written at once, not through the response queue *)
            Some (write5 s ec (if CodecV5.p_qos p =? 2 then CodecV5.PublishReceived (ack5_of id PA_PACKET_ID_IN_USE)
                               else CodecV5.PublishAck (ack5_of id PA_PACKET_ID_IN_USE)))
          else None
        | None => None
        end in
      match early with
      | Some s' => s'
      | None =>
        let pending := match CodecV5.p_packet_id p with Some id => id :: r_pending r | None => r_pending r end in
        (* topic aliases: Some (topic, aliases) = go on, None = violation with the code *)
        let al : (option (bytes * list (N * bytes))) * N :=
          match CodecV5.pp_topic_alias (CodecV5.p_properties p) with
          | Some a =>
            match CodecV5.p_topic p with
            | [] => match alias_get a (r_aliases r) with
                    | Some t => (Some (t, r_aliases r), 0)
                    | None => (None, RC_TOPIC_ALIAS_INVALID)
                    end
            | t => match alias_get a (r_aliases r) with
                   | Some _ => (Some (t, alias_set a t (r_aliases r)), 0)
                   | None => if l_topic_alias_max lim <? a then (None, RC_PROTOCOL_ERROR)
                             else (Some (t, alias_set a t (r_aliases r)), 0)
                   end
            end
          | None => (Some (CodecV5.p_topic p, r_aliases r), 0)
          end in
        match al with
        | (None, rc) => stop5 s ec rc
        | (Some (topic, aliases), _) =>
          let s1 := add_handler s in
          if is_hold topic then set_phase s1 (PRun 5 st3 st5 npi (hold_run r pending aliases))
          else
            match CodecV5.p_packet_id p with
            | None => set_phase s1 (PRun 5 st3 st5 npi (upd_run r pending aliases (r_blocked r)))
            | Some id =>
              if CodecV5.p_qos p =? 2 then
                respond5 (set_phase s1 (PRun 5 st3 st5 npi (upd_run r pending aliases (r_blocked r))))
                         ec (r_blocked r) (CodecV5.PublishReceived (ack5_of id 0))
              else
                respond5 (set_phase s1 (PRun 5 st3 st5 npi (upd_run r (removeN id pending) aliases (r_blocked r))))
                         ec (r_blocked r) (CodecV5.PublishAck (ack5_of id 0))
            end
        end
      end
  | CodecV5.DPacket CodecV5.PingRequest _ =>
    respond5 (add_proto (set_phase s (PRun 5 st3 st5 npi r))) ec (r_blocked r) CodecV5.PingResponse
  | _ => set_bad s 2
  end.

(* the io dispatcher: decode and dispatch until the read buffer holds no complete frame *)
Fixpoint pump (cfg : svc_cfg) (fuel : nat) (s : hst) : hst :=
  match fuel with
  | O => s
  | S k =>
    if negb (h_bad s =? 0) then s
    else
      match h_phase s with
      | PRun v st3 st5 npi r =>
        if v =? 3 then
          (* v3 InFlightService (max_cap = cfg.max_receive): not ready while that many calls are
             running; the io dispatcher reads no frame until it is *)
          if negb (l_receive_max (r_lim r) =? 0) && (l_receive_max (r_lim r) <=? r_held r) then s
          else
          match CodecV3.decode_step (l_max_in (r_lim r)) (cfg_min_chunk_size cfg) st3 (h_buf s) with
          | (Ok None, st', buf') => set_buf (set_phase s (PRun v st' st5 npi r)) buf'
          | (Ok (Some it), st', buf') => pump cfg k (dispatch3 (set_buf s buf') st' st5 npi r it)
          | (Err _, _, _) => stop3 s
          | (Panic _, _, _) => set_bad s 1
          end
        else
          match CodecV5.decode_step (l_max_in (r_lim r)) (cfg_min_chunk_size cfg) npi st5 (h_buf s) with
          | (Ok None, st', npi', buf') => set_buf (set_phase s (PRun v st3 st' npi' r)) buf'
          | (Ok (Some it), st', npi', buf') => pump cfg k (dispatch5 (set_buf s buf') st3 st' npi' r it)
          | (Err e, _, _, _) => stop5 s (r_ec r) (rc_of_decode e)
          | (Panic _, _, _, _) => set_bad s 1
          end
      | _ => s
      end
  end.

Definition pump_all (cfg : svc_cfg) (s : hst) : hst := pump cfg (S (length (h_buf s))) s.

(* ------------------------------------------------------------------ the handshake *)
Definition answer_of3 (a : option ack3) : app_answer :=
  match a with
  | None => AppError
  | Some a => if a3_session a then AppAccept else AppRefuse (CodecV3.reason_to_n (a3_return_code a))
  end.
Definition answer_of5 (a : option ack5) : app_answer :=
  match a with
  | None => AppError
  | Some a => if a5_session a then AppAccept else AppRefuse (CodecV5.ca_reason_code (a5_packet a))
  end.

Definition ec_with_npi (ec : CodecV5.ecodec) (npi : bool) : CodecV5.ecodec :=
  CodecV5.mkECodec (CodecV5.ec_max_out_size ec) (CodecV5.ec_max_out_frame ec) npi (CodecV5.ec_encoding_payload ec).

(* v3 HandshakeService::call after the handshake service returned *)
Definition answer3 (f : list N) (cfg : svc_cfg) (s : hst) (c : CodecV3.connect) (st3 : CodecV3.dstate) : hst :=
  let a := app3 f c in
  match first_packet 3 FConnect (answer_of3 a), a with
  | OAccept, Some a =>
    let lim := negotiate_v3 cfg c a in
    match CodecV3.encodev_appended (l_max_in lim) None (CodecV3.EPacket (CodecV3.PConnectAck (connack_v3 a))) with
    | (w, _, Ok _) =>
      pump_all cfg (set_phase (set_cap (emit s w) (l_cap lim))
                              (PRun 3 st3 CodecV5.FrameHeader false (mkRun lim CodecV5.ecodec_new [] [] false 0 0)))
    | (_, _, Err e) => finish (set_cap s (l_cap lim)) (200 + e) 0
    | (_, _, Panic _) => set_bad s 1
    end
  | ORefuse _, Some a =>
    match CodecV3.encodev_appended (cfg_max_size cfg) None (CodecV3.EPacket (CodecV3.PConnectAck (connack_v3 a))) with
    | (w, _, Ok _) => finish (emit s w) RK_DISCONNECTED 0
    | (_, _, Err e) => finish s (200 + e) 0
    | (_, _, Panic _) => set_bad s 1
    end
  | OError rk t, _ => finish s rk t
  | _, _ => set_bad s 1
  end.

Definition answer5 (f : list N) (cfg : svc_cfg) (s : hst) (c : CodecV5.connect) (st5 : CodecV5.dstate) (npi : bool) : hst :=
  match app5 f cfg c with
  | Panic _ => set_bad s 1
  | Err _ => set_bad s 1
  | Ok a =>
    let ec := ec_with_npi (outbound5 c) npi in
    match first_packet 5 FConnect (answer_of5 a), a with
    | OAccept, Some a =>
      let '(lim, pkt) := negotiate_v5 cfg c a in
      match CodecV5.encodev ec (CodecV5.EPacket (CodecV5.ConnectAck pkt)) with
      | ((w, Ok _), ec') =>
        pump_all cfg (set_phase (set_cap (emit s w) (l_cap lim))
                                (PRun 5 CodecV3.FrameHeader st5 npi (mkRun lim ec' [] [] false 0 0)))
      | ((_, Err e), _) => finish (set_cap s (l_cap lim)) (200 + e) 0
      | ((_, Panic _), _) => set_bad s 1
      end
    | ORefuse _, Some a =>
      match CodecV5.encodev ec (CodecV5.EPacket (CodecV5.ConnectAck (connack_refused_v5 a))) with
      | ((w, Ok _), _) => finish (emit s w) RK_DISCONNECTED 0
      | ((_, Err e), _) => finish s (200 + e) 0
      | ((_, Panic _), _) => set_bad s 1
      end
    | OError rk t, _ => finish s rk t
    | _, _ => set_bad s 1
    end
  end.

Definition after_held (f : list N) (cfg : svc_cfg) (s : hst) : hst :=
  if h_gate s then
    match h_phase s with
    | PHeld3 c st3 => answer3 f cfg s c st3
    | PHeld5 c st5 npi => answer5 f cfg s c st5 npi
    | _ => s
    end
  else s.

(* HandshakeService::call up to the call of the application's handshake service *)
Definition after_wait (f : list N) (cfg : svc_cfg) (s : hst) : hst :=
  match h_phase s with
  | PWait v st3 st5 npi =>
    if v =? 3 then
      match CodecV3.decode_step (cfg_max_size cfg) (cfg_min_chunk_size cfg) st3 (h_buf s) with
      | (Ok None, st', buf') => set_buf (set_phase s (PWait v st' st5 npi)) buf'
      | (Ok (Some it), st', buf') =>
        let s1 := set_buf s buf' in
        match it with
        | CodecV3.IPacket (CodecV3.PConnect c) size =>
          after_held f cfg (set_phase (set_called s1 3 (dump3 c size)) (PHeld3 c st'))
        | CodecV3.IPacket p _ =>
          match first_packet 3 (FPacket (CodecV3.packet_type_of p)) AppError with
          | OError rk t => finish s1 rk t
          | _ => set_bad s1 1
          end
        | CodecV3.IPublish _ _ _ =>
          match first_packet 3 FPublish AppError with
          | OError rk t => finish s1 rk t
          | _ => set_bad s1 1
          end
        | CodecV3.IChunk _ _ => set_bad s1 1          (* unreachable!() *)
        end
      | (Err e, _, _) => finish s (100 + e) 0
      | (Panic _, _, _) => set_bad s 1
      end
    else
      match CodecV5.decode_step (cfg_max_size cfg) (cfg_min_chunk_size cfg) npi st5 (h_buf s) with
      | (Ok None, st', npi', buf') => set_buf (set_phase s (PWait v st3 st' npi')) buf'
      | (Ok (Some it), st', npi', buf') =>
        let s1 := set_buf s buf' in
        match it with
        | CodecV5.DPacket (CodecV5.Connect c) size =>
          after_held f cfg (set_phase (set_called s1 5 (dump5 c size)) (PHeld5 c st' npi'))
        | CodecV5.DPacket p _ =>
          match first_packet 5 (FPacket (ptype5 p)) AppError with
          | OError rk t => finish s1 rk t
          | _ => set_bad s1 1
          end
        | CodecV5.DPublish _ _ _ =>
          match first_packet 5 FPublish AppError with
          | OError rk t => finish s1 rk t
          | _ => set_bad s1 1
          end
        | CodecV5.DPayloadChunk _ _ => set_bad s1 1
        end
      | (Err e, _, _, _) => finish s (100 + e) 0
      | (Panic _, _, _, _) => set_bad s 1
      end
  | _ => s
  end.

(* src/server.rs MqttServerImpl::call: VersionCodec looks at the buffer without consuming it *)
Definition after_sniff (f : list N) (cfg : svc_cfg) (s : hst) : hst :=
  match h_phase s with
  | PSniff =>
    match sniff (h_buf s) with
    | Ok None => s
    | Ok (Some ver) =>
      after_wait f cfg (set_phase s (PWait (if ver =? 4 then 3 else 5) CodecV3.FrameHeader CodecV5.FrameHeader false))
    | Err e => finish s (100 + e) 0
    | Panic _ => set_bad s 1
    end
  | _ => s
  end.

(* the peer writes [b] *)
Definition feed (f : list N) (cfg : svc_cfg) (s : hst) (b : bytes) : hst :=
  match b with
  | [] => s
  | _ =>
    if h_closed s || negb (h_bad s =? 0) then s
    else
      let s1 := set_buf s (h_buf s ++ b) in
      match h_phase s1 with
      | PSniff => after_sniff f cfg s1
      | PWait _ _ _ _ => after_wait f cfg s1
      | PRun v st3 st5 npi r => pump_all cfg (set_phase s1 (PRun v st3 st5 npi (set_idle r 0)))
      | _ => s1
      end
  end.

Definition open_gate (f : list N) (cfg : svc_cfg) (s : hst) : hst := after_held f cfg (set_gate s).

(* [first] written in pieces that end at the cut positions *)
Fixpoint feed_cuts (f : list N) (cfg : svc_cfg) (s : hst) (pos : N) (cuts : list N) (rest : bytes) : hst :=
  match cuts with
  | [] => feed f cfg s rest
  | c :: cs =>
    let c' := N.min c (pos + len rest) in
    if pos <? c' then
      feed_cuts f cfg (feed f cfg s (firstn (N.to_nat (c' - pos)) rest)) c' cs (skipn (N.to_nat (c' - pos)) rest)
    else feed_cuts f cfg s pos cs rest
  end.

(* op 6: [ms] milliseconds without traffic.  The keep-alive timer has a resolution of one second:
   the verdict is only modelled outside the second in which it fires. *)
Definition sleep_op (s : hst) (ms : N) : hst :=
  match h_phase s with
  | PRun v st3 st5 npi r =>
    let idle := r_idle r + ms in
    let ka := l_keepalive (r_lim r) in
    let s1 := set_phase s (PRun v st3 st5 npi (set_idle r idle)) in
    if ka =? 0 then s1
    else if idle <? ka * 1000 then s1
    else if (ka + 1) * 1000 + 200 <=? idle then
      (if v =? 3 then stop3 s1 else stop5 s1 (r_ec r) RC_KEEPALIVE_TIMEOUT)
    else set_bad s1 2
  | PEnd => s
  | PHeld3 _ _ | PHeld5 _ _ _ => s
  | _ => set_bad s 2                 (* version / connect timeouts: property C20 *)
  end.

Definition st_obs (s : hst) : list N :=
  [h_handlers s; h_protos s; b2n (h_closed s); h_rk s; h_ptype s].

Definition do_op (f : list N) (cfg : svc_cfg) (s : hst) (op : list N) : hst * list N :=
  match op with
  | [] => (s, [97])
  | k :: b =>
    if k =? 1 then (s, [match h_cap s with Some c => c | None => 70000 end])
    else if k =? 2 then let s1 := feed f cfg (set_out s []) b in (s1, h_out s1 ++ 999 :: st_obs s1)
    else if k =? 6 then
      match b with
      | ms :: _ => let s1 := sleep_op (set_out s []) ms in (s1, h_out s1 ++ 999 :: st_obs s1)
      | [] => (s, [97])
      end
    else (s, [97])
  end.

Fixpoint run_ops (f : list N) (cfg : svc_cfg) (s : hst) (ops : list (list N)) : hst * list (list N) :=
  match ops with
  | [] => (s, [])
  | op :: rest =>
    let '(s1, o) := do_op f cfg s op in
    let '(s2, os) := run_ops f cfg s1 rest in
    (s2, o :: os)
  end.

Definition run_hs (c : list (list N)) : list (list N) :=
  match c with
  | f :: cuts :: first :: ops =>
    let cfg := cfg_of f in
    let s1 := feed_cuts f cfg (init (nthN f 0)) 0 cuts first in
    let s2 := open_gate f cfg (set_out s1 []) in
    let '(s3, os) := run_ops f cfg s2 ops in
    if h_bad s3 =? 1 then [[9999]]
    else if h_bad s3 =? 2 then [[97]]
    else (h_hs s1 :: st_obs s1) :: h_connect s1 :: (h_out s1 ++ 999 :: h_out s2) :: st_obs s2 :: os
  | _ => [[98]]
  end.

(* ------------------------------------------------------------------ vocabulary of the statements *)
Definition feed_list (f : list N) (cfg : svc_cfg) (s : hst) (pieces : list bytes) : hst :=
  fold_left (feed f cfg) pieces s.

(* the pieces feed_cuts writes (empty ones included: writing nothing is no event) *)
Fixpoint cut_pieces (pos : N) (cuts : list N) (rest : bytes) : list bytes :=
  match cuts with
  | [] => [rest]
  | c :: cs =>
    let c' := N.min c (pos + len rest) in
    if pos <? c' then firstn (N.to_nat (c' - pos)) rest :: cut_pieces c' cs (skipn (N.to_nat (c' - pos)) rest)
    else cut_pieces pos cs rest
  end.

(* the combined server while the version is unknown: nothing but the read buffer has changed *)
Definition sniffing (buf : bytes) : hst := mkHst PSniff buf false 0 [] [] 0 0 false 0 0 None 0.
(* a plain server of one version that has not decoded anything yet *)
Definition plain (k : N) (buf : bytes) : hst :=
  mkHst (PWait k CodecV3.FrameHeader CodecV5.FrameHeader false) buf false 0 [] [] 0 0 false 0 0 None 0.

Definition kind_of (ver : N) : N := if ver =? 4 then 3 else 5.

