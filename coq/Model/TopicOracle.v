(* Model/TopicOracle.v -- executable oracle for C18, defined from the Spec only.
   Given the implementation's observation on a (filter, second string) case it says
   whether that observation is what section 4.7 demands. Clause numbers:
   1 validator (is_valid) differs from spec;  2 parse accepts/rejects against spec;
   3 display does not give the string back;   4 matches_topic differs from the spec answer;
   5 a reported cover is unsound (some topic matched by the covered filter is not
     matched by the covering one) -- searched over [probe_topics]. *)
From MV Require Import Base.Prelude Spec.SpecTopic.

Fixpoint strs (al : list N) (n : nat) : list bytes :=
  match n with
  | O => [[]]
  | S k => [] :: flat_map (fun s => map (fun c => c :: s) al) (strs al k)
  end.

(* topics used to probe a reported cover: all strings of length <= 5 over {a, b, $, /}
   (duplicates harmless) *)
Definition probe_topics : list bytes := strs [97; 98; 36; 47] 5.

Definition cover_counterexample (f g : bytes) : option bytes :=
  find (fun t => spec_topic_name t && spec_matchb g t && negb (spec_matchb f t)) probe_topics.

Definition oracle_topic (c o : list (list N)) : list (list N) :=
  match c with
  | [f; t] =>
    let sv := spec_valid_filter f in
    match o with
    | [v; ptag] :: rest =>
      if negb (v =? b2n sv) then [[0; 1]]
      else if negb (Bool.eqb (ptag =? 0) sv) then [[0; 2]]
      else match rest with
           | [_lv; disp; [mt]; [mf]] =>
             if negb (bytes_eqb disp f) then [[0; 3]]
             else if spec_topic_name t && negb (mt =? b2n (spec_matchb f t)) then [[0; 4]]
             else if (mf =? 1) && spec_valid_filter t then
                    match cover_counterexample f t with
                    | Some w => [0; 5] :: [w]
                    | None => [[1]]
                    end
             else [[1]]
           | [] => if sv then [[0; 2]] else [[1]]
           | _ => [[0; 9]]
           end
    | _ => [[0; 9]]
    end
  | _ => [[98]]
  end.
