(* Model/Topic.v -- executable model of /repo/src/topic.rs (definitions only).
   Strings are byte lists; '/'=47 '+'=43 '#'=35 '$'=36.  Working on bytes is exact
   for valid UTF-8 (every byte of a multi-byte scalar is >= 0x80, so splitting on
   '/', searching for '+'/'#' and testing the first byte for '$' see the same thing
   on bytes as on chars). *)
From MV Require Import Base.Prelude.

Definition SLASH : N := 47.
Definition PLUS : N := 43.
Definition HASH : N := 35.
Definition DOLLAR : N := 36.

(* ---- fn is_valid(topic: &str) -> bool ---- *)
Inductive prev := PNone | PLevelSep | PSingle | PMulti | POther.

Fixpoint is_valid_go (p : prev) (s : bytes) : bool :=
  match s with
  | [] => true
  | c :: r =>
    match p with
    | PMulti => false                                   (* (_, MultiWildcard) => return false *)
    | _ =>
      if c =? PLUS then
        match p with PNone | PLevelSep => is_valid_go PSingle r | _ => false end
      else if c =? HASH then
        match p with PNone | PLevelSep => is_valid_go PMulti r | _ => false end
      else if c =? SLASH then is_valid_go PLevelSep r
      else match p with PSingle => false | _ => is_valid_go POther r end
    end
  end.

Definition is_valid (s : bytes) : bool :=
  match s with [] => false | _ => is_valid_go PNone s end.

(* ---- TopicFilterLevel / TopicFilter ---- *)
Inductive level :=
| Normal (s : bytes)
| System (s : bytes)
| Blank
| Single
| Multi.

Definition level_eqb (a b : level) : bool :=
  match a, b with
  | Normal x, Normal y => bytes_eqb x y
  | System x, System y => bytes_eqb x y
  | Blank, Blank => true
  | Single, Single => true
  | Multi, Multi => true
  | _, _ => false
  end.

Definition filter := list level.

(* str::split('/') : always at least one piece *)
Fixpoint split_go (cur : bytes) (s : bytes) : list bytes :=
  match s with
  | [] => [rev cur]
  | c :: r => if c =? SLASH then rev cur :: split_go [] r else split_go (c :: cur) r
  end.
Definition split (s : bytes) : list bytes := split_go [] s.

Definition has_wild (s : bytes) : bool := existsb (fun c => (c =? PLUS) || (c =? HASH)) s.

Definition is_system (s : bytes) : bool :=
  match s with c :: _ => c =? DOLLAR | [] => false end.

(* TopicFilterLevel::is_valid *)
Definition level_valid (l : level) : bool :=
  match l with Normal s | System s => negb (has_wild s) | _ => true end.

(* TopicFilter::is_valid : no invalid level; MultiWildcard only last; System only first *)
Fixpoint positions_ok (pos : nat) (n : nat) (f : filter) : bool :=
  match f with
  | [] => true
  | l :: r =>
    (match l with
     | Multi => Nat.eqb pos (n - 1)
     | System _ => Nat.eqb pos 0
     | _ => true
     end) && positions_ok (S pos) n r
  end.

Definition filter_valid (f : filter) : bool :=
  forallb level_valid f && positions_ok 0 (length f) f.

Inductive perr := InvalidTopic | InvalidLevel.

(* the closure in TryFrom<ByteString>: one level *)
Definition parse_level (idx : nat) (l : bytes) : option level :=
  if bytes_eqb l [PLUS] then Some Single
  else if bytes_eqb l [HASH] then Some Multi
  else match l with
       | [] => Some Blank
       | _ => if has_wild l then None
              else if Nat.eqb idx 0 && is_system l then Some (System l)
              else Some (Normal l)
       end.

Fixpoint parse_levels (idx : nat) (ls : list bytes) : option filter :=
  match ls with
  | [] => Some []
  | l :: r =>
    match parse_level idx l with
    | None => None                         (* collect::<Result<..>> stops at the first Err *)
    | Some x => match parse_levels (S idx) r with None => None | Some xs => Some (x :: xs) end
    end
  end.

Definition parse (s : bytes) : sum filter perr :=
  match s with
  | [] => inr InvalidTopic
  | _ => match parse_levels 0 (split s) with
         | None => inr InvalidLevel
         | Some f => if filter_valid f then inl f else inr InvalidTopic
         end
  end.

(* Display *)
Definition show_level (l : level) : bytes :=
  match l with
  | Normal s | System s => s
  | Blank => []
  | Single => [PLUS]
  | Multi => [HASH]
  end.

Fixpoint display (f : filter) : bytes :=
  match f with
  | [] => []                        (* the Rust unwrap()s: unreachable for a TopicFilter built by parse *)
  | [l] => show_level l
  | l :: r => show_level l ++ SLASH :: display r
  end.

(* ---- matching ---- *)
(* impl<T: AsRef<str>> MatchLevel for T *)
Definition match_level_str (s : bytes) (l : level) (index : nat) : bool :=
  match l with
  | Normal lhs => bytes_eqb lhs s
  | System lhs => is_system s && bytes_eqb lhs s
  | Blank => match s with [] => true | _ => false end
  | Single | Multi => negb (Nat.eqb index 0 && is_system s)
  end.

(* match_level_impl(subset_level, superset_level, index) *)
Definition match_level_lvl (sub : level) (sup : level) (index : nat) : bool :=
  let system := Nat.eqb index 0 && match sub with System _ => true | _ => false end in
  match sup with
  | Normal rhs => match sub with Normal lhs => bytes_eqb lhs rhs | _ => false end
  | System rhs => match sub with System lhs => bytes_eqb lhs rhs | _ => false end
  | Blank => level_eqb sub Blank
  | Single => negb system && negb (level_eqb sub Multi)
  | Multi => negb system
  end.

(* match_topic, generic in the subset item type *)
Section MatchTopic.
  Context {T : Type} (ml : T -> level -> nat -> bool).
  Fixpoint match_topic_go (index : nat) (sup : filter) (sub : list T) : bool :=
    match sub with
    | [] => match sup with [] => true | Multi :: _ => true | _ => false end
    | x :: sub' =>
      match sup with
      | Single :: sup' => if ml x Single index then match_topic_go (S index) sup' sub' else false
      | Multi :: _ => ml x Multi index
      | l :: sup' => if ml x l index then match_topic_go (S index) sup' sub' else false
      | [] => false
      end
    end.
End MatchTopic.

Definition matches_topic (f : filter) (t : bytes) : bool :=
  match_topic_go match_level_str 0 f (split t).

Definition matches_filter (f g : filter) : bool :=
  match_topic_go match_level_lvl 0 f g.

(* ---- engine glue: numeric encodings of results ---- *)
Definition enc_level (l : level) : list N :=
  match l with
  | Normal s => 1 :: len s :: s
  | System s => 2 :: len s :: s
  | Blank => [3]
  | Single => [4]
  | Multi => [5]
  end.

(* engine "topic": fields [filter; topic-or-second-filter]
   observation: [is_valid f; parse tag (0 ok /1 InvalidTopic /2 InvalidLevel)] ;
                levels (flattened) ; display ; [matches_topic] ; [matches_filter f g (2 = g unparsable)] *)
Definition run_topic (c : list (list N)) : list (list N) :=
  match c with
  | [f; t] =>
    match parse f with
    | inl F =>
      [ [b2n (is_valid f); 0];
        flat_map enc_level F;
        display F;
        [b2n (matches_topic F t)];
        [match parse t with inl G => b2n (matches_filter F G) | inr _ => 2 end] ]
    | inr e => [ [b2n (is_valid f); match e with InvalidTopic => 1 | InvalidLevel => 2 end] ]
    end
  | _ => [[99]]
  end.
