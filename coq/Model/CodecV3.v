(* Model/CodecV3.v -- executable model of the MQTT v3.1.1 codec of ntex-mqtt (definitions only):
     /repo/src/types.rs            packet_type constants, ConnectFlags / ConnectAckFlags bits, QoS
     /repo/src/utils.rs            Decode / Encode impls (var-int is Base/VarInt.v)
     /repo/src/v3/codec/packet.rs  Connect, LastWill, ConnectAck, Publish, SubscribeReturnCode, Packet
     /repo/src/v3/codec/decode.rs  decode_packet, decode_publish_packet, publish_size
     /repo/src/v3/codec/encode.rs  get_encoded_size, get_encoded_publish_size, encode, encode_publish
     /repo/src/v3/codec/codec.rs   Codec::decode (DecodeState machine), Codec::encodev / encode_item

   Conventions: bytes are [N] (< 256), u16/u32 values are [N]; [usize] is 64 bit and additions of
   lengths of in-memory objects cannot overflow it, so [usize] sums are plain [N] sums; every
   [as u32] cast is an explicit [mod 2^32]; every unsigned subtraction is [sub_chk]; [Buf::get_u8] /
   [get_u16] / slice indexing on too short input is [Panic PS_index]. *)
From MV Require Import Base.Prelude Base.Res Base.VarInt Base.Utf8.

Definition PS_fuel : N := 190.          (* fuel of a model loop exhausted: never happens (fuel = input length) *)
Definition U16MAX : N := 65535.
Definition U32MOD : N := 4294967296.
Definition as_u32 (n : N) : N := n mod U32MOD.

(* ------------------------------------------------------------------ types.rs *)
Definition MQTT : bytes := [77; 81; 84; 84].
Definition MQTT_LEVEL_3 : N := 4.
Definition WILL_QOS_SHIFT : N := 3.

Definition CONNECT : N := 16.
Definition CONNACK : N := 32.
Definition PUBLISH_START : N := 48.
Definition PUBLISH_END : N := 63.
Definition PUBACK : N := 64.
Definition PUBREC : N := 80.
Definition PUBREL : N := 98.
Definition PUBCOMP : N := 112.
Definition SUBSCRIBE : N := 130.
Definition SUBACK : N := 144.
Definition UNSUBSCRIBE : N := 162.
Definition UNSUBACK : N := 176.
Definition PINGREQ : N := 192.
Definition PINGRESP : N := 208.
Definition DISCONNECT : N := 224.

Definition is_publish (b : N) : bool := (PUBLISH_START <=? b) && (b <=? PUBLISH_END).

(* ConnectFlags bits *)
Definition CF_USERNAME : N := 128.
Definition CF_PASSWORD : N := 64.
Definition CF_WILL_RETAIN : N := 32.
Definition CF_WILL_QOS : N := 24.
Definition CF_WILL : N := 4.
Definition CF_CLEAN_START : N := 2.

(* [flags & mask != 0] for a one-bit mask (mask = 2^k) *)
Definition has_bit (v mask : N) : bool := (v / mask) mod 2 =? 1.

Inductive qos := AtMostOnce | AtLeastOnce | ExactlyOnce.

Definition qos_to_n (q : qos) : N :=
  match q with AtMostOnce => 0 | AtLeastOnce => 1 | ExactlyOnce => 2 end.

(* prim_enum! TryFrom<u8> *)
Definition qos_of_n (v : N) : res qos :=
  match v with
  | 0 => Ok AtMostOnce
  | 1 => Ok AtLeastOnce
  | 2 => Ok ExactlyOnce
  | _ => Err DE_MalformedPacket
  end.

Definition qos_eqb (a b : qos) : bool := qos_to_n a =? qos_to_n b.

(* ------------------------------------------------------------------ packet.rs *)
Inductive connack_reason :=
| ConnectionAccepted
| UnacceptableProtocolVersion
| IdentifierRejected
| ServiceUnavailable
| BadUserNameOrPassword
| NotAuthorized
| Reserved.

Definition reason_to_n (r : connack_reason) : N :=
  match r with
  | ConnectionAccepted => 0
  | UnacceptableProtocolVersion => 1
  | IdentifierRejected => 2
  | ServiceUnavailable => 3
  | BadUserNameOrPassword => 4
  | NotAuthorized => 5
  | Reserved => 6
  end.

Definition reason_of_n (v : N) : res connack_reason :=
  match v with
  | 0 => Ok ConnectionAccepted
  | 1 => Ok UnacceptableProtocolVersion
  | 2 => Ok IdentifierRejected
  | 3 => Ok ServiceUnavailable
  | 4 => Ok BadUserNameOrPassword
  | 5 => Ok NotAuthorized
  | 6 => Ok Reserved
  | _ => Err DE_MalformedPacket
  end.

Record last_will := mkLastWill {
  lw_qos : qos;
  lw_retain : bool;
  lw_topic : bytes;            (* ByteString *)
  lw_message : bytes           (* Bytes *)
}.

Record connect := mkConnect {
  c_clean_session : bool;
  c_keep_alive : N;            (* u16 *)
  c_last_will : option last_will;
  c_client_id : bytes;         (* ByteString *)
  c_username : option bytes;   (* Option<ByteString> *)
  c_password : option bytes    (* Option<Bytes> *)
}.

Record publish := mkPublish {
  p_dup : bool;
  p_retain : bool;
  p_qos : qos;
  p_topic : bytes;             (* ByteString *)
  p_packet_id : option N;      (* Option<NonZeroU16> *)
  p_payload_size : N           (* u32 *)
}.

Record connect_ack := mkConnectAck {
  ca_return_code : connack_reason;
  ca_session_present : bool
}.

Inductive sub_rc := SrcSuccess (q : qos) | SrcFailure.

Inductive packet :=
| PConnect (c : connect)
| PConnectAck (a : connect_ack)
| PPublishAck (packet_id : N)
| PPublishReceived (packet_id : N)
| PPublishRelease (packet_id : N)
| PPublishComplete (packet_id : N)
| PSubscribe (packet_id : N) (topic_filters : list (bytes * qos))
| PSubscribeAck (packet_id : N) (status : list sub_rc)
| PUnsubscribe (packet_id : N) (topic_filters : list bytes)
| PUnsubscribeAck (packet_id : N)
| PPingRequest
| PPingResponse
| PDisconnect.

Definition packet_type_of (p : packet) : N :=
  match p with
  | PConnect _ => CONNECT
  | PConnectAck _ => CONNACK
  | PPublishAck _ => PUBACK
  | PPublishReceived _ => PUBREC
  | PPublishRelease _ => PUBREL
  | PPublishComplete _ => PUBCOMP
  | PSubscribe _ _ => SUBSCRIBE
  | PSubscribeAck _ _ => SUBACK
  | PUnsubscribe _ _ => UNSUBSCRIBE
  | PUnsubscribeAck _ => UNSUBACK
  | PPingRequest => PINGREQ
  | PPingResponse => PINGRESP
  | PDisconnect => DISCONNECT
  end.

(* validity of the in-memory values (what the Rust types guarantee) *)
Definition nz16_ok (v : N) : bool := (0 <? v) && (v <=? U16MAX).
Definition str_ok (s : bytes) : bool := bytes_ok s && utf8_valid s.
Definition opt_ok {A} (f : A -> bool) (o : option A) : bool := match o with None => true | Some a => f a end.

Definition last_will_ok (w : last_will) : bool := str_ok (lw_topic w) && bytes_ok (lw_message w).
Definition connect_ok (c : connect) : bool :=
  (c_keep_alive c <=? U16MAX) && opt_ok last_will_ok (c_last_will c) && str_ok (c_client_id c)
  && opt_ok str_ok (c_username c) && opt_ok bytes_ok (c_password c).
Definition publish_ok (p : publish) : bool :=
  str_ok (p_topic p) && opt_ok nz16_ok (p_packet_id p) && (p_payload_size p <=? U32MAX).
Definition packet_ok (p : packet) : bool :=
  match p with
  | PConnect c => connect_ok c
  | PConnectAck _ => true
  | PPublishAck i | PPublishReceived i | PPublishRelease i | PPublishComplete i | PUnsubscribeAck i =>
    nz16_ok i
  | PSubscribe i fs => nz16_ok i && forallb (fun f => str_ok (fst f)) fs
  | PSubscribeAck i _ => nz16_ok i
  | PUnsubscribe i fs => nz16_ok i && forallb str_ok fs
  | PPingRequest | PPingResponse | PDisconnect => true
  end.

(* ------------------------------------------------------------------ Buf helpers *)
Definition split_at (n : N) (s : bytes) : bytes * bytes :=
  (firstn (N.to_nat n) s, skipn (N.to_nat n) s).

(* Buf::get_u8 / get_u16: panic when the buffer is too short *)
Definition get_u8 (s : bytes) : res (N * bytes) :=
  match s with a :: r => Ok (a, r) | _ => Panic PS_index end.
Definition get_u16 (s : bytes) : res (N * bytes) :=
  match s with a :: b :: r => Ok (a * 256 + b, r) | _ => Panic PS_index end.
(* &src[0..n] *)
Definition slice_to (n : N) (s : bytes) : res bytes :=
  if len s <? n then Panic PS_index else Ok (firstn (N.to_nat n) s).
(* Buf::advance(n) *)
Definition advance (n : N) (s : bytes) : res bytes :=
  if len s <? n then Panic PS_index else Ok (skipn (N.to_nat n) s).

(* ------------------------------------------------------------------ utils.rs: Decode *)
(* impl Decode for u16 *)
Definition dec_u16 (s : bytes) : res (N * bytes) :=
  let* _ := ensure (2 <=? len s) DE_InvalidLength in
  get_u16 s.

(* impl Decode for NonZeroU16 *)
Definition dec_nz16 (s : bytes) : res (N * bytes) :=
  let* (v, r) := dec_u16 s in
  if v =? 0 then Err DE_MalformedPacket else Ok (v, r).

(* impl Decode for Bytes *)
Definition dec_bytes (s : bytes) : res (bytes * bytes) :=
  let* (n, r) := dec_u16 s in
  let* _ := ensure (n <=? len r) DE_InvalidLength in
  Ok (split_at n r).

(* impl Decode for ByteString *)
Definition dec_string (s : bytes) : res (bytes * bytes) :=
  let* (b, r) := dec_bytes s in
  if utf8_valid b then Ok (b, r) else Err DE_Utf8Error.

(* ------------------------------------------------------------------ decode.rs *)
(* decode_ack *)
Definition decode_ack (f : N -> packet) (src : bytes) : res packet :=
  let* (packet_id, r) := dec_nz16 src in
  let* _ := ensure (match r with [] => true | _ => false end) DE_InvalidLength in
  Ok (f packet_id).

Definition decode_last_will (flags : N) (src : bytes) : res (option last_will * bytes) :=
  if has_bit flags CF_WILL then
    let* (topic, r) := dec_string src in
    let* (message, r) := dec_bytes r in
    let* q := qos_of_n ((flags / 8) mod 4) in      (* (flags & WILL_QOS).bits() >> WILL_QOS_SHIFT *)
    Ok (Some (mkLastWill q (has_bit flags CF_WILL_RETAIN) topic message), r)
  else Ok (None, src).

Definition decode_connect_packet (src : bytes) : res packet :=
  let* _ := ensure (10 <=? len src) DE_InvalidLength in
  let* (ln, src) := get_u16 src in
  let* is_mqtt := (if ln =? 4 then let* s := slice_to 4 src in Ok (bytes_eqb s MQTT) else Ok false) in
  let* _ := ensure is_mqtt DE_InvalidProtocol in
  let* src := advance 4 src in
  let* (level, src) := get_u8 src in
  let* _ := ensure (level =? MQTT_LEVEL_3) DE_UnsupportedProtocolLevel in
  let* (flags, src) := get_u8 src in
  (* ConnectFlags::from_bits: the only unknown bit is bit 0 *)
  let* _ := ensure (negb (has_bit flags 1)) DE_ConnectReservedFlagSet in
  let* (keep_alive, src) := dec_u16 src in
  let* (client_id, src) := dec_string src in
  let* _ := ensure (negb (match client_id with [] => true | _ => false end) || has_bit flags CF_CLEAN_START)
                   DE_InvalidClientId in
  let* (last_will, src) := decode_last_will flags src in
  let* (username, src) :=
     (if has_bit flags CF_USERNAME then let* (u, r) := dec_string src in Ok (Some u, r) else Ok (None, src)) in
  let* (password, src) :=
     (if has_bit flags CF_PASSWORD then let* (p, r) := dec_bytes src in Ok (Some p, r) else Ok (None, src)) in
  Ok (PConnect (mkConnect (has_bit flags CF_CLEAN_START) keep_alive last_will client_id username password)).

Definition decode_connect_ack_packet (src : bytes) : res packet :=
  let* _ := ensure (2 <=? len src) DE_InvalidLength in
  let* (flags, src) := get_u8 src in
  (* ConnectAckFlags::from_bits: only bit 0 is known *)
  let* _ := ensure (flags <? 2) DE_ConnAckReservedFlagSet in
  let* (code, src) := get_u8 src in
  let* return_code := reason_of_n code in
  Ok (PConnectAck (mkConnectAck return_code (has_bit flags 1))).

(* decode_publish_packet(src, packet_flags, payload_size); also returns what is left of src *)
Definition decode_publish_packet (src : bytes) (packet_flags : N) (payload_size : N) : res (publish * bytes) :=
  let* (topic, src) := dec_string src in
  let* q := qos_of_n ((packet_flags / 2) mod 4) in          (* (packet_flags & 0b0110) >> 1 *)
  let* (packet_id, src) :=
     (match q with
      | AtMostOnce => Ok (None, src)
      | _ => let* (i, r) := dec_nz16 src in Ok (Some i, r)
      end) in
  Ok (mkPublish (has_bit packet_flags 8) (has_bit packet_flags 1) q topic packet_id payload_size, src).

(* publish_size(src, flags): Ok(None) = need more bytes *)
Definition publish_size (src : bytes) (flags : N) : res (option N) :=
  match src with
  | a :: b :: _ =>
    let l := a * 256 + b + 2 in
    let* q := qos_of_n ((flags / 2) mod 4) in
    Ok (Some (match q with AtMostOnce => l | _ => l + 2 end))
  | _ => Ok None
  end.

(* while src.has_remaining() { ByteString; u8 } -- every round consumes at least 3 bytes *)
Fixpoint dec_sub_filters (fuel : nat) (src : bytes) : res (list (bytes * qos)) :=
  match src with
  | [] => Ok []
  | _ =>
    match fuel with
    | O => Panic PS_fuel
    | S k =>
      let* (topic, r) := dec_string src in
      let* _ := ensure (1 <=? len r) DE_InvalidLength in
      let* (b, r) := get_u8 r in
      let* q := qos_of_n (b mod 4) in
      let* rest := dec_sub_filters k r in
      Ok ((topic, q) :: rest)
    end
  end.

Definition decode_subscribe_packet (src : bytes) : res packet :=
  let* (packet_id, src) := dec_nz16 src in
  let* fs := dec_sub_filters (length src) src in
  Ok (PSubscribe packet_id fs).

Fixpoint dec_sub_status (src : bytes) : res (list sub_rc) :=
  match src with
  | [] => Ok []
  | code :: r =>
    let* s := (if code =? 128 then Ok SrcFailure else let* q := qos_of_n code in Ok (SrcSuccess q)) in
    let* rest := dec_sub_status r in
    Ok (s :: rest)
  end.

Definition decode_subscribe_ack_packet (src : bytes) : res packet :=
  let* (packet_id, src) := dec_nz16 src in
  let* status := dec_sub_status src in
  Ok (PSubscribeAck packet_id status).

Fixpoint dec_unsub_filters (fuel : nat) (src : bytes) : res (list bytes) :=
  match src with
  | [] => Ok []
  | _ =>
    match fuel with
    | O => Panic PS_fuel
    | S k =>
      let* (topic, r) := dec_string src in
      let* rest := dec_unsub_filters k r in
      Ok (topic :: rest)
    end
  end.

Definition decode_unsubscribe_packet (src : bytes) : res packet :=
  let* (packet_id, src) := dec_nz16 src in
  let* fs := dec_unsub_filters (length src) src in
  Ok (PUnsubscribe packet_id fs).

(* decode_packet(src, first_byte): the match is on the whole first byte *)
Definition decode_packet (first_byte : N) (src : bytes) : res packet :=
  if first_byte =? CONNECT then decode_connect_packet src
  else if first_byte =? CONNACK then decode_connect_ack_packet src
  else if first_byte =? PUBACK then decode_ack PPublishAck src
  else if first_byte =? PUBREC then decode_ack PPublishReceived src
  else if first_byte =? PUBREL then decode_ack PPublishRelease src
  else if first_byte =? PUBCOMP then decode_ack PPublishComplete src
  else if first_byte =? SUBSCRIBE then decode_subscribe_packet src
  else if first_byte =? SUBACK then decode_subscribe_ack_packet src
  else if first_byte =? UNSUBSCRIBE then decode_unsubscribe_packet src
  else if first_byte =? UNSUBACK then decode_ack PUnsubscribeAck src
  else if first_byte =? PINGREQ then Ok PPingRequest
  else if first_byte =? PINGRESP then Ok PPingResponse
  else if first_byte =? DISCONNECT then Ok PDisconnect
  else Err DE_UnsupportedPacketType.

(* ------------------------------------------------------------------ codec.rs: Decoder *)
Inductive dstate :=
| FrameHeader
| Frame (first_byte remaining_length : N)
| PublishHeader (first_byte remaining_length : N)
| PublishPayload (remaining : N).

Inductive item :=
| IPacket (p : packet) (remaining_length : N)
| IPublish (p : publish) (payload : bytes) (remaining_length : N)
| IChunk (payload : bytes) (eof : bool).

Definition step_out := (res (option item) * dstate * bytes)%type.

(* DecodeState::Frame(fixed) arm *)
Definition step_frame (fb rl : N) (src : bytes) : step_out :=
  let st := Frame fb rl in
  if len src <? rl then (Ok None, st, src)
  else
    let (packet_buf, src) := split_at rl src in
    match decode_packet fb packet_buf with
    | Ok p => (Ok (Some (IPacket p rl)), FrameHeader, src)
    | Err e => (Err e, st, src)
    | Panic s => (Panic s, st, src)
    end.

(* DecodeState::PublishHeader(fixed) arm *)
Definition step_publish_header (min_chunk : N) (fb rl : N) (src : bytes) : step_out :=
  let st := PublishHeader fb rl in
  if rl <? 2 then (Err DE_InvalidLength, st, src)
  else
    match publish_size src fb with
    | Err e => (Err e, st, src)
    | Panic s => (Panic s, st, src)
    | Ok None => (Ok None, st, src)
    | Ok (Some hdr_len) =>
      if rl <? hdr_len then (Err DE_InvalidLength, st, src)
      else if len src <? hdr_len then (Ok None, st, src)
      else
        match sub_chk rl hdr_len with
        | Err e => (Err e, st, src)
        | Panic s => (Panic s, st, src)
        | Ok payload_len =>
          let (buf, src) := split_at hdr_len src in
          match decode_publish_packet buf fb payload_len with
          | Err e => (Err e, st, src)
          | Panic s => (Panic s, st, src)
          | Ok (pub, _) =>
            let l := as_u32 (len src) in
            if (payload_len <=? l) || (min_chunk =? 0) || (min_chunk <=? l) then
              let (payload, src') := split_at (N.min (len src) payload_len) src in
              match sub_chk payload_len (as_u32 (len payload)) with
              | Err e => (Err e, st, src')
              | Panic s => (Panic s, st, src')
              | Ok remaining =>
                (Ok (Some (IPublish pub payload rl)),
                 (if 0 <? remaining then PublishPayload remaining else FrameHeader), src')
              end
            else (Ok (Some (IPublish pub [] rl)), PublishPayload payload_len, src)
          end
        end
    end.

(* DecodeState::PublishPayload(remaining) arm *)
Definition step_publish_payload (min_chunk : N) (remaining : N) (src : bytes) : step_out :=
  let st := PublishPayload remaining in
  let l := as_u32 (len src) in
  if (remaining <=? l) || (negb (min_chunk =? 0) && (min_chunk <=? l)) then
    let (payload, src') := split_at (N.min (len src) remaining) src in
    match sub_chk remaining (as_u32 (len payload)) with
    | Err e => (Err e, st, src')
    | Panic s => (Panic s, st, src')
    | Ok remaining' =>
      if 0 <? remaining' then (Ok (Some (IChunk payload false)), PublishPayload remaining', src')
      else (Ok (Some (IChunk payload true)), FrameHeader, src')
    end
  else (Ok None, st, src).

(* DecodeState::FrameHeader arm, followed by the arm the loop enters next *)
Definition step_frame_header (max_size min_chunk : N) (src : bytes) : step_out :=
  let st := FrameHeader in
  if len src <? 2 then (Ok None, st, src)
  else
    match src with
    | [] => (Panic PS_index, st, src)
    | first_byte :: tl =>
      match dec_vi_opt tl with
      | Err e => (Err e, st, src)
      | Panic s => (Panic s, st, src)
      | Ok None => (Ok None, st, src)
      | Ok (Some (remaining_length, consumed)) =>
        if negb (max_size =? 0) && (max_size <? remaining_length) then (Err DE_MaxSizeExceeded, st, src)
        else
          match advance (consumed + 1) src with
          | Err e => (Err e, st, src)
          | Panic s => (Panic s, st, src)
          | Ok src =>
            if is_publish first_byte then step_publish_header min_chunk first_byte remaining_length src
            else if len src <? remaining_length then (Ok None, Frame first_byte remaining_length, src)
            else step_frame first_byte remaining_length src
          end
      end
    end.

(* one call of Codec::decode *)
Definition decode_step (max_size min_chunk : N) (st : dstate) (buf : bytes) : step_out :=
  match st with
  | FrameHeader => step_frame_header max_size min_chunk buf
  | Frame fb rl => step_frame fb rl buf
  | PublishHeader fb rl => step_publish_header min_chunk fb rl buf
  | PublishPayload remaining => step_publish_payload min_chunk remaining buf
  end.

(* ------------------------------------------------------------------ encode.rs: sizes *)
Definition is_qos12 (q : qos) : bool := match q with AtMostOnce => false | _ => true end.

Definition get_encoded_publish_size (p : publish) : N :=
  if is_qos12 (p_qos p) then 4 + len (p_topic p) + p_payload_size p
  else 2 + len (p_topic p) + p_payload_size p.

Definition get_encoded_subscribe_size (fs : list (bytes * qos)) : N :=
  2 + fold_left (fun acc f => acc + 2 + len (fst f) + 1) fs 0.

Definition get_encoded_unsubscribe_size (fs : list bytes) : N :=
  2 + fold_left (fun acc f => acc + 2 + len f) fs 0.

Definition get_encoded_size (p : packet) : N :=
  match p with
  | PConnect c =>
    let n := 2 + 4 + 1 + 1 + 2 in
    let n := n + (2 + len (c_client_id c)) in
    let n := match c_last_will c with
             | Some w => n + (2 + len (lw_topic w) + 2 + len (lw_message w))
             | None => n
             end in
    let n := match c_username c with Some s => n + (2 + len s) | None => n end in
    let n := match c_password c with Some s => n + (2 + len s) | None => n end in
    n
  | PConnectAck _ | PPublishAck _ | PPublishReceived _ | PPublishRelease _ | PPublishComplete _
  | PUnsubscribeAck _ => 2
  | PSubscribe _ fs => get_encoded_subscribe_size fs
  | PSubscribeAck _ status => 2 + N.of_nat (length status)
  | PUnsubscribe _ fs => get_encoded_unsubscribe_size fs
  | PPingRequest | PPingResponse | PDisconnect => 0
  end.

(* ------------------------------------------------------------------ writer *)
(* bytes written so far and the outcome; bytes written before a failure stay visible *)
Definition wr := (bytes * res unit)%type.
Definition w_bytes (b : bytes) : wr := (b, Ok tt).
Definition w_err (e : N) : wr := ([], Err e).
Definition w_then (a : wr) (k : wr) : wr :=
  match a with
  | (b, Ok _) => let (b', r) := k in (b ++ b', r)
  | (b, Err e) => (b, Err e)
  | (b, Panic s) => (b, Panic s)
  end.
Notation "a ;; k" := (w_then a k) (at level 61, right associativity).

Definition u16be (v : N) : bytes := [v / 256; v mod 256].

(* utils::write_variable_length *)
Definition w_varlen (n : N) : wr :=
  match write_vi n with
  | Ok b => (b, Ok tt)
  | Err e => ([], Err e)
  | Panic s => ([], Panic s)
  end.

(* impl Encode for Bytes / ByteString / &[u8] *)
Definition w_bytes16 (s : bytes) : wr :=
  if len s <=? U16MAX then w_bytes (u16be (len s) ++ s) else w_err EE_InvalidLength.

(* impl Encode for NonZeroU16 / u16 *)
Definition w_u16 (v : N) : wr := w_bytes (u16be v).

Definition w_opt {A} (f : A -> wr) (o : option A) : wr :=
  match o with Some a => f a | None => w_bytes [] end.

(* ------------------------------------------------------------------ encode.rs: encoders *)
Definition connect_flags (c : connect) : N :=
  (match c_username c with Some _ => CF_USERNAME | None => 0 end)
  + (match c_password c with Some _ => CF_PASSWORD | None => 0 end)
  + match c_last_will c with
    | Some w => CF_WILL + (if lw_retain w then CF_WILL_RETAIN else 0) + qos_to_n (lw_qos w) * 8
    | None => 0
    end
  + (if c_clean_session c then CF_CLEAN_START else 0).

Definition encode_connect (c : connect) : wr :=
  w_bytes16 MQTT ;;
  w_bytes [MQTT_LEVEL_3; connect_flags c] ;;
  w_u16 (c_keep_alive c) ;;
  w_bytes16 (c_client_id c) ;;
  w_opt (fun w => w_bytes16 (lw_topic w) ;; w_bytes16 (lw_message w)) (c_last_will c) ;;
  w_opt w_bytes16 (c_username c) ;;
  w_opt w_bytes16 (c_password c).

Fixpoint w_sub_filters (fs : list (bytes * qos)) : wr :=
  match fs with
  | [] => w_bytes []
  | (f, q) :: r => w_bytes16 f ;; w_bytes [qos_to_n q] ;; w_sub_filters r
  end.

Fixpoint w_unsub_filters (fs : list bytes) : wr :=
  match fs with
  | [] => w_bytes []
  | f :: r => w_bytes16 f ;; w_unsub_filters r
  end.

Definition sub_rc_byte (s : sub_rc) : N :=
  match s with SrcSuccess q => qos_to_n q | SrcFailure => 128 end.

(* encode(packet, dst, content_size) *)
Definition encode (p : packet) (content_size : N) : wr :=
  match p with
  | PConnect c => w_bytes [CONNECT] ;; w_varlen content_size ;; encode_connect c
  | PConnectAck a =>
    w_bytes [CONNACK] ;; w_varlen content_size ;;
    w_bytes [b2n (ca_session_present a); reason_to_n (ca_return_code a)]
  | PPublishAck i => w_bytes [PUBACK] ;; w_varlen content_size ;; w_u16 i
  | PPublishReceived i => w_bytes [PUBREC] ;; w_varlen content_size ;; w_u16 i
  | PPublishRelease i => w_bytes [PUBREL] ;; w_varlen content_size ;; w_u16 i
  | PPublishComplete i => w_bytes [PUBCOMP] ;; w_varlen content_size ;; w_u16 i
  | PSubscribe i fs => w_bytes [SUBSCRIBE] ;; w_varlen content_size ;; w_u16 i ;; w_sub_filters fs
  | PSubscribeAck i status =>
    w_bytes [SUBACK] ;; w_varlen content_size ;; w_u16 i ;; w_bytes (map sub_rc_byte status)
  | PUnsubscribe i fs => w_bytes [UNSUBSCRIBE] ;; w_varlen content_size ;; w_u16 i ;; w_unsub_filters fs
  | PUnsubscribeAck i => w_bytes [UNSUBACK] ;; w_varlen content_size ;; w_u16 i
  | PPingRequest => w_bytes [PINGREQ; 0]
  | PPingResponse => w_bytes [PINGRESP; 0]
  | PDisconnect => w_bytes [DISCONNECT; 0]
  end.

(* encode_publish(publish, dst, content_size) *)
Definition encode_publish (p : publish) (content_size : N) : wr :=
  w_bytes [PUBLISH_START + qos_to_n (p_qos p) * 2 + b2n (p_dup p) * 8 + b2n (p_retain p)] ;;
  w_varlen content_size ;;
  w_bytes16 (p_topic p) ;;
  match p_qos p with
  | AtMostOnce => match p_packet_id p with Some _ => w_err EE_MalformedPacket | None => w_bytes [] end
  | _ => match p_packet_id p with Some i => w_u16 i | None => w_err EE_PacketIdRequired end
  end.

(* ------------------------------------------------------------------ codec.rs: Encoder *)
Inductive encoded :=
| EPacket (p : packet)
| EPublish (p : publish) (buf : option bytes)
| EChunk (chunk : bytes).

(* NonZeroU32::new *)
Definition nz32 (n : N) : option N := if n =? 0 then None else Some n.

(* Codec::encode_item: bytes written into dst, and the new value of the encoding_payload cell *)
Definition encode_item (max_size : N) (ep : option N) (it : encoded) : bytes * res (option N) :=
  match it with
  | EPacket pkt =>
    match ep with
    | Some _ => ([], Err EE_ExpectPayload)
    | None =>
      let content_size := get_encoded_size pkt in
      if VI_MAX <? content_size then ([], Err EE_OverMaxPacketSize)   (* content_size > MAX_PACKET_SIZE *)
      else
        let (w, r) := encode pkt (as_u32 content_size) in
        (w, let* _ := r in Ok ep)
    end
  | EPublish pkt buf =>
    if is_qos12 (p_qos pkt) && match p_packet_id pkt with None => true | Some _ => false end
    then ([], Err EE_PacketIdRequired)
    else
      let content_size := get_encoded_publish_size pkt in              (* usize *)
      if (VI_MAX <? content_size) || (negb (max_size =? 0) && (max_size <? content_size))
      then ([], Err EE_OverMaxPacketSize)
      else
        let content_size := as_u32 content_size in                     (* not bigger than MAX_PACKET_SIZE *)
        if match buf with Some b => p_payload_size pkt <? len b | None => false end
        then ([], Err EE_OverPublishSize)
        else
        match encode_publish pkt content_size with
        | (w, Err e) => (w, Err e)
        | (w, Panic s) => (w, Panic s)
        | (w, Ok _) =>
          match buf with
          | Some b =>
            match sub_chk (p_payload_size pkt) (as_u32 (len b)) with
            | Ok remaining => (w ++ b, Ok (nz32 remaining))
            | Err e => (w, Err e)
            | Panic s => (w, Panic s)
            end
          | None => (w, Ok (nz32 (p_payload_size pkt)))
          end
        end
  | EChunk chunk =>
    match ep with
    | Some remaining =>
      let l := as_u32 (len chunk) in
      if remaining <? l then ([], Err EE_OverPublishSize)
      else match sub_chk remaining l with
           | Ok r => (chunk, Ok (nz32 r))
           | Err e => ([], Err e)
           | Panic s => ([], Panic s)
           end
    | None => ([], Err EE_UnexpectedPayload)
    end
  end.

(* utils::truncate_pages(dst, len) *)
Definition truncate_pages (dst : bytes) (n : N) : bytes :=
  if n <? len dst then firstn (N.to_nat n) dst else dst.

(* Codec::encodev(item, dst): new dst, new encoding_payload, result.  On Err the buffer is cut back to
   its length at entry; a panic leaves whatever was written. *)
Definition encodev (max_size : N) (ep : option N) (it : encoded) (dst : bytes)
  : bytes * option N * res unit :=
  let n := len dst in
  match encode_item max_size ep it with
  | (w, Ok ep') => (dst ++ w, ep', Ok tt)
  | (w, Err e) => (truncate_pages (dst ++ w) n, ep, Err e)
  | (w, Panic s) => (dst ++ w, ep, Panic s)
  end.

(* encodev on an empty buffer: the bytes the operation appends (the bytes appended do not depend on
   what dst held before) *)
Definition encodev_appended (max_size : N) (ep : option N) (it : encoded) : bytes * option N * res unit :=
  encodev max_size ep it [].
