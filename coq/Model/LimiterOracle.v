(* Model/LimiterOracle.v -- oracle for C12 on the observations of engine "limiter" (number 35),
   written from the property, not from the limiter model: the oracle keeps only what the property
   talks about -- which handed-over calls are running (from the case), the answers the
   implementation gave to the readiness polls and whether it woke the dispatcher (from the
   observation) -- and checks, for cases that respect the dispatcher discipline (as performed
   with the implementation's own answers) and the frame order of a codec:
     clause 1  at most max_cap running calls are not payload chunks (max_cap <> 0), and a poll
               outside a streamed payload answers Pending when the limits are reached
     clause 2  bytes of the running calls <= max_size + size of the last packet (max_size <> 0)
     clause 3  while a payload is streamed a poll answers Ready
     clause 4  after a Pending answer, a completion that brings the running calls back under the
               limits has woken the dispatcher
     clause 5  a poll answers Ready when the running calls are under the limits (in particular
               when none is running)
     clause 6  no panic
   Verdict [[1]] or [[0; clause; step index]].  Cases that leave the discipline make no claim. *)
From MV Require Import Base.Prelude.

Record ost := mkO {
  o_run : list (N * N);      (* running calls: (kind number, size()) *)
  o_sub : list (N * N);      (* handed over, first poll pending *)
  o_may : bool;              (* last poll answered Ready and no frame handed over since *)
  o_pend : bool;             (* last poll answered Pending *)
  o_stream : bool;           (* a streamed payload is in progress (frame order) *)
  o_last : N                 (* size() of the last packet that is not a chunk *)
}.

Definition knum (k : N) : N := if k <=? 4 then k else 0.
Definition is_chunk_num (k : N) : bool := (knum k =? 3) || (knum k =? 4).

Definition count_nonchunk (l : list (N * N)) : N :=
  N.of_nat (length (filter (fun c => negb (is_chunk_num (fst c))) l)).
Definition bytes_of (l : list (N * N)) : N := fold_right (fun c a => snd c + a) 0 l.

Definition under_limits (mc ms : N) (s : ost) : bool :=
  ((mc =? 0) || (N.of_nat (length (o_run s)) <? mc)) && ((ms =? 0) || (bytes_of (o_run s) <=? ms)).

Definition bounds_ok (mc ms : N) (s : ost) : N :=
  if negb (mc =? 0) && (mc <? count_nonchunk (o_run s)) then 1
  else if negb (ms =? 0) && (ms + o_last s <? bytes_of (o_run s)) then 2
  else 0.

Fixpoint drop_nth {A} (n : nat) (l : list A) : list A :=
  match l, n with
  | [], _ => []
  | _ :: t, O => t
  | h :: t, S m => h :: drop_nth m t
  end.

(* result of one step: Some (new state, violated clause or 0), None = the case left the discipline *)
Definition frame_step (mc ms : N) (s : ost) (k size : N) (spawned : bool) : option (ost * N) :=
  if negb (o_may s) then None else
  let chunk := is_chunk_num k in
  if o_stream s && negb (chunk && (size =? 0)) then None else
  if negb (o_stream s) && chunk then None else
  let st' := if o_stream s then knum k =? 3 else knum k =? 2 in
  let last' := if chunk then o_last s else size in
  if spawned
  then Some (mkO (o_run s) (o_sub s ++ [(k, size)]) false (o_pend s) st' last', 0)
  else let s' := mkO (o_run s ++ [(k, size)]) (o_sub s) false (o_pend s) st' last' in
       Some (s', bounds_ok mc ms s').

Definition ostep (mc ms : N) (s : ost) (f w : list N) : option (ost * N) :=
  match f with
  | [1] =>
    match o_sub s with
    | _ :: _ => None
    | [] =>
      let ans := match w with a :: _ => a =? 1 | [] => false end in
      let s' := mkO (o_run s) (o_sub s) ans (negb ans) (o_stream s) (o_last s) in
      if o_stream s && negb ans then Some (s', 3)
      else if under_limits mc ms s && negb ans then Some (s', 5)
      else if negb (under_limits mc ms s) && negb (o_stream s) && ans then Some (s', 1)
      else Some (s', 0)
    end
  | [2; k; size] => frame_step mc ms s k size false
  | [4; k; size] => frame_step mc ms s k size true
  | [5; j] =>
    if o_may s then None else
    match nth_error (o_sub s) (N.to_nat j) with
    | None => Some (s, 0)
    | Some c =>
      let s' := mkO (o_run s ++ [c]) (drop_nth (N.to_nat j) (o_sub s)) (o_may s) (o_pend s) (o_stream s) (o_last s) in
      Some (s', bounds_ok mc ms s')
    end
  | [3; k] =>
    let s' := mkO (drop_nth (N.to_nat k) (o_run s)) (o_sub s) (o_may s) (o_pend s) (o_stream s) (o_last s) in
    let woken := match w with _ :: x :: _ => x =? 1 | _ => false end in
    if o_pend s' && under_limits mc ms s' && negb woken then Some (s', 4) else Some (s', 0)
  | _ => Some (s, 0)
  end.

Fixpoint ocheck (mc ms : N) (s : ost) (c o : list (list N)) (i : N) : list (list N) :=
  match c, o with
  | [], _ => [[1]]
  | f :: c', w :: o' =>
    match ostep mc ms s f w with
    | None => [[1]]
    | Some (s', 0) => ocheck mc ms s' c' o' (i + 1)
    | Some (_, cl) => [[0; cl; i]]
    end
  | _ :: _, [] => [[0; 9; i]]
  end.

Definition oracle_limiter (c o : list (list N)) : list (list N) :=
  match o with
  | [[9999]] => [[0; 6; 0]]
  | [[9998]] | [[9997]] => [[1]]
  | _ =>
    match c with
    | [mc; ms] :: r => ocheck (N.min mc 65535) ms (mkO [] [] false false false 0) r o 0
    | _ => [[1]]
    end
  end.
