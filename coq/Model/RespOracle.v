(* Model/RespOracle.v -- oracle for C04 from Spec/SpecResp.v: after every operation of a respq
   case the bytes the peer has received must be exactly [spec_written] of the history so far.
   Verdict [[1]] or [[0; step index]]. *)
From MV Require Import Base.Prelude Spec.SpecResp.

Definition ans_of_mode (id mode : N) : option answer :=
  if mode =? 0 then None else if mode =? 1 then Some (ASome id) else Some ANone.

Fixpoint pairs_events (l : list N) (fuel : nat) : list ev :=
  match fuel with
  | O => []
  | S k => match l with
           | id :: mode :: r => EArrive id (ans_of_mode id mode) :: pairs_events r k
           | _ => []
           end
  end.

Definition field_events (f : list N) : list ev :=
  match f with
  | [1; id; mode] => [EArrive id (ans_of_mode id mode)]
  | [2; id; r] => [EDone id (if r =? 0 then ASome id else ANone)]
  | 3 :: l => pairs_events l (length l)
  | _ => []
  end.

Fixpoint nums_eq (a b : list N) : bool :=
  match a, b with
  | [], [] => true
  | x :: a', y :: b' => (x =? y) && nums_eq a' b'
  | _, _ => false
  end.

Fixpoint check (h : list ev) (c o : list (list N)) (i : N) : list (list N) :=
  match c, o with
  | [], [] => [[1]]
  | f :: c', w :: o' =>
    let h' := h ++ field_events f in
    if nums_eq w (spec_written h') then check h' c' o' (i + 1) else [[0; i]]
  | _, _ => [[0; 9999]]
  end.

Definition oracle_respq (c o : list (list N)) : list (list N) := check [] c o 0.
