(* Model/Sniff.v -- model of version::VersionCodec::decode (src/version.rs): the codec that looks at
   the first bytes of a connection and tells MQTT 3.1.1 (level 4) from MQTT 5 (level 5).
   Definitions only.  Every slice / index expression of the Rust is a checked access here:
   out of range = Panic PS_index. *)
From MV Require Import Base.Prelude Base.Res Base.VarInt.

Definition S_CONNECT : N := 16.                 (* packet_type::CONNECT *)
Definition S_MQTT : bytes := [77; 81; 84; 84].   (* types::MQTT *)

(* src[a..b] *)
Definition sl (a b : N) (s : bytes) : res bytes :=
  if (a <=? b) && (b <=? len s) then Ok (firstn (N.to_nat (b - a)) (skipn (N.to_nat a) s))
  else Panic PS_index.

(* src[i] *)
Definition idx (i : N) (s : bytes) : res N :=
  match skipn (N.to_nat i) s with
  | x :: _ => Ok x
  | [] => Panic PS_index
  end.

(* Ok (Some 4) = MQTT3, Ok (Some 5) = MQTT5, Ok None = need more bytes *)
Definition sniff (src : bytes) : res (option N) :=
  let l := len src in
  if l <? 2 then Ok None
  else
    let* first_byte := idx 0 src in
    let* tl_ := sl 1 l src in
    let* o := dec_vi_opt tl_ in
    match o with
    | Some (_, consumed0) =>
      let consumed := consumed0 + 1 in
      if first_byte =? S_CONNECT then
        if l <=? consumed + 6 then Ok None
        else
          let* lb := sl consumed (consumed + 2) src in
          let* l16 := match lb with [a; b] => Ok (a * 256 + b) | _ => Panic PS_unwrap end in
          (* ensure!(len == 4 && &src[consumed + 2..consumed + 6] == MQTT, ..): && short-circuits *)
          let* name_ok := (if l16 =? 4 then
                             let* name := sl (consumed + 2) (consumed + 6) src in Ok (bytes_eqb name S_MQTT)
                           else Ok false) in
          let* _ := ensure name_ok DE_InvalidProtocol in
          let* level := idx (consumed + 6) src in
          if level =? 4 then Ok (Some 4)
          else if level =? 5 then Ok (Some 5)
          else Err DE_InvalidProtocol
      else Err DE_UnsupportedPacketType
    | None => Ok None
    end.
