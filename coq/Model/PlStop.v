(* Model/PlStop.v -- what the reader of a streamed PUBLISH payload sees when the connection ends
   (payload-reader clause of property C07): engines "plstop3" / "plstop5" (numbers 42 / 43), see
   harness/src/engines/plstop.rs for the case syntax.

   One inbound PUBLISH (QoS 1, id 1) of a v3 / v5 server connection whose payload arrives in pieces:
     /repo/src/v3/codec/codec.rs, v5/codec/codec.rs   decode: DecodeState::PublishHeader / PublishPayload
         (how the payload is cut into Decoded::Publish(.., first piece, ..) and Decoded::PayloadChunk(buf, eof)
          under min_chunk_size)
     /repo/src/v3/dispatcher.rs, v5/dispatcher.rs      Dispatcher::call  Decoded::Publish -> Payload::from_bytes /
         Payload::from_stream(first, max_payload_buffer_size), sender kept in MqttShared.payload ([slot]);
         Decoded::PayloadChunk(buf, eof) -> feed_data(buf), feed_eof() and the sender given away when eof;
         Dispatcher::ready: when the publish service's readiness fails and the slot holds a sender, a clone of
         the sender is put back and `pl.ready()` is awaited ([parked]: the payload buffer is full, the read task
         of the connection is paused) before the error is reported;  Dispatcher::shutdown -> drop_payload
     /repo/src/v3/default.rs, v5/default.rs            ControlService::call(Control::Stop(reason)) ->
         drop_payload(error of the reason) = set_error on the sender the slot holds; v5: DISCONNECT for
         Reason::Error / Reason::Protocol
     /repo/src/v3/shared.rs, v5/shared.rs              drop_payload, close, force_close
     /repo/src/io.rs                                   the framed dispatcher: service readiness error ->
         Stop(Error); peer gone / io closed -> Stop(PeerGone); responses are written in request order (a
         PINGRESP waits for the PUBACK of the publish handler that is still running)
   The payload itself (channel, `read()` loop / `read_all()` reader) is Model/Payload.v.
   The connection is over the in-memory transport of ntex-io: a peer that closes its end while the read
   task is paused is noticed only when reading resumes (and [parked] is left only into Stop).
   Definitions only. *)
From MV Require Import Base.Prelude Base.Res Model.Payload.

Record cfg := mkCfg {
  v5 : bool;
  minc : N;             (* MqttServiceConfig::min_chunk_size *)
  maxb : N;             (* max_payload_buffer_size *)
  decl : N;             (* payload size the PUBLISH announces *)
  rmode : mode          (* how the reader task reads *)
}.

(* the publish handler *)
Inductive hstate := HNone | HRun | HDone.

(* Reason of Control::Stop *)
Inductive reason := RPeer | RError | RProto.

Record ps := mkPs {
  hdr : bool;           (* the peer has written the PUBLISH header *)
  sent : N;             (* payload bytes the peer has written *)
  src : N;              (* payload bytes in the read buffer the decoder has not handed out *)
  drem : option N;      (* decoder: Some r = DecodeState::PublishPayload(r); None = no payload in progress *)
  rdr : option st;      (* the Payload the handler gave to the reader task, and that task *)
  polled : bool;        (* the reader task has been polled *)
  slot : bool;          (* MqttShared.payload holds the sender *)
  failing : bool;       (* Service::ready of the publish service answers Err *)
  parked : bool;        (* Dispatcher::ready is suspended in pl.ready() *)
  stopped : bool;       (* Control::Stop delivered, dispatcher and io shut down *)
  stops : N;            (* Stop notifications the control service has seen *)
  hnd : hstate;
  gate : bool;          (* the handler has been told to complete *)
  pings : N;            (* PINGRESP waiting behind the handler's response *)
  pclosed : bool        (* the peer has closed its end *)
}.

Definition init : ps := mkPs false 0 0 None None false false false false false 0 HNone false 0 false.

Definition set_hdr (s : ps) (x : bool) : ps :=
  mkPs x (sent s) (src s) (drem s) (rdr s) (polled s) (slot s) (failing s) (parked s) (stopped s) (stops s) (hnd s) (gate s) (pings s) (pclosed s).
Definition set_sent (s : ps) (x : N) : ps :=
  mkPs (hdr s) x (src s) (drem s) (rdr s) (polled s) (slot s) (failing s) (parked s) (stopped s) (stops s) (hnd s) (gate s) (pings s) (pclosed s).
Definition set_dec (s : ps) (b : N) (r : option N) : ps :=
  mkPs (hdr s) (sent s) b r (rdr s) (polled s) (slot s) (failing s) (parked s) (stopped s) (stops s) (hnd s) (gate s) (pings s) (pclosed s).
Definition set_rdr (s : ps) (x : option st) : ps :=
  mkPs (hdr s) (sent s) (src s) (drem s) x (polled s) (slot s) (failing s) (parked s) (stopped s) (stops s) (hnd s) (gate s) (pings s) (pclosed s).
Definition set_polled (s : ps) (x : bool) : ps :=
  mkPs (hdr s) (sent s) (src s) (drem s) (rdr s) x (slot s) (failing s) (parked s) (stopped s) (stops s) (hnd s) (gate s) (pings s) (pclosed s).
Definition set_slot (s : ps) (x : bool) : ps :=
  mkPs (hdr s) (sent s) (src s) (drem s) (rdr s) (polled s) x (failing s) (parked s) (stopped s) (stops s) (hnd s) (gate s) (pings s) (pclosed s).
Definition set_failing (s : ps) (x : bool) : ps :=
  mkPs (hdr s) (sent s) (src s) (drem s) (rdr s) (polled s) (slot s) x (parked s) (stopped s) (stops s) (hnd s) (gate s) (pings s) (pclosed s).
Definition set_parked (s : ps) (x : bool) : ps :=
  mkPs (hdr s) (sent s) (src s) (drem s) (rdr s) (polled s) (slot s) (failing s) x (stopped s) (stops s) (hnd s) (gate s) (pings s) (pclosed s).
(* the end of the connection: slot emptied, not parked any more, stopped, one more Stop seen *)
Definition set_ended (s : ps) : ps :=
  mkPs (hdr s) (sent s) (src s) (drem s) (rdr s) (polled s) false (failing s) false true (stops s + 1) (hnd s) (gate s) (pings s) (pclosed s).
Definition set_hnd (s : ps) (x : hstate) : ps :=
  mkPs (hdr s) (sent s) (src s) (drem s) (rdr s) (polled s) (slot s) (failing s) (parked s) (stopped s) (stops s) x (gate s) (pings s) (pclosed s).
Definition set_gate (s : ps) (x : bool) : ps :=
  mkPs (hdr s) (sent s) (src s) (drem s) (rdr s) (polled s) (slot s) (failing s) (parked s) (stopped s) (stops s) (hnd s) x (pings s) (pclosed s).
Definition set_pings (s : ps) (x : N) : ps :=
  mkPs (hdr s) (sent s) (src s) (drem s) (rdr s) (polled s) (slot s) (failing s) (parked s) (stopped s) (stops s) (hnd s) (gate s) x (pclosed s).
Definition set_pclosed (s : ps) (x : bool) : ps :=
  mkPs (hdr s) (sent s) (src s) (drem s) (rdr s) (polled s) (slot s) (failing s) (parked s) (stopped s) (stops s) (hnd s) (gate s) (pings s) x.

(* first bytes of the packets the peer receives *)
Definition PUBACK : N := 64.
Definition PINGRESP : N := 208.
Definition DISCONNECT : N := 224.

(* an operation of Model/Payload.v on the payload the reader holds (the sender's Weak upgrades as long as
   the reader task owns the Payload) *)
Definition on_rdr (s : ps) (o : op) : res ps :=
  match rdr s with
  | Some p => let* p' := step p o in Ok (set_rdr s (Some p'))
  | None => Ok s
  end.

(* PayloadError::from of what ControlService::call hands to drop_payload *)
Definition err_of (r : reason) : N :=
  match r with RPeer => E_DISCONNECTED | RError => E_SERVICE | RProto => E_PROTOCOL end.

(* the connection ends: io.rs stop(control.call(Control::Stop(r))): ControlService::call -> drop_payload: the
   sender the slot holds (if any) gets set_error; the user's control service sees the Stop; v5 answers
   Reason::Error / Reason::Protocol with a DISCONNECT; then Shutdown (Dispatcher::shutdown: drop_payload again,
   nothing left) and the io is closed.  A handler still running is dropped with the dispatcher. *)
Definition do_end (c : cfg) (s : ps) (r : reason) : res (ps * list N) :=
  let* s1 := if slot s then on_rdr s (SetError (err_of r)) else Ok s in
  Ok (set_ended s1,
      match r with
      | RPeer => []
      | _ => if v5 c then [DISCONNECT] else []
      end).

(* Flags::NEED_READ of the payload channel: bstream::Sender::poll_ready answers Ready *)
Definition need_read (s : ps) : bool :=
  match rdr s with
  | Some p => match pl p with PStream ch => f_need_read ch | PFixed _ => true end
  | None => true
  end.

(* Dispatcher::ready polled while the publish service fails: res1 is Err; with a sender in the slot
   `pl.ready().await` comes first -- Ready at once when the buffer has room, else the future is suspended;
   then (or without a sender) Err(Service) -> io.rs poll_service: READY_ERR, Stop(Error) *)
Definition check_ready (c : cfg) (s : ps) : res (ps * list N) :=
  if failing s && negb (stopped s) && negb (parked s) then
    if slot s && negb (need_read s) then Ok (set_parked s true, [])
    else do_end c s RError
  else Ok (s, []).

(* Dispatcher::call, Decoded::PayloadChunk(buf, eof): buf = n bytes of the counter from offset off *)
Definition feed_chunk (c : cfg) (s : ps) (off n : N) (eof : bool) : res (ps * list N) :=
  if slot s then
    let* s1 := on_rdr s (Feed (count_bytes (N.to_nat n) off)) in
    if eof then
      let* s2 := on_rdr s1 FeedEof in Ok (set_slot s2 false, [])
    else Ok (s1, [])
  else
    (* Err(ProtocolError::Decode(DecodeError::UnexpectedPayload)) *)
    do_end c s RProto.

(* codec, DecodeState::PublishPayload(rem) with [src s] bytes in the buffer *)
Definition decode_more (c : cfg) (s : ps) : res (ps * list N) :=
  match drem s with
  | Some rem =>
    let l := src s in
    if (rem <=? l) || (negb (minc c =? 0) && (minc c <=? l)) then
      let n := N.min l rem in
      let rem' := rem - n in
      feed_chunk c (set_dec s (l - n) (if rem' =? 0 then None else Some rem')) (decl c - rem) n (rem' =? 0)
    else Ok (s, [])
  | None => Ok (s, [])
  end.

(* 1,n: the peer writes the PUBLISH header and the first n payload bytes.  codec, DecodeState::PublishHeader:
   the first piece is what is there when that is the whole payload, or min_chunk_size is 0 or reached; else
   it is empty and the bytes stay in the buffer (they are fewer than both min_chunk_size and the payload:
   PublishPayload hands nothing out either).  Dispatcher::call, Decoded::Publish: whole payload ->
   Payload::from_bytes, else from_stream and the sender goes into the slot; the handler is invoked (and
   gives the payload to the reader task); its PUBACK goes out when it completes *)
Definition op_header (c : cfg) (s : ps) (n : N) : res (ps * list N) :=
  if hdr s then Ok (s, []) else
  let n' := N.min n (decl c) in
  let s0 := set_sent (set_hdr s true) n' in
  if stopped s0 || parked s0 then Ok (s0, []) else
  let whole := (decl c <=? n') || (minc c =? 0) || (minc c <=? n') in
  let first := if whole then n' else 0 in
  let rem := decl c - first in
  let buf := count_bytes (N.to_nat first) 0 in
  let p := if rem =? 0 then init_fixed (rmode c) buf else init_stream (rmode c) buf (maxb c) in
  let s1 := set_slot (set_rdr (set_dec s0 (n' - first) (if rem =? 0 then None else Some rem)) (Some p))
                     (negb (rem =? 0)) in
  if gate s1 then Ok (set_hnd s1 HDone, [PUBACK]) else Ok (set_hnd s1 HRun, []).

(* 2,n: the peer writes more payload bytes (never more than it announced) *)
Definition op_bytes (c : cfg) (s : ps) (n : N) : res (ps * list N) :=
  if negb (hdr s) then Ok (s, []) else
  let k := N.min n (decl c - sent s) in
  let s0 := set_sent s (sent s + k) in
  if stopped s0 || parked s0 then Ok (s0, []) else
  decode_more c (set_dec s0 (src s0 + k) (drem s0)).

(* 3: readiness of the publish service starts failing, the dispatcher is woken *)
Definition op_fail (c : cfg) (s : ps) : res (ps * list N) := check_ready c (set_failing s true).

(* 4: the peer closes: RecvError::PeerGone at the next read; not noticed while the read task is paused *)
Definition op_peer_close (c : cfg) (s : ps) : res (ps * list N) :=
  let s0 := set_pclosed s true in
  if stopped s0 || parked s0 then Ok (s0, []) else do_end c s0 RPeer.

(* 5: MqttSink::close: v5 writes a DISCONNECT first; io.close() -> the dispatcher sees PeerGone(None), also
   in the read pause.  6: MqttSink::force_close: io.terminate() *)
Definition op_close (c : cfg) (s : ps) (force : bool) : res (ps * list N) :=
  if stopped s then Ok (s, []) else
  let* (s1, out) := do_end c s RPeer in
  Ok (s1, (if v5 c && negb force then [DISCONNECT] else []) ++ out).

(* 7: the reader task is polled once; a chunk taken out of a full buffer sets NEED_READ and wakes the
   suspended Dispatcher::ready, which now reports the readiness error *)
Definition op_poll (c : cfg) (s : ps) : res (ps * list N) :=
  match rdr s with
  | Some p =>
    if running (rd p) then
      let* p' := step p Poll in
      let s1 := set_polled (set_rdr s (Some p')) true in
      if parked s1 && need_read s1 then do_end c s1 RError else Ok (s1, [])
    else Ok (s, [])
  | None => Ok (s, [])
  end.

Fixpoint repeat_n (x : N) (n : nat) : list N := match n with O => [] | S m => x :: repeat_n x m end.

(* 8: the handler completes Ok: PUBACK, then the responses that waited behind it *)
Definition op_done (c : cfg) (s : ps) : res (ps * list N) :=
  if gate s then Ok (s, []) else
  let s0 := set_gate s true in
  match hnd s0 with
  | HRun =>
    if stopped s0 then Ok (s0, [])
    else Ok (set_pings (set_hnd s0 HDone) 0, PUBACK :: repeat_n PINGRESP (N.to_nat (pings s0)))
  | _ => Ok (s0, [])
  end.

(* 9: PINGREQ after the whole payload *)
Definition op_ping (c : cfg) (s : ps) : res (ps * list N) :=
  if hdr s && (sent s =? decl c) && negb (stopped s) && negb (parked s) then
    match hnd s with
    | HRun => Ok (set_pings s (pings s + 1), [])
    | _ => Ok (s, [PINGRESP])
    end
  else Ok (s, []).

Inductive pop :=
| OHeader (n : N) | OBytes (n : N) | OFail | OPeerClose | OClose | OForceClose | OPoll | ODone | OPing | ONop.

Definition pstep_raw (c : cfg) (s : ps) (o : pop) : res (ps * list N) :=
  match o with
  | OHeader n => op_header c s n
  | OBytes n => op_bytes c s n
  | OFail => op_fail c s
  | OPeerClose => op_peer_close c s
  | OClose => op_close c s false
  | OForceClose => op_close c s true
  | OPoll => op_poll c s
  | ODone => op_done c s
  | OPing => op_ping c s
  | ONop => Ok (s, [])
  end.

(* a peer that has closed its end receives nothing any more (whether bytes written towards it while the read
   task was paused still arrive depends on the transport) *)
Definition pstep (c : cfg) (s : ps) (o : pop) : res (ps * list N) :=
  let* (s', out) := pstep_raw c s o in
  Ok (s', if pclosed s' then [] else out).

Fixpoint prun (c : cfg) (s : ps) (ops : list pop) : res ps :=
  match ops with
  | [] => Ok s
  | o :: r => let* (s', _) := pstep c s o in prun c s' r
  end.

(* ---- vocabulary of the statements ---- *)
(* reader status as the engines print it: 0 not polled yet, 1 polled and not finished, 2 finished Ok
   (read() answered Ok(None) / read_all() Ok(..)), 3 finished with Err *)
Definition status (s : ps) : N :=
  match rdr s with
  | Some p =>
    if polled s then
      match rd p with Done None => 2 | Done (Some _) => 3 | _ => 1 end
    else 0
  | None => 0
  end.
(* number of payload bytes the reader holds *)
Definition nbytes (s : ps) : N := match rdr s with Some p => len (held p) | None => 0 end.
(* chunks buffered in the payload channel *)
Definition buffered (s : ps) : nat :=
  match rdr s with
  | Some p => match pl p with PStream ch => length (items ch) | PFixed _ => O end
  | None => O
  end.
(* the decoder was still in the middle of the payload: not every announced byte has been fed *)
Definition incomplete (s : ps) : bool := match drem s with Some _ => true | None => false end.
(* k polls of the reader task *)
Fixpoint polls_n (k : nat) : list pop := match k with O => [] | S m => OPoll :: polls_n m end.

(* ---- the engines ---- *)
Definition MAXLEN : N := 1024.
Definition MAXCFG : N := 1048576.

Definition parse_op (f : list N) : pop :=
  match f with
  | [1; n] => OHeader n
  | [2; n] => OBytes n
  | [3] => OFail
  | [4] => OPeerClose
  | [5] => OClose
  | [6] => OForceClose
  | [7] => OPoll
  | [8] => ODone
  | [9] => OPing
  | _ => ONop
  end.

Definition obs_of (s : ps) (out : list N) : list N :=
  [status s; nbytes s; stops s; b2n (negb (stopped s))] ++ out.

(* operation 10 of the engines: the application abandons the payload (the reader task, and with it the `Payload`, is
   dropped): the sender's Weak no longer upgrades, what is fed from now on goes nowhere -- the rest of the payload
   and every later packet are decoded and handled as before.  A Dispatcher::ready suspended in `pl.ready()` is
   released by the drop and reports the readiness error. *)
Definition op_abandon (c : cfg) (s : ps) : res (ps * list N) :=
  (* (a reader that has finished holds nothing to abandon; the engines leave its last status on display) *)
  if stopped s || (2 <=? status s) then Ok (s, []) else
  let s1 := set_rdr s None in
  if parked s1 then
    let* (s2, out) := do_end c s1 RError in Ok (s2, if pclosed s2 then [] else out)
  else Ok (s1, []).

Definition engine_step (c : cfg) (s : ps) (f : list N) : res (ps * list N) :=
  match f with
  | [10] => op_abandon c s
  | _ => pstep c s (parse_op f)
  end.

Fixpoint run_fields (c : cfg) (s : ps) (fs : list (list N)) : res (list (list N)) :=
  match fs with
  | [] => Ok []
  | f :: r =>
    let* (s', out) := engine_step c s f in
    let* rest := run_fields c s' r in
    Ok (obs_of s' out :: rest)
  end.

Definition parse_cfg (is5 : bool) (f : list N) : option cfg :=
  match f with
  | [a; b; d; m] =>
    match m with
    | 0 => Some (mkCfg is5 (N.min a MAXCFG) (N.min b MAXCFG) (N.min d MAXLEN) MLoop)
    | 1 => Some (mkCfg is5 (N.min a MAXCFG) (N.min b MAXCFG) (N.min d MAXLEN) MAll)
    | _ => None
    end
  | _ => None
  end.

Definition run_plstop (is5 : bool) (c : list (list N)) : list (list N) :=
  match c with
  | f :: r =>
    match parse_cfg is5 f with
    | Some cf =>
      match run_fields cf init r with
      | Ok o => o
      | Err _ => [[9998]]
      | Panic _ => [[9999]]
      end
    | None => [[9997]]
    end
  | [] => [[9997]]
  end.

Definition run_plstop3 := run_plstop false.
Definition run_plstop5 := run_plstop true.
