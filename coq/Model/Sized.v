(* Model/Sized.v -- engines 13 "sized3" / 23 "sized5": what the in-flight limiter sees of every item the decoder
   produces (`impl crate::inflight::SizedRequest for Decoded` in src/v3/dispatcher.rs and src/v5/dispatcher.rs):

     size()        the frame's Remaining Length for Decoded::Packet / Decoded::Publish, 0 for a payload chunk
     is_publish()  a PUBLISH whose payload is incomplete (payload_size <> length of the piece that came with it):
                   only such a PUBLISH is followed by payload chunks, which bypass the limits
     is_chunk()    a payload chunk that is not the final one

   The case is that of the decoder engines (10 / 20): [max_size; min_chunk] ; cuts ; stream.  The observation has
   one field per item: kind (1 packet, 2 publish, 3 chunk), size, is_publish, is_chunk; then the same end / error
   field as the decoder engines.  The drivers below are those of EnginesV3 / EnginesV5 with another printer
   (kept separate so that the decoder engines and the theorems about them are untouched).
   This is the `wf_stream` / `KPubStream` / `KChunk` vocabulary of Model/Limiter.v tied to the codec. *)
From MV Require Import Base.Prelude Base.Res Base.VarInt Base.Utf8.
From MV Require Model.CodecV3 Model.CodecV5 Model.EnginesV3 Model.EnginesV5.

Module S3.
  Import CodecV3 EnginesV3.
  Definition sized_item (it : item) : list N :=
    match it with
    | IPacket _ rl => [1; rl; 0; 0]
    | IPublish p payload rl => [2; rl; b2n (negb (p_payload_size p =? len payload)); 0]
    | IChunk _ eof => [3; 0; 0; b2n (negb eof)]
    end.

  Fixpoint drain (fuel : nat) (max_size min_chunk : N) (st : dstate) (buf : bytes) (acc : list (list N))
    : drain_res :=
    match fuel with
    | O => DPanic
    | S k =>
      match decode_step max_size min_chunk st buf with
      | (Ok None, st', buf') => DNeed acc st' buf'
      | (Ok (Some it), st', buf') => drain k max_size min_chunk st' buf' (sized_item it :: acc)
      | (Err e, _, _) => DErr ([4; e] :: acc)
      | (Panic _, _, _) => DPanic
      end
    end.

  Fixpoint feed (max_size min_chunk : N) (ps : list bytes) (st : dstate) (buf : bytes) (acc : list (list N))
    : list (list N) :=
    match ps with
    | [] => rev ([5; len buf; state_tag st] :: acc)
    | p :: r =>
      let buf := buf ++ p in
      match drain (S (S (length buf))) max_size min_chunk st buf acc with
      | DNeed acc' st' buf' => feed max_size min_chunk r st' buf' acc'
      | DErr acc' => rev acc'
      | DPanic => [[9999]]
      end
    end.

  Definition run_sized3 (c : list (list N)) : list (list N) :=
    match c with
    | [[max_size; min_chunk]; cuts; stream] =>
      if (max_size <=? U32MAX) && (min_chunk <=? U32MAX) && bytes_ok stream
      then feed max_size min_chunk (pieces 0 cuts stream) FrameHeader [] []
      else [[97]]
    | _ => [[97]]
    end.
End S3.

Module S5.
  Import CodecV5 EnginesV5.
  Definition sized_item (i : decoded) : list N :=
    match i with
    | DPacket _ rl => [1; rl; 0; 0]
    | DPublish p payload rl => [2; rl; b2n (negb (p_payload_size p =? len payload)); 0]
    | DPayloadChunk _ eof => [3; 0; 0; b2n (negb eof)]
    end.

  Fixpoint drain (fuel : nat) (max_in min_chunk : N) (acc : list (list N)) (st : dstate) (npi : bool)
           (buf : bytes) : drun :=
    match decode_step max_in min_chunk npi st buf with
    | (Ok None, st', npi', buf') => DRun acc st' npi' buf'
    | (Ok (Some i), st', npi', buf') =>
      match fuel with
      | O => DPanic
      | S f => drain f max_in min_chunk (sized_item i :: acc) st' npi' buf'
      end
    | (Err e, _, _, _) => DErr acc e
    | (Panic _, _, _, _) => DPanic
    end.

  Fixpoint feed (max_in min_chunk : N) (pieces : list bytes) (acc : list (list N)) (st : dstate)
           (npi : bool) (buf : bytes) : drun :=
    match pieces with
    | [] => DRun acc st npi buf
    | p :: rest =>
      let buf1 := buf ++ p in
      match drain (S (length buf1)) max_in min_chunk acc st npi buf1 with
      | DRun acc' st' npi' buf' => feed max_in min_chunk rest acc' st' npi' buf'
      | r => r
      end
    end.

  Definition run_sized5 (c : list (list N)) : list (list N) :=
    match c with
    | [[max_in; min_chunk]; cuts; stream] =>
      match feed max_in min_chunk (pieces 0 cuts stream) [] FrameHeader false [] with
      | DRun acc st npi buf => rev acc ++ [[5; len buf; state_tag st; b2n npi]]
      | DErr acc e => rev acc ++ [[4; e]]
      | DPanic => [[9999]]
      end
    | _ => [[99]]
    end.
End S5.

Definition run_sized3 := S3.run_sized3.
Definition run_sized5 := S5.run_sized5.
