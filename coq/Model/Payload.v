(* Model/Payload.v -- the publish payload handed to a handler: /repo/src/payload.rs
     Payload { pl: Either<Cell<Option<Bytes>>, bstream::Receiver<PayloadError>> }
     Payload::{from_bytes, from_stream, read, read_all, take}
   on top of ntex-util 3.6.1 channel/bstream.rs
     Inner { len, flags (EOF | ERROR | NEED_READ | SENDER_GONE), err, items: VecDeque<Bytes>,
             max_buffer_size, recv_task: LocalWaker, send_task: LocalWaker }
     Sender::{feed_data, feed_eof, set_error}, Receiver::{poll_read, max_buffer_size},
     Inner::{feed_data, feed_eof, set_error, get_data}
   as the dispatchers drive it (v3/dispatcher.rs, v5/dispatcher.rs, both client dispatchers):
     Decoded::Publish with an incomplete payload -> Payload::from_stream(first_piece, max_payload_buffer_size),
       the sender is kept;  with the complete payload -> Payload::from_bytes(payload);
     Decoded::PayloadChunk(buf, eof) -> feed_data(buf), then feed_eof() when eof;
     drop_payload(err) -> set_error(err).
   The handler side is one reader task, polled by the operation [Poll]:
     MLoop  a handler that calls `payload.read().await` again and again until it answers Ok(None) or
            Err(_); one [Poll] is one poll of the current `read()` future (Receiver::read is
            `poll_fn(|cx| self.poll_read(cx))`, so a future that answered Pending is polled again and
            a future that answered Ready is followed by a fresh one);
     MAll   `payload.read_all().await`: the async fn it is -- the first `pl.read().await` must yield a
            chunk (None -> Err(Consumed), Some(Err(e)) -> Err(e)), then `while let Some(r) =
            pl.read().await { buf.extend_from_slice(&r?) }`; each poll consumes everything that is
            available and either finishes or is suspended in one of the two `.await`s.
   [Take] is `Payload::take(&mut self)`: possible only while no `read()` / `read_all()` future
   borrows the payload; the reader goes on with the payload that was taken, `self` keeps
   Either::Left(Cell::new(None)).
   Not modelled: SENDER_GONE (the sender lives as long as the case), `send_task` (the waker of
   `Sender::poll_ready`; nothing registers on it here; the NEED_READ flag it reports is modelled),
   Receiver::put.  The additions on `len` cannot overflow (the chunks are in memory).
   Definitions only. *)
From MV Require Import Base.Prelude Base.Res.

(* PayloadError; the observation of the engine prints 1 + code for a reader that finished with Err *)
Definition E_DISCONNECTED : N := 1.
Definition E_CONSUMED : N := 2.
Definition E_SERVICE : N := 3.
Definition E_PROTOCOL : N := 4.
Definition E_FUEL : N := 90.      (* the fuel of [all_loop] ran out: never ([C10pl_total]) *)

(* bstream::Inner<PayloadError> *)
Record chan := mkChan {
  items : list bytes;      (* items: VecDeque<Bytes>, front first *)
  ch_len : N;              (* len *)
  f_eof : bool;            (* Flags::EOF *)
  f_error : bool;          (* Flags::ERROR *)
  f_need_read : bool;      (* Flags::NEED_READ *)
  ch_err : option N;       (* err: Cell<Option<E>> *)
  max_buf : N;             (* max_buffer_size *)
  recv_reg : bool          (* recv_task holds the reader's waker *)
}.

(* bstream::channel(): Inner::new(false); then rx.max_buffer_size(size) *)
Definition chan_new (size : N) : chan := mkChan [] 0 false false true None size false.

Definition set_items (c : chan) (l : list bytes) (n : N) : chan :=
  mkChan l n (f_eof c) (f_error c) (f_need_read c) (ch_err c) (max_buf c) (recv_reg c).
Definition set_eof (c : chan) : chan :=
  mkChan (items c) (ch_len c) true (f_error c) (f_need_read c) (ch_err c) (max_buf c) (recv_reg c).
Definition set_errflag (c : chan) : chan :=
  mkChan (items c) (ch_len c) (f_eof c) true (f_need_read c) (ch_err c) (max_buf c) (recv_reg c).
Definition set_need_read (c : chan) (b : bool) : chan :=
  mkChan (items c) (ch_len c) (f_eof c) (f_error c) b (ch_err c) (max_buf c) (recv_reg c).
Definition set_err (c : chan) (e : option N) : chan :=
  mkChan (items c) (ch_len c) (f_eof c) (f_error c) (f_need_read c) e (max_buf c) (recv_reg c).
Definition set_recv (c : chan) (b : bool) : chan :=
  mkChan (items c) (ch_len c) (f_eof c) (f_error c) (f_need_read c) (ch_err c) (max_buf c) b.

(* recv_task.wake(): take the waker and wake it; the answer says whether there was one *)
Definition recv_wake (c : chan) : chan * bool :=
  if recv_reg c then (set_recv c false, true) else (c, false).

(* Inner::feed_data *)
Definition feed_data (c : chan) (d : bytes) : chan * bool :=
  let n := ch_len c + len d in
  let c1 := set_items c (items c ++ [d]) n in
  let (c2, w) := recv_wake c1 in
  (if max_buf c2 <=? n then set_need_read c2 false else c2, w).

(* Inner::feed_eof *)
Definition feed_eof (c : chan) : chan * bool := recv_wake (set_eof c).

(* Inner::set_error *)
Definition set_error (c : chan) (e : N) : chan * bool := recv_wake (set_errflag (set_err c (Some e))).

(* Inner::get_data *)
Definition get_data (c : chan) : res (option (bytes * chan)) :=
  match items c with
  | [] => Ok None
  | d :: r =>
    let* n := sub_chk (ch_len c) (len d) in
    let c1 := set_items c r n in
    Ok (Some (d, if n <? max_buf c1 then set_need_read c1 true else c1))
  end.

(* what one poll of a `read()` future answers *)
Inductive rres :=
| RPending
| RSome (d : bytes)      (* bstream: Ready(Some(Ok(d)));  Payload::read: Ok(Some(d)) *)
| RNone                  (* bstream: Ready(None);         Payload::read: Ok(None) *)
| RErr (e : N).          (* bstream: Ready(Some(Err(e))); Payload::read: Err(e) *)

(* Receiver::poll_read *)
Definition poll_read (c : chan) : res (rres * chan) :=
  let* g := get_data c in
  match g with
  | Some (d, c1) => Ok (RSome d, c1)
  | None =>
    match ch_err c with
    | Some e => Ok (RErr e, set_eof (set_err c None))
    | None =>
      if f_eof c || f_error c then Ok (RNone, c)
      else Ok (RPending, set_recv c true)
    end
  end.

(* Payload.pl *)
Inductive payload :=
| PFixed (o : option bytes)     (* Either::Left(Cell<Option<Bytes>>) *)
| PStream (c : chan).           (* Either::Right(bstream::Receiver) *)

(* Payload::from_bytes *)
Definition from_bytes (buf : bytes) : payload := PFixed (Some buf).

(* Payload::from_stream (the sender it returns is the access of the feeding operations to the channel) *)
Definition from_stream (buf : bytes) (size : N) : payload :=
  let c := chan_new size in
  PStream (match buf with [] => c | _ => fst (feed_data c buf) end).

(* one poll of Payload::read *)
Definition pl_read (p : payload) : res (rres * payload) :=
  match p with
  | PFixed o => Ok (match o with Some b => RSome b | None => RNone end, PFixed None)
  | PStream c => let* (r, c') := poll_read c in Ok (r, PStream c')
  end.

(* Payload::take: (the payload returned, what `self` keeps) *)
Definition pl_take (p : payload) : payload * payload := (p, PFixed None).

Inductive mode := MLoop | MAll.

(* where the reader task is *)
Inductive rstate :=
| LoopIdle                 (* MLoop: between two `read()` calls *)
| LoopWait                 (* MLoop: the current `read()` future answered Pending *)
| AllNew                   (* MAll: the `read_all()` future has not been polled *)
| AllFirst                 (* MAll: suspended in the first `pl.read().await` *)
| AllLoop (buf : bytes)    (* MAll: suspended in the `pl.read().await` of the while loop *)
| Done (r : option N).     (* finished: None = Ok, Some e = Err(e) *)

Record st := mkSt {
  md : mode;
  pl : payload;
  rd : rstate;
  got : list bytes;        (* what the handler holds: MLoop the chunks `read()` returned, oldest first;
                              MAll [r] once read_all returned Ok(r) *)
  woken : bool             (* the reader's waker has been woken since its last poll *)
}.

Definition set_pl (s : st) (p : payload) : st := mkSt (md s) p (rd s) (got s) (woken s).
Definition set_rd (s : st) (r : rstate) : st := mkSt (md s) (pl s) r (got s) (woken s).
Definition set_got (s : st) (g : list bytes) : st := mkSt (md s) (pl s) (rd s) g (woken s).
Definition set_woken (s : st) (b : bool) : st := mkSt (md s) (pl s) (rd s) (got s) b.

Definition start_of (m : mode) : rstate := match m with MLoop => LoopIdle | MAll => AllNew end.
Definition init_stream (m : mode) (first : bytes) (size : N) : st :=
  mkSt m (from_stream first size) (start_of m) [] false.
Definition init_fixed (m : mode) (buf : bytes) : st :=
  mkSt m (from_bytes buf) (start_of m) [] false.

(* a `read()` / `read_all()` future that borrows the payload exists *)
Definition borrowed (r : rstate) : bool :=
  match r with LoopWait | AllFirst | AllLoop _ => true | _ => false end.
Definition running (r : rstate) : bool := match r with Done _ => false | _ => true end.

(* the operations of the sender: it holds a Weak to the channel of a streamed payload; a fixed
   payload has no sender *)
Definition on_chan (s : st) (f : chan -> chan * bool) : st :=
  match pl s with
  | PStream c => let (c', w) := f c in set_woken (set_pl s (PStream c')) (woken s || w)
  | PFixed _ => s
  end.

(* read_all, the while loop: `while let Some(result) = pl.read().await { buf.extend_from_slice(&result?) }
   Ok(buf.freeze())`; answers (where the task is now, the channel, what the handler was given) *)
Fixpoint all_loop (fuel : nat) (c : chan) (buf : bytes) : res (rstate * chan * list bytes) :=
  match fuel with
  | O => Err E_FUEL
  | S f =>
    let* (r, c') := poll_read c in
    match r with
    | RPending => Ok (AllLoop buf, c', [])
    | RSome d => all_loop f c' (buf ++ d)
    | RNone => Ok (Done None, c', [buf])
    | RErr e => Ok (Done (Some e), c', [])
    end
  end.
Definition loop_fuel (c : chan) : nat := S (length (items c)).

(* read_all from its start (or resumed in the first await, which re-polls the same read) *)
Definition all_first (p : payload) : res (rstate * payload * list bytes) :=
  match p with
  | PFixed o =>
    (* pl.take().ok_or(PayloadError::Consumed) *)
    match o with
    | Some b => Ok (Done None, PFixed None, [b])
    | None => Ok (Done (Some E_CONSUMED), PFixed None, [])
    end
  | PStream c =>
    (* BytesMut::from(pl.read().await.ok_or(PayloadError::Consumed)??) *)
    let* (r, c') := poll_read c in
    match r with
    | RPending => Ok (AllFirst, PStream c', [])
    | RNone => Ok (Done (Some E_CONSUMED), PStream c', [])
    | RErr e => Ok (Done (Some e), PStream c', [])
    | RSome d =>
      let* (t, g) := all_loop (loop_fuel c') c' d in
      let (r', c2) := t in Ok (r', PStream c2, g)
    end
  end.

(* one poll of the reader task *)
Definition step_poll (s : st) : res st :=
  match rd s with
  | Done _ => Ok s                                   (* a finished task is not polled *)
  | LoopIdle | LoopWait =>
    let s0 := set_woken s false in
    let* (r, p) := pl_read (pl s0) in
    let s1 := set_pl s0 p in
    Ok (match r with
        | RPending => set_rd s1 LoopWait
        | RSome d => set_got (set_rd s1 LoopIdle) (got s1 ++ [d])
        | RNone => set_rd s1 (Done None)
        | RErr e => set_rd s1 (Done (Some e))
        end)
  | AllNew | AllFirst =>
    let s0 := set_woken s false in
    let* (t, g) := all_first (pl s0) in
    let (r, p) := t in
    Ok (set_got (set_rd (set_pl s0 p) r) g)
  | AllLoop buf =>
    let s0 := set_woken s false in
    match pl s0 with
    | PStream c =>
      let* (t, g) := all_loop (loop_fuel c) c buf in
      let (r, c') := t in
      Ok (set_got (set_rd (set_pl s0 (PStream c')) r) g)
    | PFixed _ => Ok s0                              (* not reachable: the loop belongs to the stream arm *)
    end
  end.

(* Payload::take by the handler, which goes on with the payload it took *)
Definition step_take (s : st) : st :=
  if borrowed (rd s) then s else set_pl s (fst (pl_take (pl s))).

Inductive op :=
| Feed (d : bytes)        (* Sender::feed_data(d) *)
| FeedEof                 (* Sender::feed_eof() *)
| SetError (e : N)        (* Sender::set_error(e) *)
| Poll                    (* the reader task is polled once *)
| Take.                   (* the handler moves the payload out with Payload::take *)

Definition step (s : st) (o : op) : res st :=
  match o with
  | Feed d => Ok (on_chan s (fun c => feed_data c d))
  | FeedEof => Ok (on_chan s feed_eof)
  | SetError e => Ok (on_chan s (fun c => set_error c e))
  | Poll => step_poll s
  | Take => Ok (step_take s)
  end.

Fixpoint run_from (s : st) (ops : list op) : res st :=
  match ops with
  | [] => Ok s
  | o :: r => let* s' := step s o in run_from s' r
  end.

(* a streamed payload (Payload::from_stream(first, size)), its reader in mode m, after the operations *)
Definition run (m : mode) (first : bytes) (size : N) (ops : list op) : res st :=
  run_from (init_stream m first size) ops.

(* ---- vocabulary of the statements ---- *)
(* the chunks put into the channel: the first piece (from_stream skips an empty one) and every Feed *)
Definition first_chunks (first : bytes) : list bytes := match first with [] => [] | _ => [first] end.
Fixpoint fed_ops (ops : list op) : list bytes :=
  match ops with
  | [] => []
  | Feed d :: r => d :: fed_ops r
  | _ :: r => fed_ops r
  end.
Definition fed_chunks (first : bytes) (ops : list op) : list bytes := first_chunks first ++ fed_ops ops.
Definition fed_bytes (first : bytes) (ops : list op) : bytes := concat (fed_chunks first ops).

Definition is_feed_eof (o : op) : bool := match o with FeedEof => true | _ => false end.
Definition is_set_error (o : op) : bool := match o with SetError _ => true | _ => false end.
Definition is_poll (o : op) : bool := match o with Poll => true | _ => false end.
Definition is_feed (o : op) : bool := match o with Feed _ => true | _ => false end.
Definition eof_fed (ops : list op) : bool := existsb is_feed_eof ops.
Definition polls (ops : list op) : nat := length (filter is_poll ops).

(* the dispatchers give the sender away with the final chunk: nothing is fed after feed_eof *)
Fixpoint feeds_end_at_eof (ops : list op) : bool :=
  match ops with
  | [] => true
  | FeedEof :: r => negb (existsb is_feed r) && feeds_end_at_eof r
  | _ :: r => feeds_end_at_eof r
  end.

(* the bytes the handler holds *)
Definition held (s : st) : bytes := concat (got s).

Definition chan_of (s : st) : option chan := match pl s with PStream c => Some c | PFixed _ => None end.
(* the reader is suspended and a poll now would not answer Pending *)
Definition can_progress (c : chan) : bool :=
  match items c with [] => false | _ => true end || match ch_err c with Some _ => true | None => false end
  || f_eof c || f_error c.

(* ---- engine "payload" (number 41): see harness/src/engines/payload.rs for the case syntax ---- *)
Definition MAXLEN : N := 4096.

(* n bytes of the running counter c, c+1, .. (mod 256) *)
Fixpoint count_bytes (n : nat) (c : N) : bytes :=
  match n with
  | O => []
  | S m => (c mod 256) :: count_bytes m (c + 1)
  end.

Definition status_of (r : rstate) : N :=
  match r with
  | Done None => 1
  | Done (Some e) => 1 + e
  | _ => 0
  end.

(* the probe of what `self` keeps after take(): read() polled once must answer Ok(None) and
   read_all() polled once Err(Consumed) *)
Definition remnant_ok (p : payload) : bool :=
  match pl_read p with
  | Ok (RNone, p1) =>
    match all_first p1 with
    | Ok (Done (Some e), _, []) => e =? E_CONSUMED
    | _ => false
    end
  | _ => false
  end.

Definition obs_of (s : st) (rem : N) : list N :=
  [status_of (rd s); b2n (woken s); rem; N.of_nat (length (got s))] ++ held s.

(* (operation, remnant code, bytes used from the counter) *)
Definition op_of_field (s : st) (ctr : N) (f : list N) : option op * N * N :=
  match f with
  | [1; n] => let n' := N.min n MAXLEN in (Some (Feed (count_bytes (N.to_nat n') ctr)), 0, n')
  | [2] => (Some FeedEof, 0, 0)
  | [3] => (Some (SetError E_DISCONNECTED), 0, 0)
  | [4] => (Some Poll, 0, 0)
  | [5] => (Some Take,
            if borrowed (rd s) then 0 else if remnant_ok (snd (pl_take (pl s))) then 1 else 2, 0)
  | _ => (None, 0, 0)
  end.

Fixpoint run_fields (s : st) (ctr : N) (c : list (list N)) : res (list (list N)) :=
  match c with
  | [] => Ok []
  | f :: r =>
    let '(o, rem, used) := op_of_field s ctr f in
    let* s' := match o with Some o => step s o | None => Ok s end in
    let* rest := run_fields s' (ctr + used) r in
    Ok (obs_of s' rem :: rest)
  end.

Definition run_payload (c : list (list N)) : list (list N) :=
  match c with
  | [m; size; n] :: r =>
    let n' := N.min n MAXLEN in
    let first := count_bytes (N.to_nat n') 0 in
    let init :=
      match m with
      | 0 => Some (init_stream MLoop first size)
      | 1 => Some (init_stream MAll first size)
      | 2 => Some (init_fixed MLoop first)
      | 3 => Some (init_fixed MAll first)
      | _ => None
      end in
    match init with
    | Some s =>
      match run_fields s n' r with
      | Ok o => o
      | Err _ => [[9998]]
      | Panic _ => [[9999]]
      end
    | None => [[9997]]
    end
  | _ => [[9997]]
  end.
