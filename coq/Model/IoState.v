(* Model/IoState.v -- the connection life-cycle state machine of /repo/src/io.rs:
     Dispatcher::poll (IoDispatcherState::{Processing, Backpressure, Stop, Shutdown, ShutdownIo}),
     DispatcherInner::{stop, poll_service}, the flags READY_ERR / IO_ERR, DispatcherState.error,
     the `stopping` Condition.
   One event = the answers the environment gives to the queries of ONE iteration of the `loop`
   in Dispatcher::poll (or, for EvHandler / EvControlReadyErr, of the code in front of the loop).
   A query that answers Poll::Pending and makes `poll` return is the absence of an event.
   Definitions only. *)
From MV Require Import Base.Prelude.

Inductive iostate := Processing | Backpressure | Stop | Shutdown | ShutdownIo | Finished.

(* DispatcherState.error: IoDispatcherError::{Service(DispatcherError::Service),
   Service(DispatcherError::Protocol), Encoder} *)
Inductive herr := HSvcErr | HProtoErr | HEncErr.

(* DispatcherInner::handle_timeout: Ok(()) | Err(KeepAliveTimeout) | Err(ReadTimeout) *)
Inductive tres := TOk | TKeepAlive | TRead.

(* io.poll_recv_decode (service ready): Ok(item) | Ok(no item) | Err(KeepAlive) + handle_timeout |
   Err(WriteBackpressure) | Err(Decoder) | Err(PeerGone) *)
Inductive recv_res := RvItem | RvNone | RvTimer (t : tres) | RvWrBack | RvDecodeErr | RvPeerGone.

(* io.poll_read_pause: Pending | KeepAlive | PeerGone | WriteBackpressure *)
Inductive pause_res := PPending | PKeepAlive | PPeerGone | PWrBack.

(* service.poll_ready other than Ready(Ok): Pending (then poll_read_pause) | Err(Service) | Err(Protocol) *)
Inductive ready_res := RNotReady (u : pause_res) | RErrSvc | RErrProto.

Inductive event :=
| EvRecv (v : recv_res)        (* Processing: service.poll_ready = Ready(Ok), then poll_recv_decode = v *)
| EvService (r : ready_res)    (* Processing, or Backpressure after poll_flush = Ready(Ok), or Stop:
                                  service.poll_ready = r *)
| EvFlush (ok : bool)          (* Backpressure: poll_flush = Ready(Ok) and service ready | Ready(Err) *)
| EvHandler (e : herr)         (* handle_result / call_service stored an error in DispatcherState.error *)
| EvControlReadyErr            (* control.poll_ready = Ready(Err): `ready!(..)?` returns at once *)
| EvControl (ok : bool)        (* Stop: the Stop control call future = Ready(Ok _ | Err _) *)
| EvSvcShutdown                (* Shutdown: service.poll_shutdown = Ready *)
| EvIoShutdown.                (* ShutdownIo: io.poll_shutdown = Ready *)

Inductive ctl := StopProtocol | StopError | StopPeerGone | Wr (b : bool).

Inductive output :=
| CallControl (c : ctl)        (* control.call(..): Stop is polled by the dispatcher, Wr is spawned *)
| Dispatch                     (* call_service(item) *)
| NotifyStopping               (* stopping.notify(): spawned handler tasks are released *)
| Done (ok : bool).            (* poll returns Ready(Ok(()) | Err(_)) *)

Record st := mkSt {
  phase : iostate;
  ready_err : bool;            (* Flags::READY_ERR *)
  io_err : bool;               (* Flags::IO_ERR -- read in ShutdownIo, set by no code path *)
  err : option herr;           (* DispatcherState.error *)
  result : bool                (* Shutdown(Some(Ok(())|Err(_))) / ShutdownIo(..): the value poll returns *)
}.

Definition io_init : st := mkSt Processing false false None true.

Definition set_phase (s : st) (p : iostate) : st := mkSt p (ready_err s) (io_err s) (err s) (result s).

Definition reason_of_err (h : herr) : ctl :=
  match h with HSvcErr => StopError | HProtoErr => StopProtocol | HEncErr => StopProtocol end.

(* DispatcherInner::stop(control.call(c)) *)
Definition stop_with (s : st) (c : ctl) : st * list output := (set_phase s Stop, [CallControl c]).

(* poll_service, first part: `if let Some(err) = self.state.error.take()` *)
Definition take_err (s : st) : option (st * list output) :=
  match err s with
  | Some h => Some (mkSt Stop (ready_err s) (io_err s) None (result s), [CallControl (reason_of_err h)])
  | None => None
  end.

(* poll_service, second part: service.poll_ready is not Ready(Ok) *)
Definition on_ready_res (s : st) (r : ready_res) : st * list output :=
  match r with
  | RNotReady PPending => (s, [])
  | RNotReady PKeepAlive => stop_with s StopProtocol
  | RNotReady PPeerGone => stop_with s StopPeerGone
  | RNotReady PWrBack => (set_phase s Backpressure, [CallControl (Wr true)])
  | RErrSvc => stop_with (mkSt (phase s) true (io_err s) (err s) (result s)) StopError
  | RErrProto => stop_with s StopProtocol
  end.

Definition poll_service (s : st) (r : ready_res) : st * list output :=
  match take_err s with Some x => x | None => on_ready_res s r end.

Definition on_recv (s : st) (v : recv_res) : st * list output :=
  match v with
  | RvItem => (s, [Dispatch])
  | RvNone => (s, [])
  | RvTimer TOk => (s, [])
  | RvTimer TKeepAlive => stop_with s StopProtocol
  | RvTimer TRead => stop_with s StopProtocol
  | RvWrBack => (set_phase s Backpressure, [CallControl (Wr true)])
  | RvDecodeErr => stop_with s StopProtocol
  | RvPeerGone => stop_with s StopPeerGone
  end.

Definition io_step (s : st) (e : event) : st * list output :=
  match phase s with
  | Finished => (s, [])
  | ph =>
    match e with
    | EvControlReadyErr => (mkSt Finished (ready_err s) (io_err s) (err s) false, [Done false])
    | EvHandler h => (mkSt (phase s) (ready_err s) (io_err s) (Some h) (result s), [])
    | _ =>
      match ph with
      | Processing =>
        match e with
        | EvRecv v => match take_err s with Some x => x | None => on_recv s v end
        | EvService r => poll_service s r
        | _ => (s, [])
        end
      | Backpressure =>
        match e with
        | EvFlush false => stop_with s StopPeerGone
        | EvFlush true =>
          match take_err s with
          | Some x => x
          | None => (set_phase s Processing, [CallControl (Wr false)])
          end
        | EvService r => poll_service s r
        | _ => (s, [])
        end
      | Stop =>
        match e with
        | EvService RErrSvc | EvService RErrProto =>
          (mkSt Stop true (io_err s) (err s) (result s), [])
        | EvControl ok => (mkSt Shutdown (ready_err s) (io_err s) (err s) ok, [])
        | _ => (s, [])
        end
      | Shutdown =>
        match e with
        | EvSvcShutdown =>
          if io_err s then (set_phase s Finished, [NotifyStopping; Done (result s)])
          else (set_phase s ShutdownIo, [NotifyStopping])
        | _ => (s, [])
        end
      | ShutdownIo =>
        match e with
        | EvIoShutdown => (set_phase s Finished, [Done (result s)])
        | _ => (s, [])
        end
      | Finished => (s, [])
      end
    end
  end.

(* a run: the states visited and everything output *)
Fixpoint io_run (s : st) (evs : list event) : st * list output :=
  match evs with
  | [] => (s, [])
  | e :: r =>
    let '(s1, o1) := io_step s e in
    let '(s2, o2) := io_run s1 r in
    (s2, o1 ++ o2)
  end.

Definition io_final (s : st) (evs : list event) : st := fst (io_run s evs).
Definition io_outputs (s : st) (evs : list event) : list output := snd (io_run s evs).

Definition is_stop_call (o : output) : bool :=
  match o with
  | CallControl StopProtocol | CallControl StopError | CallControl StopPeerGone => true
  | _ => false
  end.
Definition is_done (o : output) : bool := match o with Done _ => true | _ => false end.
Definition is_notify (o : output) : bool := match o with NotifyStopping => true | _ => false end.
Definition is_dispatch (o : output) : bool := match o with Dispatch => true | _ => false end.
Definition is_wr (o : output) : bool := match o with CallControl (Wr _) => true | _ => false end.

Definition count_stops (l : list output) : nat := length (filter is_stop_call l).

Definition live (p : iostate) : bool := match p with Processing | Backpressure => true | _ => false end.

(* the Stop reason an event causes by itself (no stored handler error) *)
Definition cause (e : event) : option ctl :=
  match e with
  | EvRecv RvDecodeErr => Some StopProtocol
  | EvRecv (RvTimer TKeepAlive) => Some StopProtocol
  | EvRecv (RvTimer TRead) => Some StopProtocol
  | EvRecv RvPeerGone => Some StopPeerGone
  | EvService (RNotReady PKeepAlive) => Some StopProtocol
  | EvService (RNotReady PPeerGone) => Some StopPeerGone
  | EvService RErrSvc => Some StopError
  | EvService RErrProto => Some StopProtocol
  | EvFlush false => Some StopPeerGone
  | _ => None
  end.

(* the handler error stored last *)
Fixpoint last_err (acc : option herr) (evs : list event) : option herr :=
  match evs with
  | [] => acc
  | EvHandler h :: r => last_err (Some h) r
  | _ :: r => last_err acc r
  end.

Definition is_ctl_ready_err (e : event) : bool := match e with EvControlReadyErr => true | _ => false end.
