(* Model/Inbound.v -- executable model of the inbound protocol logic of an endpoint: what it does with
   every packet the peer sends after the handshake.  Four roles:
     v3 / v5 SERVER  engines "inb3" = 33, "inb5" = 34   [run_inb3] [run_inb5]
     v3 / v5 CLIENT  engines "cli3" = 39, "cli5" = 40   [run_cli3] [run_cli5]  (section "client roles":
       src/v3/client/dispatcher.rs, src/v5/client/dispatcher.rs, the router of client/connection.rs;
       no BufferService: protocol-service calls run concurrently; v3 wraps the dispatcher in ntex-util's
       InFlightService(max_receive), v5 has no limiter, only the receive-maximum check)
   Case syntax: harness/src/engines/inbound.rs.

   Modelled Rust (line by line where the code is protocol logic, as an abstract machine where it
   is plumbing), tree d435312:
     src/v3/dispatcher.rs, src/v5/dispatcher.rs   Service<Decoded>::call ([body3] / [body5]), publish_fn
                                                   ([handler_result]), Inner::control / control_pkt
                                                   ([ctl_result]), ready ([r1_poll], [gate]), shutdown
     src/v3/default.rs, src/v5/default.rs          DefaultProtocolService ([ack3]/[ack5] with res = 9),
                                                   ControlService::call for Control::Stop ([do_stop])
     src/v3/control.rs, src/v5/control.rs          ProtocolMessage::ack and the typed acks ([ack3]/[ack5])
     src/inflight.rs                               InFlightServiceImpl ([lim_inc]/[lim_dec]; v5: cap 0)
     src/error.rs, v5/codec/packet/disconnect.rs   reason code of a protocol error (the numbers in
                                                   [proto_err]: 130 = 0x82, 147 = 0x93, 148 = 0x94, 155 = 0x9B)
     src/io.rs                                     Dispatcher::poll ([d_poll]/[d_loop]), call_service
                                                   ([d_call_service]), composed with Model/RespQueue.v for
                                                   the order in which responses reach the wire
   plus the parts of ntex-util / ntex-service / ntex-io / ntex-rt the observable behaviour depends on:
     BufferService(16)+InFlightService(1) around the protocol service ([bs_ready0]: the next_call
       guard (phase A), the poll_fn (phase B), the `ready` flag; three readiness checks in a row before
       BufferService::call because of the ServiceChain/MapErr layers: [ctl_enter]; flush on shutdown:
       [shut_flush]); Counter waker ([w_cnt]: LocalWaker keeps the last registrant);
     the shared readiness of ntex_service::Pipeline (WaitersRef::run / notify): ownership of the
       check and parked wakers for the io-service pipeline ([sp_cur], [sp_wakers]), for the control
       pipeline ([w_ctl]) and for BufferService's inner pipeline ([ip_cur], [ip_wakers]);
     the FIFO run queue of the single-threaded executor ([runq], [wake]: a task woken while it runs
       is re-queued after its poll), spawned response tasks with select(call, stopping) ([ts_poll];
       Condition slab keys: [cfree]), the dispatcher's yield after a spawn;
     ntex-io: dispatch-task waker ([disp_reg]), read pause / resume (every decode attempt resumes a
       paused read), the Iops write task ([TW]), graceful close ([closing] -> [stopped]): writes are
       dropped from the moment close() was called.
   Wakers are modelled because lost wake-ups and busy loops of the real code are observable.  A busy
   loop of the dispatcher (it re-wakes itself in every poll) burns the fuel of [run_all] and leaves
   the dispatcher in the run queue, exactly as the harness' settle() leaves it runnable.

   Not modelled: streamed payloads (every generated PUBLISH is complete: no PayloadChunk, the
   payload-sender slot stays empty), timers / keep-alive, write back-pressure, BufferService overflow
   (more than 16 waiting control messages), maximum packet sizes, retain-not-available.
   Definitions only. *)
From MV Require Import Base.Prelude Model.RespQueue.

(* ------------------------------------------------------------------ small list helpers *)
Fixpoint memN (x : N) (l : list N) : bool :=
  match l with [] => false | y :: r => (x =? y) || memN x r end.
Fixpoint remN (x : N) (l : list N) : list N :=
  match l with [] => [] | y :: r => if x =? y then remN x r else y :: remN x r end.
Definition addN (x : N) (l : list N) : list N := if memN x l then l else l ++ [x].
Fixpoint assocN (k : N) (l : list (N * N)) : option N :=
  match l with [] => None | (a, b) :: r => if a =? k then Some b else assocN k r end.
Fixpoint assoc_set (k v : N) (l : list (N * N)) : list (N * N) :=
  match l with
  | [] => [(k, v)]
  | (a, b) :: r => if a =? k then (a, v) :: r else (a, b) :: assoc_set k v r
  end.
Fixpoint assoc_del (k : N) (l : list (N * N)) : list (N * N) :=
  match l with [] => [] | (a, b) :: r => if a =? k then r else (a, b) :: assoc_del k r end.

(* ------------------------------------------------------------------ packets *)
Inductive pkt :=
| KPublish (qos id topic alias retain plen : N)
| KPuback (id : N) | KPubrec (id : N) | KPubrel (id : N) | KPubcomp (id : N)
| KSubscribe (id f : N) | KUnsubscribe (id f : N)
| KPing | KDisconnect (reason se : N) | KAuth
| KAck2                    (* SUBACK, UNSUBACK: ignored by a server, an acknowledgement for a client *)
| KOther                   (* PINGRESP, CONNECT, CONNACK: decoded, ignored *)
| KBad (reason : N).       (* does not decode: ProtocolError::Decode, v5 reason code *)

Definition nth0 (l : list N) (n : nat) : N := nth n l 0.

(* op field [1; tpl; args...] -> the packet the codec decodes *)
Definition parse_pkt (v5 : bool) (f : list N) : pkt :=
  let a := fun n => nth0 f n in
  match a 1%nat with
  | 1 => if (0 <? a 2%nat) && (a 3%nat =? 0) then KBad 131
         else KPublish (a 2%nat) (if a 2%nat =? 0 then 0 else a 3%nat) (a 4%nat)
                       (if v5 then a 5%nat else 0) (a 6%nat) (a 7%nat)
  | 2 => KPuback (a 2%nat)
  | 3 => KPubrec (a 2%nat)
  | 4 => KPubrel (a 2%nat)
  | 5 => KPubcomp (a 2%nat)
  | 6 => KSubscribe (a 2%nat) (a 3%nat)
  | 7 => KUnsubscribe (a 2%nat) (a 3%nat)
  | 8 => KPing
  | 9 => if v5 then KDisconnect (a 2%nat) (a 3%nat) else KDisconnect 0 0
  | 10 => if v5 then KAuth else KBad 131
  | 11 => KAck2
  | 12 => KAck2
  | _ => KOther
  end.

(* ------------------------------------------------------------------ tasks, calls *)
Inductive task := TD | TIO | TW | TS (id : N).
Definition task_eqb (a b : task) : bool :=
  match a, b with
  | TD, TD => true | TIO, TIO => true | TW, TW => true | TS x, TS y => x =? y | _, _ => false
  end.
Fixpoint mem_task (t : task) (l : list task) : bool :=
  match l with [] => false | x :: r => task_eqb t x || mem_task t r end.

Inductive errk := EProto (reason : N) | EServ.
Inductive cres := RNone | RSome (t id r : N) | RErr (e : errk).

Definition cmsg := (N * N)%type.            (* protocol message: (kind, packet id or 0) *)

Inductive cstate :=
| CInit (p : pkt)                           (* spawned, never polled *)
| CGate (p : pkt) (w : option N)            (* ctx.call(&Dispatcher): waiting for the readiness check *)
| CHandler (h q2 id : N)                    (* awaiting publish handler invocation h *)
| CCtlA (m : cmsg) (o : N) (n : nat)        (* readiness check n of control.call() waits on the guard of call o *)
| CBuf (m : cmsg)                           (* BufferService::call: waiting in the buffer *)
| CRel (m : cmsg)                           (* released (holds the next_call guard), not polled yet *)
| CWaitCnt (m : cmsg) (g : bool)            (* waiting for InFlightService(1) capacity *)
| CProto (c : N) (m : cmsg) (g : bool)      (* awaiting protocol service invocation c *)
| CLimWait (p : pkt).                       (* v3 client: InFlightService::call waits for capacity *)

Record call := mkCall { cid : N; cst : cstate; clim : bool; chost : task; ckey : N }.

Inductive owner := OBind | OCall (id : N).
Inductive rd := RDfresh | RDwait (o : N) | RDdone.
Inductive r1state := RIdle | RRun (need_lim lim_done : bool) (d : rd).
Inductive shstate := ShInit | ShWaitA (o : N) | ShFlush (o : option N).
Inductive dstate := DProc | DShut (s : shstate) | DShutIo | DDone.

(* ------------------------------------------------------------------ state *)
Record cfg := mkCfg {
  v5 : bool; max_qos : N; rmax : N; amax : N; lcap : N; pmode : N;
  role : N;                          (* 0 = server, 1 = client *)
  route : bool;                      (* client: ClientRouter with resources t1, t2 *)
  zse : bool;                        (* v5 server: the CONNECT asked for session expiry 0 (Flags::ZERO_SES_EXPIRY) *)
  hqad : N }.                        (* MqttServiceConfig::handle_qos_after_disconnect: 0 = None, q + 1 = Some(q) *)

Record pst := mkPst {               (* protocol state: dispatcher.rs Inner / PublishInfo, shared flags *)
  inflight : list N; publishes : list N; pubrel : list N; aliases : list (N * N);
  dsent : bool; drecv : bool }.

Record bst := mkBst {               (* BufferService + InFlightService(1) + limiter *)
  buf : list N; cnt : N; nextc : option N; bready : bool;
  w_cnt : option task; lim : N; w_lim : option task;
  ip_cur : option owner;            (* WaitersRef of BufferService's inner pipeline: owner of the check *)
  ip_wakers : list (N * task);      (*   ... wakers to notify, one slot per pipeline index (0 = binding, k = call k) *)
  nwak : list (N * task);           (* next_call receiver of call o: the task that polled it last *)
  w_ctl : option task }.            (* waker stored in the WaitersRef of the `inner.control` pipeline *)

Record ist := mkIst {               (* io *)
  chan : list pkt; rbuf : list pkt; rpaused : bool; closing : bool; stopped : bool;
  disp_reg : bool; wpaused : bool; wsched : bool; wire : list N }.

Record sst := mkSst {               (* scheduler, dispatcher *)
  runq : list task; cur : option task; self_woken : bool;
  calls : list call; nreq : N; r1 : r1state; sp_cur : option owner; sp_wakers : list task;
  dst : dstate; stopping : bool; lasterr : errk; qerrs : list errk;
  cfree : list N; cslen : N }.        (* slab of the `stopping` Condition: free list, number of slots *)

Record lst := mkLst {               (* logs, gates *)
  hlog : list N; plog : list N; nh : N; np : N; stop1 : N; stops : N;
  hgate : list (N * N); pgate : list (N * N) }.

Record st := mkSt { c_ : cfg; p_ : pst; b_ : bst; i_ : ist; s_ : sst; l_ : lst; q_ : rq }.

Definition up_p (f : pst -> pst) (s : st) := mkSt (c_ s) (f (p_ s)) (b_ s) (i_ s) (s_ s) (l_ s) (q_ s).
Definition up_b (f : bst -> bst) (s : st) := mkSt (c_ s) (p_ s) (f (b_ s)) (i_ s) (s_ s) (l_ s) (q_ s).
Definition up_i (f : ist -> ist) (s : st) := mkSt (c_ s) (p_ s) (b_ s) (f (i_ s)) (s_ s) (l_ s) (q_ s).
Definition up_s (f : sst -> sst) (s : st) := mkSt (c_ s) (p_ s) (b_ s) (i_ s) (f (s_ s)) (l_ s) (q_ s).
Definition up_l (f : lst -> lst) (s : st) := mkSt (c_ s) (p_ s) (b_ s) (i_ s) (s_ s) (f (l_ s)) (q_ s).
Definition set_q (q : rq) (s : st) := mkSt (c_ s) (p_ s) (b_ s) (i_ s) (s_ s) (l_ s) q.

Definition p_inflight v (x : pst) := mkPst v (publishes x) (pubrel x) (aliases x) (dsent x) (drecv x).
Definition p_publishes v (x : pst) := mkPst (inflight x) v (pubrel x) (aliases x) (dsent x) (drecv x).
Definition p_pubrel v (x : pst) := mkPst (inflight x) (publishes x) v (aliases x) (dsent x) (drecv x).
Definition p_aliases v (x : pst) := mkPst (inflight x) (publishes x) (pubrel x) v (dsent x) (drecv x).
Definition p_dsent v (x : pst) := mkPst (inflight x) (publishes x) (pubrel x) (aliases x) v (drecv x).
Definition p_drecv v (x : pst) := mkPst (inflight x) (publishes x) (pubrel x) (aliases x) (dsent x) v.

Definition b_buf v (x : bst) := mkBst v (cnt x) (nextc x) (bready x) (w_cnt x) (lim x) (w_lim x) (ip_cur x) (ip_wakers x) (nwak x) (w_ctl x).
Definition b_cnt v (x : bst) := mkBst (buf x) v (nextc x) (bready x) (w_cnt x) (lim x) (w_lim x) (ip_cur x) (ip_wakers x) (nwak x) (w_ctl x).
Definition b_nextc v (x : bst) := mkBst (buf x) (cnt x) v (bready x) (w_cnt x) (lim x) (w_lim x) (ip_cur x) (ip_wakers x) (nwak x) (w_ctl x).
Definition b_bready v (x : bst) := mkBst (buf x) (cnt x) (nextc x) v (w_cnt x) (lim x) (w_lim x) (ip_cur x) (ip_wakers x) (nwak x) (w_ctl x).
Definition b_wcnt v (x : bst) := mkBst (buf x) (cnt x) (nextc x) (bready x) v (lim x) (w_lim x) (ip_cur x) (ip_wakers x) (nwak x) (w_ctl x).
Definition b_lim v (x : bst) := mkBst (buf x) (cnt x) (nextc x) (bready x) (w_cnt x) v (w_lim x) (ip_cur x) (ip_wakers x) (nwak x) (w_ctl x).
Definition b_wlim v (x : bst) := mkBst (buf x) (cnt x) (nextc x) (bready x) (w_cnt x) (lim x) v (ip_cur x) (ip_wakers x) (nwak x) (w_ctl x).
Definition b_ipcur v (x : bst) := mkBst (buf x) (cnt x) (nextc x) (bready x) (w_cnt x) (lim x) (w_lim x) v (ip_wakers x) (nwak x) (w_ctl x).
Definition b_ipw v (x : bst) := mkBst (buf x) (cnt x) (nextc x) (bready x) (w_cnt x) (lim x) (w_lim x) (ip_cur x) v (nwak x) (w_ctl x).
Definition b_nwak v (x : bst) := mkBst (buf x) (cnt x) (nextc x) (bready x) (w_cnt x) (lim x) (w_lim x) (ip_cur x) (ip_wakers x) v (w_ctl x).
Definition b_wctl v (x : bst) := mkBst (buf x) (cnt x) (nextc x) (bready x) (w_cnt x) (lim x) (w_lim x) (ip_cur x) (ip_wakers x) (nwak x) v.

Definition i_chan v (x : ist) := mkIst v (rbuf x) (rpaused x) (closing x) (stopped x) (disp_reg x) (wpaused x) (wsched x) (wire x).
Definition i_rbuf v (x : ist) := mkIst (chan x) v (rpaused x) (closing x) (stopped x) (disp_reg x) (wpaused x) (wsched x) (wire x).
Definition i_rpaused v (x : ist) := mkIst (chan x) (rbuf x) v (closing x) (stopped x) (disp_reg x) (wpaused x) (wsched x) (wire x).
Definition i_closing v (x : ist) := mkIst (chan x) (rbuf x) (rpaused x) v (stopped x) (disp_reg x) (wpaused x) (wsched x) (wire x).
Definition i_stopped v (x : ist) := mkIst (chan x) (rbuf x) (rpaused x) (closing x) v (disp_reg x) (wpaused x) (wsched x) (wire x).
Definition i_dispreg v (x : ist) := mkIst (chan x) (rbuf x) (rpaused x) (closing x) (stopped x) v (wpaused x) (wsched x) (wire x).
Definition i_wpaused v (x : ist) := mkIst (chan x) (rbuf x) (rpaused x) (closing x) (stopped x) (disp_reg x) v (wsched x) (wire x).
Definition i_wsched v (x : ist) := mkIst (chan x) (rbuf x) (rpaused x) (closing x) (stopped x) (disp_reg x) (wpaused x) v (wire x).
Definition i_wire v (x : ist) := mkIst (chan x) (rbuf x) (rpaused x) (closing x) (stopped x) (disp_reg x) (wpaused x) (wsched x) v.

Definition s_runq v (x : sst) := mkSst v (cur x) (self_woken x) (calls x) (nreq x) (r1 x) (sp_cur x) (sp_wakers x) (dst x) (stopping x) (lasterr x) (qerrs x) (cfree x) (cslen x).
Definition s_cur v (x : sst) := mkSst (runq x) v (self_woken x) (calls x) (nreq x) (r1 x) (sp_cur x) (sp_wakers x) (dst x) (stopping x) (lasterr x) (qerrs x) (cfree x) (cslen x).
Definition s_selfw v (x : sst) := mkSst (runq x) (cur x) v (calls x) (nreq x) (r1 x) (sp_cur x) (sp_wakers x) (dst x) (stopping x) (lasterr x) (qerrs x) (cfree x) (cslen x).
Definition s_calls v (x : sst) := mkSst (runq x) (cur x) (self_woken x) v (nreq x) (r1 x) (sp_cur x) (sp_wakers x) (dst x) (stopping x) (lasterr x) (qerrs x) (cfree x) (cslen x).
Definition s_nreq v (x : sst) := mkSst (runq x) (cur x) (self_woken x) (calls x) v (r1 x) (sp_cur x) (sp_wakers x) (dst x) (stopping x) (lasterr x) (qerrs x) (cfree x) (cslen x).
Definition s_r1 v (x : sst) := mkSst (runq x) (cur x) (self_woken x) (calls x) (nreq x) v (sp_cur x) (sp_wakers x) (dst x) (stopping x) (lasterr x) (qerrs x) (cfree x) (cslen x).
Definition s_spcur v (x : sst) := mkSst (runq x) (cur x) (self_woken x) (calls x) (nreq x) (r1 x) v (sp_wakers x) (dst x) (stopping x) (lasterr x) (qerrs x) (cfree x) (cslen x).
Definition s_spw v (x : sst) := mkSst (runq x) (cur x) (self_woken x) (calls x) (nreq x) (r1 x) (sp_cur x) v (dst x) (stopping x) (lasterr x) (qerrs x) (cfree x) (cslen x).
Definition s_dst v (x : sst) := mkSst (runq x) (cur x) (self_woken x) (calls x) (nreq x) (r1 x) (sp_cur x) (sp_wakers x) v (stopping x) (lasterr x) (qerrs x) (cfree x) (cslen x).
Definition s_stopping v (x : sst) := mkSst (runq x) (cur x) (self_woken x) (calls x) (nreq x) (r1 x) (sp_cur x) (sp_wakers x) (dst x) v (lasterr x) (qerrs x) (cfree x) (cslen x).
Definition s_lasterr v (x : sst) := mkSst (runq x) (cur x) (self_woken x) (calls x) (nreq x) (r1 x) (sp_cur x) (sp_wakers x) (dst x) (stopping x) v (qerrs x) (cfree x) (cslen x).
Definition s_qerrs v (x : sst) := mkSst (runq x) (cur x) (self_woken x) (calls x) (nreq x) (r1 x) (sp_cur x) (sp_wakers x) (dst x) (stopping x) (lasterr x) v (cfree x) (cslen x).
Definition s_cfree v (x : sst) := mkSst (runq x) (cur x) (self_woken x) (calls x) (nreq x) (r1 x) (sp_cur x) (sp_wakers x) (dst x) (stopping x) (lasterr x) (qerrs x) v (cslen x).
Definition s_cslen v (x : sst) := mkSst (runq x) (cur x) (self_woken x) (calls x) (nreq x) (r1 x) (sp_cur x) (sp_wakers x) (dst x) (stopping x) (lasterr x) (qerrs x) (cfree x) v.

Definition l_hlog v (x : lst) := mkLst v (plog x) (nh x) (np x) (stop1 x) (stops x) (hgate x) (pgate x).
Definition l_plog v (x : lst) := mkLst (hlog x) v (nh x) (np x) (stop1 x) (stops x) (hgate x) (pgate x).
Definition l_nh v (x : lst) := mkLst (hlog x) (plog x) v (np x) (stop1 x) (stops x) (hgate x) (pgate x).
Definition l_np v (x : lst) := mkLst (hlog x) (plog x) (nh x) v (stop1 x) (stops x) (hgate x) (pgate x).
Definition l_stop1 v (x : lst) := mkLst (hlog x) (plog x) (nh x) (np x) v (stops x) (hgate x) (pgate x).
Definition l_stops v (x : lst) := mkLst (hlog x) (plog x) (nh x) (np x) (stop1 x) v (hgate x) (pgate x).
Definition l_hgate v (x : lst) := mkLst (hlog x) (plog x) (nh x) (np x) (stop1 x) (stops x) v (pgate x).
Definition l_pgate v (x : lst) := mkLst (hlog x) (plog x) (nh x) (np x) (stop1 x) (stops x) (hgate x) v.

(* ------------------------------------------------------------------ scheduler: wake *)
(* async_task: waking the running task reschedules it when its poll returns; waking a task that
   is already queued does nothing *)
Definition wake (t : task) (s : st) : st :=
  match cur (s_ s) with
  | Some c => if task_eqb c t then up_s (s_selfw true) s
              else if mem_task t (runq (s_ s)) then s else up_s (s_runq (runq (s_ s) ++ [t])) s
  | None => if mem_task t (runq (s_ s)) then s else up_s (s_runq (runq (s_ s) ++ [t])) s
  end.

Definition wake_opt (t : option task) (s : st) : st :=
  match t with Some x => wake x s | None => s end.

Fixpoint wake_all (l : list task) (s : st) : st :=
  match l with [] => s | t :: r => wake_all r (wake t s) end.

(* ntex-io dispatch_task LocalWaker: wakes the dispatcher if it registered since the last wake *)
Definition wake_disp (s : st) : st :=
  if disp_reg (i_ s) then wake TD (up_i (i_dispreg false) s) else s.

(* Counter::dec of InFlightService(1): notify() wakes the registered task *)
Definition wake_cnt (s : st) : st :=
  let t := w_cnt (b_ s) in wake_opt t (up_b (b_wcnt None) s).

(* limiter LocalWaker (only the dispatcher's readiness future registers) *)
Definition wake_lim (s : st) : st :=
  let t := w_lim (b_ s) in wake_opt t (up_b (b_wlim None) s).

(* WaitersRef of BufferService's inner pipeline (PipelineBinding<InFlightService(1)>): the binding
   index is used by BufferService::ready / shutdown, every call_nowait / call clone has its own;
   a pending check keeps the ownership, everybody else is parked until notify() *)
Fixpoint slot_set (k : N) (t : task) (l : list (N * task)) : list (N * task) :=
  match l with
  | [] => [(k, t)]
  | (a, b) :: r => if a =? k then (a, t) :: r else (a, b) :: slot_set k t r
  end.
Definition ip_notify (s : st) : st :=
  let l := ip_wakers (b_ s) in
  wake_all (map snd l) (up_b (fun x => b_ipcur None (b_ipw [] x)) s).
Definition ip_push (slot : N) (t : task) (s : st) : st :=
  up_b (b_ipw (slot_set slot t (ip_wakers (b_ s)))) s.

(* WaitersRef::notify of the io-service pipeline *)
Definition sp_notify (s : st) : st :=
  let l := sp_wakers (s_ s) in
  wake_all l (up_s (fun x => s_spcur None (s_spw [] x)) s).

Definition sp_push (t : task) (s : st) : st :=
  if mem_task t (sp_wakers (s_ s)) then s else up_s (s_spw (sp_wakers (s_ s) ++ [t])) s.

(* ------------------------------------------------------------------ io *)
Definition wire_code (t id r : N) : N := t * 16777216 + id * 256 + r.
Definition wire_fields (b : N) : list N := [b / 16777216; (b / 256) mod 65536; b mod 256].

(* IoRef::encode: silently dropped once shutdown of the io has been initiated; otherwise
   consolidate_write_state: an idle write side gets a send op scheduled (the Iops task) *)
Definition io_encode (t id r : N) (s : st) : st :=
  if closing (i_ s) || stopped (i_ s) then s
  else
    let s1 := up_i (i_wire (wire (i_ s) ++ [t; id; r])) s in
    if wpaused (i_ s1) && negb (wsched (i_ s1)) then wake TW (up_i (i_wsched true) s1) else s1.

(* IoRef::close = start_shutdown *)
Definition io_close (s : st) : st :=
  if closing (i_ s) || stopped (i_ s) then s else wake TIO (up_i (i_closing true) s).

(* ------------------------------------------------------------------ calls table *)
Fixpoint find_call (k : N) (l : list call) : option call :=
  match l with [] => None | x :: r => if cid x =? k then Some x else find_call k r end.
Fixpoint upd_call (k : N) (f : call -> call) (l : list call) : list call :=
  match l with [] => [] | x :: r => if cid x =? k then f x :: r else x :: upd_call k f r end.
Fixpoint del_call (k : N) (l : list call) : list call :=
  match l with [] => [] | x :: r => if cid x =? k then r else x :: del_call k r end.

Definition set_cst (k : N) (v : cstate) (s : st) : st :=
  up_s (fun x => s_calls (upd_call k (fun c => mkCall (cid c) v (clim c) (chost c) (ckey c)) (calls x)) x) s.
Definition host_of (k : N) (s : st) : task :=
  match find_call k (calls (s_ s)) with Some c => chost c | None => TS k end.

(* the next_call sender (`_task_guard`) of call o is still alive *)
Definition guard_alive (o : N) (s : st) : bool :=
  match find_call o (calls (s_ s)) with
  | Some c => match cst c with
              | CRel _ => true | CWaitCnt _ g => g | CProto _ _ g => g | _ => false
              end
  | None => false
  end.

(* oneshot receiver of the next_call guard of call o: one waker slot, the last poller *)
Fixpoint tassoc (k : N) (l : list (N * task)) : option task :=
  match l with [] => None | (a, b) :: r => if a =? k then Some b else tassoc k r end.
Fixpoint tassoc_del (k : N) (l : list (N * task)) : list (N * task) :=
  match l with [] => [] | (a, b) :: r => if a =? k then tassoc_del k r else (a, b) :: tassoc_del k r end.
Definition reg_guard (o : N) (t : task) (s : st) : st :=
  up_b (fun x => b_nwak (tassoc_del o (nwak x) ++ [(o, t)]) x) s.

(* the guard of call o has just been dropped: the task registered on the receiver is woken *)
Definition wake_guard (o : N) (s : st) : st :=
  match tassoc o (nwak (b_ s)) with
  | Some t => wake t (up_b (fun x => b_nwak (tassoc_del o (nwak x)) x) s)
  | None => s
  end.

(* ------------------------------------------------------------------ BufferService::ready *)
Inductive brres := BRReady | BRWait (o : N).

Definition lenb (s : st) : N := N.of_nat (length (buf (b_ s))).

(* phase A: the pending next_call receiver; phase B: the poll_fn *)
Definition bs_ready0 (who : task) (w : option N) (s : st) : st * brres :=
  let '(s1, blocked) :=
    match w with
    | Some o => (s, if guard_alive o s then Some o else None)
    | None =>
      match nextc (b_ s) with
      | Some o => let s' := up_b (b_nextc None) s in
                  (s', if guard_alive o s' then Some o else None)
      | None => (s, None)
      end
    end in
  match blocked with
  | Some o => (reg_guard o who s1, BRWait o)
  | None =>
    match ip_cur (b_ s1) with
    | Some (OCall _) =>
      (* another readiness check of the inner pipeline is pending: parked, "not ready" *)
      (up_b (b_bready false) (ip_push 0 who s1), BRReady)
    | _ =>
      if cnt (b_ s1) <? 1 then
        let s1 := ip_notify s1 in
        match buf (b_ s1) with
        | k :: rest =>
          let s2 := up_b (fun x => b_bready false (b_nextc (Some k) (b_buf rest x))) s1 in
          let m := match find_call k (calls (s_ s2)) with
                   | Some c => match cst c with CBuf m => m | _ => (0, 0) end
                   | None => (0, 0)
                   end in
          (reg_guard k who (wake (host_of k s2) (set_cst k (CRel m) s2)), BRReady)
        | [] => (up_b (b_bready true) s1, BRReady)
        end
      else
        (* inner service not ready: Counter::poll_available registers the polling task *)
        (ip_push 0 who (up_b (fun x => b_bready false (b_ipcur (Some OBind) (b_wcnt (Some who) x))) s1), BRReady)
    end
  end.

(* every readiness check of the control pipeline runs under WaitersRef::run of `inner.control`
   (one pipeline index): a pending check stores the waker of the polling task, a completed check
   notifies the stored waker *)
Definition bs_ready (who : task) (w : option N) (s : st) : st * brres :=
  match bs_ready0 who w s with
  | (s1, BRWait o) => (up_b (b_wctl (Some who)) s1, BRWait o)
  | (s1, BRReady) => let t := w_ctl (b_ s1) in (wake_opt t (up_b (b_wctl None) s1), BRReady)
  end.

(* ------------------------------------------------------------------ protocol state helpers *)
Definition info_remove (id : N) (s : st) : st :=
  up_p (fun x => p_inflight (remN id (inflight x))
                 (p_publishes (remN id (publishes x)) (p_pubrel (remN id (pubrel x)) x))) s.

(* is_disconnect_sent(): test and set *)
Definition test_set_dsent (s : st) : st * bool :=
  (up_p (p_dsent true) s, dsent (p_ s)).

Definition is_closed (s : st) : bool := stopped (i_ s).

Definition filter_valid (f : N) : bool := (f =? 1) || (f =? 2).

Inductive outcome :=
| ODone (r : cres)
| OHandler (q2 qos id topic plen retain : N)
| OCtl (m : cmsg)
| OCtlP (m : cmsg) (qos id topic plen retain : N).   (* client: unrouted PUBLISH -> ProtocolMessage::Publish *)

Definition proto_err (r : N) : outcome := ODone (RErr (EProto r)).

(* src/v3/dispatcher.rs  Service<Decoded>::call, up to the first await *)
Definition body3 (p : pkt) (s : st) : st * outcome :=
  match p with
  | KPublish qos id topic _ retain plen =>
    if topic =? 4 then (s, proto_err 130)
    else
      let dup := (0 <? qos) && memN id (inflight (p_ s)) in
      if dup then (s, proto_err 130)
      else
        let s1 := if 0 <? qos then up_p (p_inflight (inflight (p_ s) ++ [id])) s else s in
        if max_qos (c_ s1) <? qos then (s1, proto_err 155)
        else if is_closed s1 then (s1, ODone RNone)
        else (s1, OHandler (b2n (qos =? 2)) qos id (if topic <=? 3 then topic else 0) plen retain)
  | KPuback _ | KPubrec _ | KPubcomp _ =>
    (* sink.pkt_ack: nothing was published by this endpoint: close() then the error *)
    (io_close s, proto_err 130)
  | KPubrel id =>
    if memN id (pubrel (p_ s)) then (s, OCtl (1, id)) else (s, proto_err 130)
  | KPing => (s, OCtl (5, 0))
  | KSubscribe id f =>
    if is_closed s then (s, ODone RNone)
    else if negb (filter_valid f) then (s, proto_err 130)
    else if memN id (inflight (p_ s)) then (s, proto_err 130)
    else (up_p (p_inflight (inflight (p_ s) ++ [id])) s, OCtl (2, id))
  | KUnsubscribe id f =>
    if is_closed s then (s, ODone RNone)
    else if negb (filter_valid f) then (s, proto_err 130)
    else if memN id (inflight (p_ s)) then (s, proto_err 130)
    else (up_p (p_inflight (inflight (p_ s) ++ [id])) s, OCtl (3, id))
  | KDisconnect _ _ => (up_p (p_dsent true) s, OCtl (4, 0))
  | KAuth | KAck2 | KOther | KBad _ => (s, ODone RNone)
  end.

(* src/v5/dispatcher.rs  Service<Decoded>::call, up to the first await *)
Definition body5 (p : pkt) (s : st) : st * outcome :=
  match p with
  | KPublish qos id topic alias retain plen =>
    if topic =? 4 then (s, proto_err 130)
    else
      let chk :=
        if 0 <? qos then
          if (negb (rmax (c_ s) =? 0)) && (rmax (c_ s) <=? N.of_nat (length (publishes (p_ s))))
          then (s, Some (proto_err 147))
          else if max_qos (c_ s) <? qos then (s, Some (proto_err 155))
          else if memN id (inflight (p_ s)) then
            (io_encode (if qos =? 2 then 80 else 64) id 145 s, Some (ODone RNone))
          else (up_p (fun x => p_publishes (publishes x ++ [id]) (p_inflight (inflight x ++ [id]) x)) s, None)
        else (s, None) in
      match chk with
      | (s1, Some o) => (s1, o)
      | (s1, None) =>
        let al :=
          if alias =? 0 then (s1, Some topic)
          else if topic =? 0 then
            match assocN alias (aliases (p_ s1)) with
            | Some t => (s1, Some t)
            | None => (s1, None)
            end
          else
            match assocN alias (aliases (p_ s1)) with
            | Some t => (if t =? topic then s1
                         else up_p (p_aliases (assoc_set alias topic (aliases (p_ s1)))) s1, Some topic)
            | None => if amax (c_ s1) <? alias then (s1, Some 99)
                      else (up_p (p_aliases (aliases (p_ s1) ++ [(alias, topic)])) s1, Some topic)
            end in
        match al with
        | (s2, None) => (s2, proto_err 148)
        | (s2, Some t) =>
          if t =? 99 then (s2, proto_err 130)
          else if is_closed s2 then
            (* dropped, unless handle_qos_after_disconnect = Some(q) with qos <= q *)
            if (hqad (c_ s2) =? 0) || (hqad (c_ s2) <=? qos) then (s2, ODone RNone)
            else (s2, OHandler (b2n (qos =? 2)) qos id (if t <=? 3 then t else 0) plen retain)
          else (s2, OHandler (b2n (qos =? 2)) qos id (if t <=? 3 then t else 0) plen retain)
        end
      end
  | KPuback _ | KPubrec _ | KPubcomp _ =>
    (* sink.pkt_ack fails: close(Some(Disconnect 0x83)) *)
    let s1 :=
      if is_closed s then s
      else let '(s', sent) := test_set_dsent s in
           io_close (if sent then s' else io_encode 224 0 131 s') in
    (s1, proto_err 130)
  | KPubrel id =>
    if memN id (pubrel (p_ s)) then (s, OCtl (1, id)) else (s, ODone (RSome 112 id 146))
  | KAuth => if is_closed s then (s, ODone RNone) else (s, OCtl (6, 0))
  | KPing => (s, OCtl (5, 0))
  | KDisconnect _ se =>
    let s1 := up_p (p_drecv true) s in
    (* [MQTT-3.14.2-22]: a non-zero Session Expiry Interval in DISCONNECT only when CONNECT had a non-zero one *)
    if (0 <? se) && zse (c_ s) then (s1, proto_err 130)
    else
      let s2 := up_p (p_dsent true) s1 in
      let s3 := if is_closed s2 then s2 else io_close s2 in
      (s3, OCtl (4, 0))
  | KSubscribe id f =>
    if is_closed s then (s, ODone RNone)
    else if negb (filter_valid f) then (s, proto_err 130)
    else if memN id (inflight (p_ s)) then (io_encode 144 id 145 s, ODone RNone)
    else (up_p (p_inflight (inflight (p_ s) ++ [id])) s, OCtl (2, id))
  | KUnsubscribe id f =>
    if is_closed s then (s, ODone RNone)
    else if negb (filter_valid f) then (s, proto_err 130)
    else if memN id (inflight (p_ s)) then (io_encode 176 id 145 s, ODone RNone)
    else (up_p (p_inflight (inflight (p_ s) ++ [id])) s, OCtl (3, id))
  | KAck2 | KOther | KBad _ => (s, ODone RNone)
  end.

(* ================================================================== client roles
   src/v3/client/dispatcher.rs, src/v5/client/dispatcher.rs *)
Definition is_client (s : st) : bool := negb (role (c_ s) =? 0).

(* v3 MqttShared::close() of a client: DISCONNECT unless one was sent, then io.close() *)
Definition close3c (s : st) : st :=
  let '(s1, sent) := test_set_dsent s in
  io_close (if sent then s1 else io_encode 224 0 0 s1).

(* the publish service of the client: the router (resources "t1", "t2") or the protocol service *)
Definition route_pub (q2 qos id topic plen retain : N) (s : st) : outcome :=
  let t := if topic <=? 3 then topic else 0 in
  if route (c_ s) && ((t =? 1) || (t =? 2)) then OHandler q2 qos id t plen retain
  else OCtlP (7, id) qos id t plen retain.

Definition body3c (p : pkt) (s : st) : st * outcome :=
  match p with
  | KPublish qos id topic _ retain plen =>
    if (0 <? qos) && memN id (inflight (p_ s)) then (s, proto_err 130)
    else
      let s1 := if 0 <? qos then up_p (p_inflight (inflight (p_ s) ++ [id])) s else s in
      (s1, route_pub (b2n (qos =? 2)) qos id topic plen retain s1)
  | KPuback _ | KPubrec _ | KPubcomp _ | KAck2 => (close3c s, proto_err 130)
  | KPubrel id =>
    if memN id (pubrel (p_ s)) then (s, OCtl (1, id)) else (close3c s, ODone RNone)
  | KPing | KDisconnect _ _ | KSubscribe _ _ | KUnsubscribe _ _ => (s, proto_err 130)
  | KAuth | KOther | KBad _ => (s, ODone RNone)
  end.

Definition body5c (p : pkt) (s : st) : st * outcome :=
  match p with
  | KPublish qos id topic alias retain plen =>
    let chk :=
      if 0 <? qos then
        if (negb (rmax (c_ s) =? 0)) && (rmax (c_ s) <=? N.of_nat (length (inflight (p_ s))))
        then (s, Some (proto_err 147))
        else if memN id (inflight (p_ s)) then
          (io_encode (if qos =? 2 then 80 else 64) id 145 s, Some (ODone RNone))
        else (up_p (p_inflight (inflight (p_ s) ++ [id])) s, None)
      else (s, None) in
    match chk with
    | (s1, Some o) => (s1, o)
    | (s1, None) =>
      let al :=
        if alias =? 0 then (s1, Some topic)
        else if topic =? 0 then
          match assocN alias (aliases (p_ s1)) with
          | Some t => (s1, Some t)
          | None => (s1, None)
          end
        else
          match assocN alias (aliases (p_ s1)) with
          | Some t => (if t =? topic then s1
                       else up_p (p_aliases (assoc_set alias topic (aliases (p_ s1)))) s1, Some topic)
          | None => if 16 <? alias then (s1, Some 99)
                    else (up_p (p_aliases (aliases (p_ s1) ++ [(alias, topic)])) s1, Some topic)
          end in
      match al with
      | (s2, None) => (s2, proto_err 148)
      | (s2, Some t) =>
        if t =? 99 then (s2, proto_err 130)
        else (s2, route_pub (b2n (qos =? 2)) qos id t plen retain s2)
      end
    end
  | KPuback _ | KPubrec _ | KPubcomp _ | KAck2 =>
    let s1 :=
      if is_closed s then s
      else let '(s', sent) := test_set_dsent s in
           io_close (if sent then s' else io_encode 224 0 131 s') in
    (s1, proto_err 130)
  | KPubrel id =>
    if memN id (pubrel (p_ s)) then (s, OCtl (1, id)) else (s, ODone (RSome 112 id 146))
  | KDisconnect _ se =>
    if 0 <? se then (s, proto_err 130)
    else
      let s2 := up_p (p_dsent true) s in
      let s3 := if is_closed s2 then s2 else io_close s2 in
      (s3, OCtl (4, 0))
  | KAuth | KPing | KSubscribe _ _ | KUnsubscribe _ _ => (s, proto_err 130)
  | KOther | KBad _ => (s, ODone RNone)
  end.

(* ---- what the protocol service answers: 9 = the library's DefaultProtocolService,
        0 = msg.ack(), 2 = typed ack, other = Err *)
Inductive pack :=
| AErr
| A3Ping | A3Sub | A3Unsub | A3Disc | A3Pubrel           (* v3 ProtocolMessageKind *)
| A5Pkt (t r : N) (disc : bool) | A5Disc (r : N) | A5None   (* v5 Pkt + disconnect flag *)
| A5Nothing.                                               (* v5 Pkt::None, disconnect = false *)

Definition ack3 (kind res : N) : pack :=
  if res =? 9 then (if kind =? 5 then A3Ping else A3Disc)
  else if res =? 0 then
    (if kind =? 1 then A3Pubrel else if kind =? 5 then A3Ping else A3Disc)
  else if res =? 2 then
    (if kind =? 1 then A3Pubrel else if kind =? 5 then A3Ping
     else if kind =? 2 then A3Sub else if kind =? 3 then A3Unsub else A3Disc)
  else AErr.

Definition ack5 (kind res : N) : pack :=
  if res =? 9 then
    (if kind =? 5 then A5Pkt 208 0 false else if kind =? 4 then A5None else A5Disc 128)
  else if (res =? 0) || (res =? 2) then
    (if kind =? 6 then A5Disc 131
     else if kind =? 1 then A5Pkt 112 0 false
     else if kind =? 2 then A5Pkt 144 128 false
     else if kind =? 3 then A5Pkt 176 0 false
     else if kind =? 4 then A5None
     else A5Pkt 208 0 false)
  else AErr.

(* Inner::control (v3) / Inner::control_pkt (v5) after `self.control.call(pkt).await` *)
Definition ctl_result (m : cmsg) (a : pack) (s : st) : st * cres :=
  let '(kind, pid) := m in
  match a with
  | AErr =>
    if v5 (c_ s) then (s, RErr EServ)             (* drop_sink(false) *)
    else (io_close s, RErr EServ)                 (* sink.close() *)
  | A3Ping => (s, RSome 208 0 0)
  | A3Sub => (up_p (p_inflight (remN pid (inflight (p_ s)))) s, RSome 144 pid 128)
  | A3Unsub => (up_p (p_inflight (remN pid (inflight (p_ s)))) s, RSome 176 pid 0)
  | A3Disc => (io_close s, RNone)
  | A3Pubrel =>
    (up_p (fun x => p_inflight (remN pid (inflight x)) (p_pubrel (remN pid (pubrel x)) x)) s,
     RSome 112 pid 0)
  | A5Pkt t r _ =>
    let s1 := if pid =? 0 then s else info_remove pid s in
    (s1, RSome t (if t =? 208 then 0 else pid) r)
  | A5Disc r =>
    let s1 := if pid =? 0 then s else info_remove pid s in
    let '(s2, sent) := test_set_dsent s1 in
    (io_close s2, if sent then RNone else RSome 224 0 r)
  | A5None =>
    let s1 := if pid =? 0 then s else info_remove pid s in
    (io_close s1, RNone)
  | A5Nothing => (if pid =? 0 then s else info_remove pid s, RNone)
  end.

(* v5: TryFrom<HErr> for PublishAck in the harness: the PublishAckReason values >= 0x80 *)
Definition neg_ack_code (res : N) : bool :=
  (res =? 128) || (res =? 131) || (res =? 135) || (res =? 144) || (res =? 145) || (res =? 151)
  || (res =? 153).

(* publish_fn after `ctx.call(svc, pkt).await` *)
Definition handler_result (q2 id res : N) (s : st) : st * cres :=
  if v5 (c_ s) then
    let code := if res =? 0 then Some 0
                else if (negb (id =? 0)) && neg_ack_code res then Some res else None in
    match code with
    | None => (s, RErr EServ)
    | Some rc =>
      if id =? 0 then (s, RNone)
      else if q2 =? 1 then
        let s1 := if rc <? 128 then up_p (p_pubrel (addN id (pubrel (p_ s)))) s
                  else info_remove id s in
        (s1, RSome 80 id rc)
      else (info_remove id s, RSome 64 id rc)
    end
  else
    if res =? 0 then
      if id =? 0 then (s, RNone)
      else if q2 =? 1 then (up_p (p_pubrel (addN id (pubrel (p_ s)))) s, RSome 80 id 0)
      else (up_p (p_inflight (remN id (inflight (p_ s)))) s, RSome 64 id 0)
    else (s, RErr EServ).

(* client publish_fn after the routed handler completed *)
Definition handler_result_c (q2 id res : N) (s : st) : st * cres :=
  if v5 (c_ s) then
    let code := if res =? 0 then Some 0 else if neg_ack_code res then Some res else None in
    match code with
    | None => (s, RErr EServ)
    | Some rc =>
      if id =? 0 then (s, RNone)
      else if q2 =? 1 then
        let s1 := if rc <? 128 then up_p (p_pubrel (addN id (pubrel (p_ s)))) s
                  else info_remove id s in
        (s1, RSome 80 id rc)
      else (info_remove id s, RSome 64 id rc)
    end
  else
    if res =? 0 then
      if id =? 0 then (s, RNone)
      else if q2 =? 1 then (up_p (p_pubrel (addN id (pubrel (p_ s)))) s, RSome 80 id 0)
      else (up_p (p_inflight (remN id (inflight (p_ s)))) s, RSome 64 id 0)
    else (s, RErr EServ).

(* client Inner::control / control_pkt after the protocol service answered;
   res 0 = msg.ack(), 2 = typed ack (v5 Publish: ack(Success)), other = Err *)
Definition ctl_result_c (m : cmsg) (res : N) (s : st) : st * cres :=
  let '(kind, pid) := m in
  if v5 (c_ s) then
    let a := if (res =? 0) || (res =? 2) then
               (if kind =? 7 then
                  (if res =? 0 then A5Disc 131 else if pid =? 0 then A5Nothing else A5Pkt 64 0 false)
                else if kind =? 1 then A5Pkt 112 0 false
                else if kind =? 4 then A5None
                else A5Pkt 208 0 false)
             else AErr in
    ctl_result m a s
  else
    if (res =? 0) || (res =? 2) then
      if kind =? 7 then
        if pid =? 0 then (s, RNone)
        else (up_p (p_inflight (remN pid (inflight (p_ s)))) s, RSome 64 pid 0)
      else if kind =? 1 then
        (up_p (fun x => p_inflight (remN pid (inflight x)) (p_pubrel (remN pid (pubrel x)) x)) s,
         RSome 112 pid 0)
      else (s, RSome 208 0 0)
    else (close3c s, RErr EServ).

(* ------------------------------------------------------------------ limiter (src/inflight.rs) *)
Definition lim_avail (s : st) : bool :=
  (lcap (c_ s) =? 0) || (lim (b_ s) <? lcap (c_ s)).

Definition lim_inc (s : st) : st :=
  let n := lim (b_ s) + 1 in
  let s1 := up_b (b_lim n) s in
  (* src/inflight.rs wakes the registered task when the limit is reached; ntex-util's Counter
     (v3 client) does not *)
  if (role (c_ s1) =? 0) && (n =? lcap (c_ s1)) then wake_lim s1 else s1.

Definition lim_dec (s : st) : st :=
  let n := lim (b_ s) in
  let s1 := up_b (b_lim (n - 1)) s in
  if n =? lcap (c_ s1) then wake_lim s1 else s1.

(* ------------------------------------------------------------------ the control pipeline *)
(* the protocol service is invoked: mode 0 answers at once, mode 1 logs and waits for its gate *)
Definition gate_val (k : N) (l : list (N * N)) : option N := assocN k l.

(* InFlightService(1) guard dropped, then the next_call guard *)
Definition release_guards (k : N) (g : bool) (s : st) : st :=
  let s1 := wake_cnt (up_b (b_cnt 0) s) in
  if g then wake_guard k s1 else s1.

(* returns Some result when the call completes in this poll.  The call's state must already be
   something that does not count as "guard alive" once the guards are released. *)
Definition proto_finish (k : N) (m : cmsg) (g : bool) (res : N) (s : st) : st * option cres :=
  let a := if v5 (c_ s) then ack5 (fst m) res else ack3 (fst m) res in
  let s1 := set_cst k (CBuf m) s in          (* no guard any more (removed from calls by the caller) *)
  let s2 := release_guards k g s1 in
  let '(s3, r) := ctl_result m a s2 in
  (s3, Some r).

Definition proto_invoke (who : task) (k : N) (m : cmsg) (g : bool) (s : st) : st * option cres :=
  let s1 := up_b (b_cnt 1) s in
  if pmode (c_ s1) =? 0 then proto_finish k m g 9 s1
  else
    let c := np (l_ s1) + 1 in
    let s2 := up_l (fun x => l_np c (l_plog (plog x ++ [c; fst m]) x)) s1 in
    match gate_val c (pgate (l_ s2)) with
    | Some res => proto_finish k m g res (set_cst k (CProto c m g) s2)
    | None => (set_cst k (CProto c m g) s2, None)
    end.

(* InFlightService::call: ready (capacity) then the guard then the service *)
Definition inner_call (who : task) (k : N) (m : cmsg) (g : bool) (s : st) : st * option cres :=
  let blocked := match ip_cur (b_ s) with
                 | None => false
                 | Some OBind => true
                 | Some (OCall j) => negb (j =? k)
                 end in
  if blocked then (ip_push k who (set_cst k (CWaitCnt m g) s), None)
  else if cnt (b_ s) <? 1 then proto_invoke who k m g (ip_notify s)
  else (ip_push k who (set_cst k (CWaitCnt m g)
          (up_b (fun x => b_ipcur (Some (OCall k)) (b_wcnt (Some who) x)) s)), None).

(* Pipeline::call of `inner.control` = ServiceChain<MapErr<BufferService>>: every layer does
   ready() then call(): three BufferService::ready in a row, then BufferService::call *)
Fixpoint ctl_enter (n : nat) (who : task) (k : N) (m : cmsg) (w : option N) (s : st) : st * option cres :=
  match bs_ready who w s with
  | (s1, BRWait o) => (set_cst k (CCtlA m o n) s1, None)
  | (s1, BRReady) =>
    match n with
    | S n' => ctl_enter n' who k m None s1
    | O =>
      if bready (b_ s1) then inner_call who k m false (up_b (b_bready false) s1)
      else (set_cst k (CBuf m) (up_b (b_buf (buf (b_ s1) ++ [k])) s1), None)
    end
  end.

(* ------------------------------------------------------------------ client: calls *)
(* client `self.control.call(msg)`: no buffer, no in-flight limit: the protocol service is invoked
   at once; an unrouted PUBLISH also logs its fields (h = 1000 + c) *)
Definition cproto_finish (m : cmsg) (res : N) (s : st) : st * option cres :=
  let '(s1, r) := ctl_result_c m res s in (s1, Some r).

Definition cproto_invoke (k : N) (m : cmsg) (plog_extra : option (list N)) (s : st) : st * option cres :=
  let c := np (l_ s) + 1 in
  let s1 := up_l (fun x => l_np c (l_plog (plog x ++ [c; fst m]) x)) s in
  let s2 := match plog_extra with
            | Some f => up_l (fun x => l_hlog (hlog x ++ (1000 + c) :: f) x) s1
            | None => s1
            end in
  match gate_val c (pgate (l_ s2)) with
  | Some res => cproto_finish m res s2
  | None => (set_cst k (CProto c m false) s2, None)
  end.

(* ------------------------------------------------------------------ one call *)
Definition log_handler (h qos id topic plen retain : N) (s : st) : st :=
  up_l (fun x => l_nh h (l_hlog (hlog x ++ [h; qos; id; topic; plen; retain]) x)) s.

Definition hres_any (q2 id res : N) (s : st) : st * cres :=
  if is_client s then handler_result_c q2 id res s else handler_result q2 id res s.

Definition body (who : task) (k : N) (p : pkt) (s : st) : st * option cres :=
  let '(s1, o) := if is_client s then (if v5 (c_ s) then body5c p s else body3c p s)
                  else (if v5 (c_ s) then body5 p s else body3 p s) in
  match o with
  | ODone r => (s1, Some r)
  | OHandler q2 qos id topic plen retain =>
    let h := nh (l_ s1) + 1 in
    let s2 := log_handler h qos id topic plen retain s1 in
    match gate_val h (hgate (l_ s2)) with
    | Some res => let '(s3, r) := hres_any q2 id res s2 in (s3, Some r)
    | None => (set_cst k (CHandler h q2 id) s2, None)
    end
  | OCtl m => if is_client s1 then cproto_invoke k m None s1 else ctl_enter 2 who k m None s1
  | OCtlP m qos id topic plen retain => cproto_invoke k m (Some [qos; id; topic; plen; retain]) s1
  end.

(* v3 client: ntex-util InFlightService::call = ctx.ready(self) (capacity), the guard, then
   ctx.call(&Dispatcher) whose readiness never blocks *)
Definition climgate (who : task) (k : N) (p : pkt) (s : st) : st * option cres :=
  let blocked := match sp_cur (s_ s) with
                 | None => false
                 | Some OBind => true
                 | Some (OCall j) => negb (j =? k)
                 end in
  if blocked then (sp_push who (set_cst k (CLimWait p) s), None)
  else if lim_avail s then
    let s1 := sp_notify (up_s (s_spcur (Some (OCall k))) s) in
    let s2 := up_s (fun x => s_calls (upd_call k (fun c => mkCall (cid c) (cst c) true (chost c) (ckey c)) (calls x)) x) s1 in
    body who k p (lim_inc s2)
  else
    (sp_push who (set_cst k (CLimWait p)
       (up_b (b_wlim (Some who)) (up_s (s_spcur (Some (OCall k))) s))), None).

(* ctx.call(&Dispatcher, req): the shared readiness check (Dispatcher::ready) then the body *)
Definition gate (who : task) (k : N) (p : pkt) (w : option N) (s : st) : st * option cres :=
  let blocked := match sp_cur (s_ s) with
                 | None => false
                 | Some OBind => true
                 | Some (OCall j) => negb (j =? k)
                 end in
  if blocked then (sp_push who (set_cst k (CGate p w) s), None)
  else
    let s0 := up_s (s_spcur (Some (OCall k))) s in
    match bs_ready who w s0 with
    | (s1, BRWait o) => (sp_push who (set_cst k (CGate p (Some o)) s1), None)
    | (s1, BRReady) => body who k p (sp_notify s1)
    end.

Definition poll_call (who : task) (k : N) (s : st) : st * option cres :=
  match find_call k (calls (s_ s)) with
  | None => (s, None)
  | Some c =>
    match cst c with
    | CInit p =>
      if is_client s then
        (if v5 (c_ s) then body who k p s else climgate who k p s)
      else
        (* InFlightServiceImpl::call: the counter guard is taken first *)
        let s1 := up_s (fun x => s_calls (upd_call k (fun c => mkCall (cid c) (cst c) true (chost c) (ckey c)) (calls x)) x) s in
        gate who k p None (lim_inc s1)
    | CLimWait p => climgate who k p s
    | CGate p w => gate who k p w s
    | CHandler h q2 id =>
      match gate_val h (hgate (l_ s)) with
      | Some res => let '(s1, r) := hres_any q2 id res s in (s1, Some r)
      | None => (s, None)
      end
    | CCtlA m o n => ctl_enter n who k m (Some o) s
    | CBuf _ => (s, None)
    | CRel m => inner_call who k m true s
    | CWaitCnt m g => inner_call who k m g s
    | CProto c m g =>
      match gate_val c (pgate (l_ s)) with
      | Some res => if is_client s then cproto_finish m res s else proto_finish k m g res s
      | None => (s, None)
      end
    end
  end.

(* the call future is dropped (select with `stopping`, or the dispatcher is dropped) *)
Definition cancel_call (k : N) (s : st) : st :=
  match find_call k (calls (s_ s)) with
  | None => s
  | Some c =>
    let s0 := up_s (fun x => s_calls (del_call k (calls x)) x) s in
    let s1 := if clim c then lim_dec s0 else s0 in
    let s2 := match sp_cur (s_ s1) with
              | Some (OCall j) => if j =? k then sp_notify s1 else s1
              | _ => s1
              end in
    match cst c with
    | CBuf _ => up_b (b_buf (remN k (buf (b_ s2)))) s2
    | CRel _ => wake_guard k s2
    | CWaitCnt _ g =>
      let s3 := match ip_cur (b_ s2) with
                | Some (OCall j) => if j =? k then ip_notify s2 else s2
                | _ => s2
                end in
      if g then wake_guard k s3 else s3
    | CProto _ _ g => if is_client s2 then s2 else release_guards k g s2
    | _ => s2
    end
  end.

(* ------------------------------------------------------------------ io.rs: results *)
Definition hres_of (r : cres) : hres :=
  match r with RNone => HNone | RSome t id x => HSome (wire_code t id x) | RErr _ => HErr end.

Fixpoint count_err_slots (l : list slot) : nat :=
  match l with
  | [] => O
  | SReady HErr :: r => S (count_err_slots r)
  | _ :: r => count_err_slots r
  end.

Fixpoint drop_n {A} (n : nat) (l : list A) : list A :=
  match n, l with O, _ => l | S k, _ :: r => drop_n k r | S _, [] => [] end.
Fixpoint take_n {A} (n : nat) (l : list A) : list A :=
  match n, l with O, _ => [] | S k, x :: r => x :: take_n k r | S _, [] => [] end.

Fixpoint emit (l : list N) (s : st) : st :=
  match l with
  | [] => s
  | b :: r => match wire_fields b with
              | [t; id; x] => emit r (io_encode t id x s)
              | _ => emit r s
              end
  end.

(* bring the model's side information in line after a RespQueue step q0 -> q1:
   newly written responses go to the wire, queued Err slots that were applied set the error kind *)
Definition after_rq (q0 q1 : rq) (direct : option errk) (s : st) : st :=
  let new := drop_n (length (out q0)) (out q1) in
  let applied := (count_err_slots (queue q0) - count_err_slots (queue q1))%nat in
  let s1 := match direct with Some e => up_s (s_lasterr e) s | None => s end in
  let es := take_n applied (qerrs (s_ s1)) in
  let s2 := up_s (s_qerrs (drop_n applied (qerrs (s_ s1)))) s1 in
  let s3 := match rev es with e :: _ => up_s (s_lasterr e) s2 | [] => s2 end in
  emit new (set_q q1 s3).

(* a deferred call completes: DispatcherState::handle_result; returns `empty_q` *)
Definition finish_deferred (k : N) (r : cres) (s : st) : st * bool :=
  let q0 := q_ s in
  let ridx := match response q0 with
              | Some i => if i =? k then Some (response_idx q0) else lookup_spawned k (spawned q0)
              | None => lookup_spawned k (spawned q0)
              end in
  let idx0 := match ridx with Some x => wsub x (base q0) =? 0 | None => false end in
  let q1 := complete q0 k (hres_of r) in
  let iserr := match r with RErr _ => true | _ => false end in
  (* an Err that is not at the head is recorded at once; at the head it is applied first *)
  let s1 := after_rq q0 q1 (match r with RErr e => Some e | _ => None end) s in
  let empty := match queue q1 with [] => true | _ => false end in
  (s1, if idx0 then iserr || empty else iserr).

(* the call's own limiter guard is released before the result is handed to the io dispatcher *)
Definition retire_call (k : N) (s : st) : st :=
  match find_call k (calls (s_ s)) with
  | None => s
  | Some c =>
    let s0 := up_s (fun x => s_calls (del_call k (calls x)) x) s in
    if clim c then lim_dec s0 else s0
  end.

(* ------------------------------------------------------------------ the dispatcher's readiness *)
(* PipelineBinding::poll_ready of the io service: InFlightServiceImpl::ready -> Dispatcher::ready *)
Definition r1_poll_srv (s : st) : st * bool :=
  match sp_cur (s_ s) with
  | Some (OCall _) => (sp_push TD s, false)
  | _ =>
    let s0 := up_s (s_spcur (Some OBind)) s in
    let '(need, ldone, d) := match r1 (s_ s0) with
                             | RIdle => (negb (lim_avail s0), false, RDfresh)
                             | RRun a b x => (a, b, x)
                             end in
    let '(s1, ldone1) := if need && negb ldone
                         then (up_b (b_wlim (Some TD)) s0, lim_avail s0) else (s0, ldone) in
    let '(s2, d1) :=
      match d with
      | RDdone => (s1, RDdone)
      | RDfresh => match bs_ready TD None s1 with
                   | (x, BRReady) => (x, RDdone) | (x, BRWait o) => (x, RDwait o)
                   end
      | RDwait o => match bs_ready TD (Some o) s1 with
                    | (x, BRReady) => (x, RDdone) | (x, BRWait o') => (x, RDwait o')
                    end
      end in
    let fin := (negb need || ldone1) && match d1 with RDdone => true | _ => false end in
    if fin then (sp_notify (up_s (s_r1 RIdle) s2), true)
    else (sp_push TD (up_s (s_r1 (RRun need ldone1 d1)) s2), false)
  end.


(* client: v3 = ntex-util InFlightService::ready around Dispatcher::ready (which never blocks: the
   control service is a plain Pipeline), v5 = Dispatcher::ready only *)
Definition r1_poll_cli (s : st) : st * bool :=
  match sp_cur (s_ s) with
  | Some (OCall _) => (sp_push TD s, false)
  | _ =>
    let s0 := up_s (s_spcur (Some OBind)) s in
    if v5 (c_ s0) then (sp_notify (up_s (s_r1 RIdle) s0), true)
    else
      let '(need, ldone) := match r1 (s_ s0) with
                            | RIdle => (negb (lim_avail s0), false)
                            | RRun a b _ => (a, b)
                            end in
      (* join(count.available(), ..): Counter::poll_available registers only when unavailable *)
      let '(s1, ldone1) := if need && negb ldone
                           then (if lim_avail s0 then (s0, true) else (up_b (b_wlim (Some TD)) s0, false))
                           else (s0, ldone) in
      if negb need || ldone1 then (sp_notify (up_s (s_r1 RIdle) s1), true)
      else (sp_push TD (up_s (s_r1 (RRun need ldone1 RDdone)) s1), false)
  end.

Definition r1_poll (s : st) : st * bool :=
  if is_client s then r1_poll_cli s else r1_poll_srv s.

(* ------------------------------------------------------------------ the dispatcher *)
(* DispatcherInner::call_service *)
Definition d_call_service (p : pkt) (s : st) : st * bool :=
  let k := nreq (s_ s) + 1 in
  let s0 := up_s (s_nreq k) s in
  match response (q_ s0) with
  | Some _ =>
    let q1 := fst (call_service (q_ s0) k None) in
    (* self.stopping.wait(): Slab::insert takes the most recently freed key *)
    let '(key, s0) := match cfree (s_ s0) with
                      | x :: r => (x, up_s (s_cfree r) s0)
                      | [] => (cslen (s_ s0), up_s (s_cslen (cslen (s_ s0) + 1)) s0)
                      end in
    let s1 := up_s (fun x => s_calls (calls x ++ [mkCall k (CInit p) false (TS k) key]) x) (set_q q1 s0) in
    (wake (TS k) s1, true)
  | None =>
    (fun r : st => (r, false))
   (let s1 := up_s (fun x => s_calls (calls x ++ [mkCall k (CInit p) false TD 0]) x) s0 in
    match poll_call TD k s1 with
    | (s2, Some r) =>
      let s3 := retire_call k s2 in
      let q0 := q_ s3 in
      let q1 := fst (call_service q0 k (Some (hres_of r))) in
      (* queue non-empty: the result (an Err too) is stored in a slot; else applied at once *)
      match r, queue q0 with
      | RErr e, _ :: _ => after_rq q0 q1 None (up_s (s_qerrs (qerrs (s_ s3) ++ [e])) s3)
      | RErr e, [] => after_rq q0 q1 (Some e) s3
      | _, _ => after_rq q0 q1 None s3
      end
    | (s2, None) => set_q (fst (call_service (q_ s2) k None)) s2
    end)
  end.

Definition stop_kind (e : errk) : N := match e with EProto _ => 1 | EServ => 2 end.
Definition stop_reason (e : errk) : N := match e with EProto r => r | EServ => 131 end.

(* stop(control.call(Control::Stop(..))) followed by the Stop arm of Dispatcher::poll: the service
   readiness is polled once more, then the control service answers at its first poll
   (src/v3/default.rs / src/v5/default.rs ControlService::call around the harness service) *)
Definition do_stop (kind reason : N) (s : st) : st :=
  let s0 := fst (r1_poll s) in
  let s1 := if is_client s0 && route (c_ s0) then s0    (* ClientRouter::start: no control hook *)
            else up_l (fun x => l_stops (stops x + 1) (if stops x =? 0 then l_stop1 kind x else x)) s0 in
  let s2 :=
    if v5 (c_ s1) && negb (kind =? 3) then
      let '(s', sent) := test_set_dsent s1 in
      if sent then s' else io_encode 224 0 reason s'
    else s1 in
  up_s (s_dst (DShut ShInit)) s2.

(* Condition::notify: the slab is walked in key order; a waiter is woken if it has been polled *)
Fixpoint insert_key (c : call) (l : list call) : list call :=
  match l with
  | [] => [c]
  | x :: r => if ckey c <? ckey x then c :: l else x :: insert_key c r
  end.
Fixpoint sort_key (l : list call) : list call :=
  match l with [] => [] | c :: r => insert_key c (sort_key r) end.
Fixpoint wake_keys (l : list call) (s : st) : st :=
  match l with
  | [] => s
  | c :: r => wake_keys r (match chost c, cst c with
                           | TS k, CInit _ => s
                           | TS k, _ => wake (TS k) s
                           | _, _ => s
                           end)
  end.
Definition wake_spawned (l : list call) (s : st) : st := wake_keys (sort_key l) s.

(* Dispatcher::shutdown done: stopping.notify(), then the io shutdown *)
Definition shut_done (s : st) : st :=
  let s1 := up_s (fun x => s_dst DShutIo (s_stopping true x)) s in
  wake_spawned (calls (s_ s1)) s1.

(* BufferService::shutdown poll_fn *)
Definition shut_flush (s : st) : st * bool :=
  match buf (b_ s) with
  | [] => (s, true)
  | k :: rest =>
    match ip_cur (b_ s) with
    | Some (OCall _) => (up_s (s_dst (DShut (ShFlush None))) (ip_push 0 TD s), false)
    | _ =>
      if cnt (b_ s) <? 1 then
        let s1 := up_b (fun x => b_nextc (Some k) (b_buf rest x)) (ip_notify s) in
        let m := match find_call k (calls (s_ s1)) with
                 | Some c => match cst c with CBuf m => m | _ => (0, 0) end
                 | None => (0, 0)
                 end in
        let s2 := reg_guard k TD (wake (host_of k s1) (set_cst k (CRel m) s1)) in
        match rest with
        | [] => (s2, true)
        | _ => (up_s (s_dst (DShut (ShFlush (Some k)))) s2, false)
        end
      else (up_s (s_dst (DShut (ShFlush None)))
              (ip_push 0 TD (up_b (fun x => b_ipcur (Some OBind) (b_wcnt (Some TD) x)) s)), false)
    end
  end.

(* the dispatcher future completes.  The inline response future lives in the Rc<DispatcherState>
   that every spawned response task shares: it is never polled again but it is dropped (with the
   guards it holds) only after the last spawned task has gone, when nothing can happen any more *)
Definition d_finish (s : st) : st := up_s (s_dst DDone) s.

Fixpoint d_loop (fuel : nat) (s : st) : st :=
  match fuel with
  | O => s
  | S f =>
    match dst (s_ s) with
    | DProc =>
      if error (q_ s) then
        let q := q_ s in
        let s1 := set_q (mkRq (base q) (queue q) (response q) (response_idx q) false (spawned q)
                              (out q) (panicked q)) s in
        let e := lasterr (s_ s1) in
        d_loop f (do_stop (stop_kind e) (stop_reason e) s1)
      else
        let '(s1, rdy) := r1_poll s in
        if rdy then
          (* poll_recv_decode -> decode_item -> update_read_destination: a paused read is resumed *)
          let s1 := if rpaused (i_ s1) then wake TIO (up_i (i_rpaused false) s1) else s1 in
          match rbuf (i_ s1) with
          | KBad r :: rest =>
            d_loop f (do_stop 1 r (up_i (i_rbuf rest) s1))
          | p :: rest =>
            match d_call_service p (up_i (i_rbuf rest) s1) with
            | (s2, true) => wake TD s2       (* handed over: cx.waker().wake_by_ref(); return Pending *)
            | (s2, false) => d_loop f s2
            end
          | [] =>
            if stopped (i_ s1) then d_loop f (do_stop 3 0 s1)
            else
              let s2 := if rpaused (i_ s1) then wake TIO (up_i (i_rpaused false) s1) else s1 in
              up_i (i_dispreg true) s2
          end
        else
          let s2 := if rpaused (i_ s1) then s1 else wake TIO (up_i (i_rpaused true) s1) in
          let s3 := up_i (i_dispreg true) s2 in
          if stopped (i_ s3) then d_loop f (do_stop 3 0 s3) else s3
    | DShut ShInit =>
      (* the readiness future is dropped; Dispatcher::shutdown *)
      let s1 := match r1 (s_ s) with
                | RRun _ _ _ => sp_notify (up_s (s_r1 RIdle) s)
                | RIdle => s
                end in
      let s2 := if is_client s1 && negb (v5 (c_ s1)) then close3c s1 else io_close s1 in
      match nextc (b_ s2) with
      | Some o =>
        let s3 := up_b (b_nextc None) s2 in
        if guard_alive o s3 then reg_guard o TD (up_s (s_dst (DShut (ShWaitA o))) s3)
        else d_loop f (up_s (s_dst (DShut (ShFlush None))) s3)
      | None => d_loop f (up_s (s_dst (DShut (ShFlush None))) s2)
      end
    | DShut (ShWaitA o) =>
      if guard_alive o s then reg_guard o TD s else d_loop f (up_s (s_dst (DShut (ShFlush None))) s)
    | DShut (ShFlush _) =>
      match shut_flush s with
      | (s1, true) => d_loop f (shut_done s1)
      | (s1, false) => s1
      end
    | DShutIo =>
      if stopped (i_ s) then d_finish s
      else wake TIO (up_i (i_dispreg true) s)
    | DDone => s
    end
  end.

(* Dispatcher::poll *)
Definition d_poll (s : st) : st :=
  match dst (s_ s) with
  | DDone => s
  | _ =>
    let s1 :=
      match response (q_ s) with
      | Some k =>
        match poll_call TD k s with
        | (s', Some r) => fst (finish_deferred k r (retire_call k s'))
        | (s', None) => s'
        end
      | None => s
      end in
    d_loop 64 s1
  end.

(* a spawned response task: select(call, stopping); the Waiter is dropped with the task *)
Definition free_key (key : N) (s : st) : st := up_s (s_cfree (key :: cfree (s_ s))) s.
Definition ts_poll (k : N) (s : st) : st :=
  match find_call k (calls (s_ s)) with
  | None => s
  | Some c0 =>
    match poll_call (TS k) k s with
    | (s1, Some r) =>
      let '(s2, e) := finish_deferred k r (retire_call k s1) in
      free_key (ckey c0) (if e then wake_disp s2 else s2)
    | (s1, None) =>
      if stopping (s_ s1) then
        let '(s2, e) := finish_deferred k RNone (cancel_call k s1) in
        free_key (ckey c0) (if e then wake_disp s2 else s2)
      else s1
    end
  end.

(* the Iops task: IoRef::ops_send_buf *)
Definition tw_poll (s : st) : st :=
  if wsched (i_ s) then wake TIO (up_i (fun x => i_wpaused false (i_wsched false x)) s) else s.

(* the io task of IoTest (one `turn`): filter shutdown, read, write *)
Definition tio_poll (s : st) : st :=
  if stopped (i_ s) then s
  else
    (* IoContext::shutdown_filters *)
    let s1 :=
      if closing (i_ s) then
        if wpaused (i_ s) && negb (wsched (i_ s))
        then wake TIO (wake_disp (up_i (i_stopped true) s))      (* filters_stopped *)
        else s
      else s in
    (* Base::poll_read_ready: while the filters are stopping the read side is ready even if paused *)
    let s2 :=
      if negb (stopped (i_ s1)) && (closing (i_ s1) || negb (rpaused (i_ s1))) then
        match chan (i_ s1) with
        | [] => s1
        | l => wake_disp (up_i (fun x => i_chan [] (i_rbuf (rbuf x ++ l) x)) s1)
        end
      else s1 in
    (* write: flush; update_write_status *)
    if negb (stopped (i_ s2)) && negb (wpaused (i_ s2)) then
      let s3 := up_i (i_wpaused true) s2 in
      if closing (i_ s3) then wake TIO s3 else s3
    else s2.

Definition run_task (t : task) (s : st) : st :=
  let s0 := up_s (fun x => s_selfw false (s_cur (Some t) x)) s in
  let s1 := match t with TD => d_poll s0 | TIO => tio_poll s0 | TW => tw_poll s0 | TS k => ts_poll k s0 end in
  let again := self_woken (s_ s1) in
  let s2 := up_s (fun x => s_selfw false (s_cur None x)) s1 in
  if again then wake t s2 else s2.

Fixpoint run_all (fuel : nat) (s : st) : st :=
  match fuel with
  | O => s
  | S f => match runq (s_ s) with
           | [] => s
           | t :: r => run_all f (run_task t (up_s (s_runq r) s))
           end
  end.

(* ------------------------------------------------------------------ operations *)
Fixpoint wake_waiting_h (h : N) (l : list call) (s : st) : st :=
  match l with
  | [] => s
  | c :: r => match cst c with
              | CHandler x _ _ => if x =? h then wake (chost c) s else wake_waiting_h h r s
              | _ => wake_waiting_h h r s
              end
  end.
Fixpoint wake_waiting_p (n : N) (l : list call) (s : st) : st :=
  match l with
  | [] => s
  | c :: r => match cst c with
              | CProto x _ _ => if x =? n then wake (chost c) s else wake_waiting_p n r s
              | _ => wake_waiting_p n r s
              end
  end.

Definition step_op (f : list N) (s : st) : st :=
  match f with
  | 1 :: _ =>
    if stopped (i_ s) then s
    else wake TIO (up_i (i_chan (chan (i_ s) ++ [parse_pkt (v5 (c_ s)) f])) s)
  | [2; h; res] =>
    let s1 := match assocN h (hgate (l_ s)) with
              | Some _ => up_l (l_hgate (assoc_set h res (hgate (l_ s)))) s
              | None => up_l (l_hgate (hgate (l_ s) ++ [(h, res)])) s
              end in
    wake_waiting_h h (calls (s_ s1)) s1
  | [3; n; res] =>
    let s1 := match assocN n (pgate (l_ s)) with
              | Some _ => up_l (l_pgate (assoc_set n res (pgate (l_ s)))) s
              | None => up_l (l_pgate (pgate (l_ s) ++ [(n, res)])) s
              end in
    wake_waiting_p n (calls (s_ s1)) s1
  | _ => s
  end.

Definition observe (s : st) : list N :=
  wire (i_ s) ++ [254] ++ hlog (l_ s) ++ [253] ++ plog (l_ s) ++ [252]
  ++ [stop1 (l_ s); stops (l_ s); b2n (negb (stopped (i_ s)))].

Definition clear_obs (s : st) : st :=
  up_l (fun x => l_plog [] (l_hlog [] x)) (up_i (i_wire []) s).

Fixpoint run_ops (ops : list (list N)) (s : st) : list (list N) :=
  match ops with
  | [] => []
  | f :: r =>
    let s1 := run_all 400 (step_op f s) in
    observe s1 :: run_ops r (clear_obs s1)
  end.

Definition init_st (is5 : bool) (cf : list N) : st :=
  let a := fun n => nth0 cf n in
  let c := mkCfg is5 (a 0%nat)
                 (if is5 then (if a 1%nat =? 0 then 16 else a 1%nat) else 0)
                 (a 2%nat)
                 (if is5 then 0 else a 3%nat)
                 (a 4%nat) 0 false (a 5%nat =? 0) (a 6%nat) in
  mkSt c
       (mkPst [] [] [] [] false false)
       (mkBst [] 0 None true None 0 None None [] [] None)
       (mkIst [] [] false false false true true false [])
       (mkSst [] None false [] 0 RIdle None [] DProc false EServ [] [] 0)
       (mkLst [] [] 0 0 0 0 [] [])
       rq_init.

(* queue[idx] out of bounds in DispatcherState::handle_result would be a panic of the real code *)
Fixpoint any_panic (ops : list (list N)) (s : st) : bool :=
  match ops with
  | [] => panicked (q_ s)
  | f :: r => let s1 := run_all 400 (step_op f s) in panicked (q_ s1) || any_panic r (clear_obs s1)
  end.

Definition run_inb (is5 : bool) (c : list (list N)) : list (list N) :=
  match c with
  | [] => []
  | cf :: ops => if any_panic ops (init_st is5 cf) then [[9999]] else run_ops ops (init_st is5 cf)
  end.

(* client engines "cli3" = 39, "cli5" = 40: configuration [max_receive (0 = default); route] *)
Definition init_st_cli (is5 : bool) (cf : list N) : st :=
  let a := fun n => nth0 cf n in
  let s := init_st is5 [2; 0; 16; 0; 1] in
  let c := mkCfg is5 2
                 (if is5 then (if a 0%nat =? 0 then 65535 else a 0%nat) else 0)
                 16
                 (if is5 then 0 else (if a 0%nat =? 0 then 16 else a 0%nat))
                 1 1 (a 1%nat =? 1) true 0 in
  mkSt c (p_ s) (b_ s) (i_ s) (s_ s) (l_ s) (q_ s).

Definition run_cli (is5 : bool) (c : list (list N)) : list (list N) :=
  match c with
  | [] => []
  | cf :: ops => if any_panic ops (init_st_cli is5 cf) then [[9999]] else run_ops ops (init_st_cli is5 cf)
  end.

Definition run_inb3 (c : list (list N)) : list (list N) := run_inb false c.
Definition run_cli3 (c : list (list N)) : list (list N) := run_cli false c.
Definition run_cli5 (c : list (list N)) : list (list N) := run_cli true c.
Definition run_inb5 (c : list (list N)) : list (list N) := run_inb true c.
