(* Model/Engines.v -- the uniform entry point used by the correspondence check:
   [run engine case] for the models, [oracle engine case observation] for the
   property oracles (Spec side).  Engine numbers are listed in tools/engines.py. *)
From MV Require Import Base.Prelude Model.Topic Spec.SpecTopic Model.TopicOracle Model.EnginesV3 Model.EnginesV5 Model.RespQueue Model.RespOracle.
From MV Require Model.Sink.   (* qualified: Sink.v has many short names *)
From MV Require Model.Limiter Model.LimiterOracle.   (* qualified as well *)
From MV Require Model.Payload.
From MV Require Model.PlStop.   (* qualified: own state/step names on top of Payload *)
From MV Require Model.Sized.   (* qualified: short names (step, run_from, op ..) *)
From MV Require Model.EnginesHs.   (* qualified: imports both codec models *)

From MV Require Model.IoEnv Model.TimerRt.   (* qualified: own queue/handler names *)

From MV Require Model.Inbound.   (* qualified: a scheduler model with many short names *)
From MV Require Model.InboundBurst.
From MV Require Model.CtlWrap.   (* qualified: own state/step names on top of Sink *)

Definition run (e : N) (c : list (list N)) : list (list N) :=
  match e with
  | 33 => Inbound.run_inb3 c
  | 34 => Inbound.run_inb5 c
  | 46 => InboundBurst.run_inb3b c
  | 47 => InboundBurst.run_inb5b c
  | 39 => Inbound.run_cli3 c
  | 40 => Inbound.run_cli5 c
  | 1 => run_topic c
  | 30 => run_respq c
  | 36 => IoEnv.run_iostate c
  | 37 => TimerRt.run_timerrt c
  | 31 => Sink.run_sink3 c
  | 32 => Sink.run_sink5 c
  | 35 => Limiter.run_limiter c
  | 41 => Payload.run_payload c
  | 42 => PlStop.run_plstop3 c
  | 43 => PlStop.run_plstop5 c
  | 44 => CtlWrap.run_ctlwrap3 c
  | 45 => CtlWrap.run_ctlwrap5 c
  | 13 => Sized.run_sized3 c
  | 23 => Sized.run_sized5 c
  | 38 => EnginesHs.run_hs c
  | _ => if (10 <=? e) && (e <? 20) then run_v3 e c
         else if (20 <=? e) && (e <? 30) then run_v5 e c
         else [[98]]
  end.

(* [oracle e c o]: o is the observation the implementation produced on case c;
   answer [[1]] = consistent with the property, [[0; clause]] = violates clause. *)
Definition oracle (e : N) (c : list (list N)) (o : list (list N)) : list (list N) :=
  match e with
  | 1 => oracle_topic c o
  | 30 => oracle_respq c o
  | 35 => LimiterOracle.oracle_limiter c o
  | _ => if (10 <=? e) && (e <? 20) then oracle_v3 e c o
         else if (20 <=? e) && (e <? 30) then oracle_v5 e c o
         else [[98]]
  end.

Fixpoint nums_eqb (a b : list N) : bool :=
  match a, b with
  | [], [] => true
  | x :: a', y :: b' => (x =? y) && nums_eqb a' b'
  | _, _ => false
  end.
Fixpoint obs_eqb (a b : list (list N)) : bool :=
  match a, b with
  | [], [] => true
  | x :: a', y :: b' => nums_eqb x y && obs_eqb a' b'
  | _, _ => false
  end.

(* used by generated cases.v files: indices of the cases on which model and
   implementation observation differ *)
Fixpoint disagree_go (e : N) (i : N) (cs : list (list (list N) * list (list N))) : list N :=
  match cs with
  | [] => []
  | (c, o) :: r =>
    if obs_eqb (run e c) o then disagree_go e (i + 1) r else i :: disagree_go e (i + 1) r
  end.
Definition disagree e cs := disagree_go e 0 cs.
