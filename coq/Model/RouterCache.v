(* Model/RouterCache.v -- the alias stage of the MQTT 5 dispatchers followed by the topic router with its
   own per-connection alias cache.
     [resolve]  src/v5/dispatcher.rs `Decoded::Publish` arm "handle topic aliases" (server) and the same lines of
                src/v5/client/dispatcher.rs (client; `max` = max_topic_alias): lookup when the topic is empty,
                insert/replace when topic and alias are both present, limit check on first use only.
     [rcall]    src/v5/router.rs `RouterService::call` and the closure `dispatch` of src/v5/client/connection.rs:
                non-empty topic -> `router.recognize`, remember (handler, topic) under the alias when there is one;
                empty topic + alias -> the remembered (handler, topic); otherwise the default service.
   Topics and aliases are numbers, 0 = empty topic / no alias; `recog` stands for ntex_router::Router::recognize
   (a Section variable: any function).  The PUBLISH handed to the router still carries its alias property. *)
From MV Require Import Base.Prelude.

Fixpoint rc_assoc {A : Type} (k : N) (l : list (N * A)) : option A :=
  match l with [] => None | (a, b) :: r => if a =? k then Some b else rc_assoc k r end.

(* HashMap::insert: the new binding shadows the old one *)
Definition rc_put {A : Type} (k : N) (v : A) (l : list (N * A)) : list (N * A) := (k, v) :: l.

Record rpub := { r_topic : N; r_alias : N }.

(* dispatcher alias stage: None = protocol error (TopicAliasInvalid "Unknown topic alias" / Connack_3_2_2_17 over the maximum) *)
Definition resolve (max : N) (tbl : list (N * N)) (p : rpub) : option (list (N * N) * N) :=
  if r_alias p =? 0 then Some (tbl, r_topic p)
  else if r_topic p =? 0 then
    match rc_assoc (r_alias p) tbl with Some t => Some (tbl, t) | None => None end
  else
    match rc_assoc (r_alias p) tbl with
    | Some _ => Some (rc_put (r_alias p) (r_topic p) tbl, r_topic p)
    | None => if max <? r_alias p then None else Some (rc_put (r_alias p) (r_topic p) tbl, r_topic p)
    end.

Section Router.
  Variable recog : N -> option N.          (* resource index for a topic, None = no resource matches *)

  Definition cache := list (N * (N * N)).  (* alias -> (handler index, topic) *)

  (* result: new cache, handler (None = default service), topic the handler sees *)
  Definition rcall (c : cache) (topic alias : N) : cache * (option N * N) :=
    if negb (topic =? 0) then
      match recog topic with
      | Some idx => ((if alias =? 0 then c else rc_put alias (idx, topic) c), (Some idx, topic))
      | None => (c, (None, topic))
      end
    else if negb (alias =? 0) then
      match rc_assoc alias c with
      | Some (idx, t) => (c, (Some idx, t))
      | None => (c, (None, topic))
      end
    else (c, (None, topic)).

  (* one connection: alias table + router cache; a protocol error ends the run (the connection is closed) *)
  Fixpoint conn_run (max : N) (tbl : list (N * N)) (c : cache) (ps : list rpub) : list (option N * N) :=
    match ps with
    | [] => []
    | p :: r =>
      match resolve max tbl p with
      | None => []
      | Some (tbl', t) =>
        let '(c', out) := rcall c t (r_alias p) in out :: conn_run max tbl' c' r
      end
    end.

  (* the reference: no cache anywhere, every PUBLISH routed by its resolved topic *)
  Definition route_plain (t : N) : option N * N := ((if t =? 0 then None else recog t), t).

  Fixpoint conn_ref (max : N) (tbl : list (N * N)) (ps : list rpub) : list (option N * N) :=
    match ps with
    | [] => []
    | p :: r =>
      match resolve max tbl p with
      | None => []
      | Some (tbl', t) => route_plain t :: conn_ref max tbl' r
      end
    end.

  (* the router used on its own (no dispatcher in front): every PUBLISH goes straight to rcall *)
  Fixpoint router_alone (c : cache) (ps : list rpub) : list (option N * N) :=
    match ps with
    | [] => []
    | p :: r => let '(c', out) := rcall c (r_topic p) (r_alias p) in out :: router_alone c' r
    end.
End Router.
