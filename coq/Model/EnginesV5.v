(* Model/EnginesV5.v -- engine dispatch for the MQTT v5 codec models (stub, replaced when the model lands) *)
From MV Require Import Base.Prelude.
Definition run_v5 (e : N) (c : list (list N)) : list (list N) := [[98]].
Definition oracle_v5 (e : N) (c o : list (list N)) : list (list N) := [[98]].
