(* Model/EnginesV5.v -- engines of the correspondence check for the MQTT v5 codec:
     20 "dec5"  stream decoder, 21 "enc5" encoder, 22 "sniff" protocol-version sniffing.
   Numeric dump grammar of packets (output of dec5, input of enc5), all flat and self-delimiting:
     bool      := 0 | 1                 num := one number
     bytes|str := len, b_1 .. b_len     opt(X) := 0 | 1, X        list(X) := count, X ...
     uprops    := list(str key, str value)
     publish   := dup, retain, qos, opt(packet_id), str topic, payload_size, pubprops
     pubprops  := opt(topic_alias), opt(bytes correlation_data), opt(message_expiry_interval),
                  opt(str content_type), uprops, is_utf8_payload, opt(str response_topic), list(subscription_id)
     packet    := tag, fields in the order of the Rust struct declaration
       1 Connect     clean_start, keep_alive, session_expiry_interval_secs, opt(str auth_method),
                     opt(bytes auth_data), request_problem_info, request_response_info, opt(receive_max),
                     topic_alias_max, uprops, opt(max_packet_size), opt(will), str client_id,
                     opt(str username), opt(bytes password)
           will    := qos, retain, str topic, bytes message, opt(will_delay_interval_sec),
                     opt(bytes correlation_data), opt(message_expiry_interval), opt(str content_type),
                     uprops, opt(bool is_utf8_payload), opt(str response_topic)
       2 ConnectAck  session_present, reason_code, opt(session_expiry_interval_secs), receive_max, max_qos,
                     opt(max_packet_size), opt(str assigned_client_id), topic_alias_max, retain_available,
                     wildcard_subscription_available, subscription_identifiers_available,
                     shared_subscription_available, opt(server_keepalive_sec), opt(str response_info),
                     opt(str server_reference), opt(str auth_method), opt(bytes auth_data),
                     opt(str reason_string), uprops
       4 PublishAck | 5 PublishReceived | 6 PublishRelease | 7 PublishComplete
                     packet_id, reason_code, uprops, opt(str reason_string)
       8 Subscribe   packet_id, opt(id), uprops, list(str filter, qos, no_local, retain_as_published,
                     retain_handling)
       9 SubscribeAck | 11 UnsubscribeAck   packet_id, uprops, opt(str reason_string), list(status)
       10 Unsubscribe packet_id, uprops, list(str filter)
       12 PingRequest | 13 PingResponse     (nothing)
       14 Disconnect reason_code, opt(session_expiry_interval_secs), opt(str server_reference),
                     opt(str reason_string), uprops
       15 Auth       reason_code, opt(str auth_method), opt(bytes auth_data), opt(str reason_string), uprops *)
From MV Require Import Base.Prelude Base.Res Base.VarInt Base.Utf8 Model.CodecV5 Model.Sniff.

(* ------------------------------------------------------------------ dump *)
Definition d_bool (b : bool) : list N := [b2n b].
Definition d_bytes (b : bytes) : list N := len b :: b.
Definition d_opt {A} (f : A -> list N) (o : option A) : list N :=
  match o with Some x => 1 :: f x | None => [0] end.
Definition d_num (n : N) : list N := [n].
Definition d_list {A} (f : A -> list N) (l : list A) : list N := N.of_nat (length l) :: flat_map f l.
Definition d_uprops (l : uprops) : list N := d_list (fun p => d_bytes (fst p) ++ d_bytes (snd p)) l.

Definition d_publish_properties (p : publish_properties) : list N :=
  d_opt d_num (pp_topic_alias p) ++ d_opt d_bytes (pp_correlation_data p)
  ++ d_opt d_num (pp_message_expiry_interval p) ++ d_opt d_bytes (pp_content_type p)
  ++ d_uprops (pp_user_properties p) ++ d_bool (pp_is_utf8_payload p)
  ++ d_opt d_bytes (pp_response_topic p) ++ d_list d_num (pp_subscription_ids p).

Definition d_publish (p : publish) : list N :=
  d_bool (p_dup p) ++ d_bool (p_retain p) ++ [p_qos p] ++ d_opt d_num (p_packet_id p)
  ++ d_bytes (p_topic p) ++ [p_payload_size p] ++ d_publish_properties (p_properties p).

Definition d_will (w : last_will) : list N :=
  [lw_qos w] ++ d_bool (lw_retain w) ++ d_bytes (lw_topic w) ++ d_bytes (lw_message w)
  ++ d_opt d_num (lw_will_delay_interval_sec w) ++ d_opt d_bytes (lw_correlation_data w)
  ++ d_opt d_num (lw_message_expiry_interval w) ++ d_opt d_bytes (lw_content_type w)
  ++ d_uprops (lw_user_properties w) ++ d_opt d_bool (lw_is_utf8_payload w)
  ++ d_opt d_bytes (lw_response_topic w).

Definition d_connect (c : connect) : list N :=
  d_bool (c_clean_start c) ++ [c_keep_alive c] ++ [c_session_expiry_interval_secs c]
  ++ d_opt d_bytes (c_auth_method c) ++ d_opt d_bytes (c_auth_data c)
  ++ d_bool (c_request_problem_info c) ++ d_bool (c_request_response_info c)
  ++ d_opt d_num (c_receive_max c) ++ [c_topic_alias_max c] ++ d_uprops (c_user_properties c)
  ++ d_opt d_num (c_max_packet_size c) ++ d_opt d_will (c_last_will c) ++ d_bytes (c_client_id c)
  ++ d_opt d_bytes (c_username c) ++ d_opt d_bytes (c_password c).

Definition d_connect_ack (a : connect_ack) : list N :=
  d_bool (ca_session_present a) ++ [ca_reason_code a] ++ d_opt d_num (ca_session_expiry_interval_secs a)
  ++ [ca_receive_max a] ++ [ca_max_qos a] ++ d_opt d_num (ca_max_packet_size a)
  ++ d_opt d_bytes (ca_assigned_client_id a) ++ [ca_topic_alias_max a]
  ++ d_bool (ca_retain_available a) ++ d_bool (ca_wildcard_subscription_available a)
  ++ d_bool (ca_subscription_identifiers_available a) ++ d_bool (ca_shared_subscription_available a)
  ++ d_opt d_num (ca_server_keepalive_sec a) ++ d_opt d_bytes (ca_response_info a)
  ++ d_opt d_bytes (ca_server_reference a) ++ d_opt d_bytes (ca_auth_method a)
  ++ d_opt d_bytes (ca_auth_data a) ++ d_opt d_bytes (ca_reason_string a)
  ++ d_uprops (ca_user_properties a).

Definition d_ack (id rc : N) (ups : uprops) (rs : option bytes) : list N :=
  [id; rc] ++ d_uprops ups ++ d_opt d_bytes rs.

Definition d_sub_filter (f : bytes * subscription_options) : list N :=
  d_bytes (fst f) ++ [so_qos (snd f)] ++ d_bool (so_no_local (snd f))
  ++ d_bool (so_retain_as_published (snd f)) ++ [so_retain_handling (snd f)].

Definition d_packet (p : packet) : list N :=
  match p with
  | Connect c => 1 :: d_connect c
  | ConnectAck a => 2 :: d_connect_ack a
  | PublishAck a => 4 :: d_ack (pa_packet_id a) (pa_reason_code a) (pa_properties a) (pa_reason_string a)
  | PublishReceived a => 5 :: d_ack (pa_packet_id a) (pa_reason_code a) (pa_properties a) (pa_reason_string a)
  | PublishRelease a =>
    6 :: d_ack (pa2_packet_id a) (pa2_reason_code a) (pa2_properties a) (pa2_reason_string a)
  | PublishComplete a =>
    7 :: d_ack (pa2_packet_id a) (pa2_reason_code a) (pa2_properties a) (pa2_reason_string a)
  | Subscribe s =>
    8 :: [s_packet_id s] ++ d_opt d_num (s_id s) ++ d_uprops (s_user_properties s)
      ++ d_list d_sub_filter (s_topic_filters s)
  | SubscribeAck a =>
    9 :: [sa_packet_id a] ++ d_uprops (sa_properties a) ++ d_opt d_bytes (sa_reason_string a)
      ++ d_list d_num (sa_status a)
  | Unsubscribe u =>
    10 :: [u_packet_id u] ++ d_uprops (u_user_properties u) ++ d_list d_bytes (u_topic_filters u)
  | UnsubscribeAck a =>
    11 :: [ua_packet_id a] ++ d_uprops (ua_properties a) ++ d_opt d_bytes (ua_reason_string a)
      ++ d_list d_num (ua_status a)
  | PingRequest => [12]
  | PingResponse => [13]
  | Disconnect d =>
    14 :: [d_reason_code d] ++ d_opt d_num (d_session_expiry_interval_secs d)
      ++ d_opt d_bytes (d_server_reference d) ++ d_opt d_bytes (d_reason_string d)
      ++ d_uprops (d_user_properties d)
  | Auth a =>
    15 :: [a_reason_code a] ++ d_opt d_bytes (a_auth_method a) ++ d_opt d_bytes (a_auth_data a)
      ++ d_opt d_bytes (a_reason_string a) ++ d_uprops (a_user_properties a)
  end.

(* ------------------------------------------------------------------ parse (the same grammar read back;
   a value the Rust type cannot hold -- out of range, zero in a NonZero, unknown discriminant,
   invalid UTF-8 in a ByteString -- makes the dump undecodable) *)
Definition P (A : Type) := list N -> option (A * list N).
Notation "'let?' x ':=' r 'in' k" := (match r with Some x => k | None => None end)
  (at level 200, x pattern, r at level 100, k at level 200).

Definition p_num_if (ok : N -> bool) : P N :=
  fun l => match l with x :: r => if ok x then Some (x, r) else None | [] => None end.
Definition p_bool : P bool :=
  fun l => match l with x :: r => if x <=? 1 then Some (x =? 1, r) else None | [] => None end.
Definition p_u8 : P N := p_num_if (fun x => x <=? 255).
Definition p_u16 : P N := p_num_if (fun x => x <=? 65535).
Definition p_nz16 : P N := p_num_if (fun x => (1 <=? x) && (x <=? 65535)).
Definition p_u32 : P N := p_num_if (fun x => x <=? U32MAX).
Definition p_nz32 : P N := p_num_if (fun x => (1 <=? x) && (x <=? U32MAX)).
Definition p_bytes : P bytes :=
  fun l => match l with
           | n :: r => if len r <? n then None
                       else let '(a, b) := split_to n r in if bytes_ok a then Some (a, b) else None
           | [] => None
           end.
Definition p_str : P bytes :=
  fun l => let? (b, r) := p_bytes l in if utf8_valid b then Some (b, r) else None.
Definition p_opt {A} (p : P A) : P (option A) :=
  fun l => match l with
           | 0 :: r => Some (None, r)
           | 1 :: r => let? (x, r') := p r in Some (Some x, r')
           | _ => None
           end.
Fixpoint p_items {A} (p : P A) (fuel : nat) (n : N) (l : list N) : option (list A * list N) :=
  if n =? 0 then Some ([], l)
  else match fuel with
       | O => None
       | S f => let? (x, r) := p l in let? (xs, r') := p_items p f (n - 1) r in Some (x :: xs, r')
       end.
Definition p_list {A} (p : P A) : P (list A) :=
  fun l => match l with n :: r => p_items p (length r) n r | [] => None end.
Definition p_uprop : P uprop :=
  fun l => let? (k, r) := p_str l in let? (v, r') := p_str r in Some ((k, v), r').
Definition p_uprops : P uprops := p_list p_uprop.

Definition p_publish_properties : P publish_properties :=
  fun l =>
  let? (ta, l) := p_opt p_nz16 l in
  let? (cd, l) := p_opt p_bytes l in
  let? (me, l) := p_opt p_nz32 l in
  let? (ct, l) := p_opt p_str l in
  let? (up, l) := p_uprops l in
  let? (u8, l) := p_bool l in
  let? (rt, l) := p_opt p_str l in
  let? (si, l) := p_list p_nz32 l in
  Some (mkPublishProperties ta cd me ct up u8 rt si, l).

Definition p_publish : P publish :=
  fun l =>
  let? (dup, l) := p_bool l in
  let? (retain, l) := p_bool l in
  let? (qos, l) := p_num_if qos_ok l in
  let? (pid, l) := p_opt p_nz16 l in
  let? (topic, l) := p_str l in
  let? (psz, l) := p_u32 l in
  let? (props, l) := p_publish_properties l in
  Some (mkPublish dup retain qos pid topic psz props, l).

Definition p_will : P last_will :=
  fun l =>
  let? (qos, l) := p_num_if qos_ok l in
  let? (retain, l) := p_bool l in
  let? (topic, l) := p_str l in
  let? (msg, l) := p_bytes l in
  let? (wd, l) := p_opt p_u32 l in
  let? (cd, l) := p_opt p_bytes l in
  let? (me, l) := p_opt p_nz32 l in
  let? (ct, l) := p_opt p_str l in
  let? (up, l) := p_uprops l in
  let? (u8, l) := p_opt p_bool l in
  let? (rt, l) := p_opt p_str l in
  Some (mkLastWill qos retain topic msg wd cd me ct up u8 rt, l).

Definition p_connect : P connect :=
  fun l =>
  let? (cs, l) := p_bool l in
  let? (ka, l) := p_u16 l in
  let? (se, l) := p_u32 l in
  let? (am, l) := p_opt p_str l in
  let? (ad, l) := p_opt p_bytes l in
  let? (rp, l) := p_bool l in
  let? (rr, l) := p_bool l in
  let? (rm, l) := p_opt p_nz16 l in
  let? (ta, l) := p_u16 l in
  let? (up, l) := p_uprops l in
  let? (mp, l) := p_opt p_nz32 l in
  let? (lw, l) := p_opt p_will l in
  let? (ci, l) := p_str l in
  let? (un, l) := p_opt p_str l in
  let? (pw, l) := p_opt p_bytes l in
  Some (mkConnect cs ka se am ad rp rr rm ta up mp lw ci un pw, l).

Definition p_connect_ack : P connect_ack :=
  fun l =>
  let? (sp, l) := p_bool l in
  let? (rc, l) := p_num_if connect_ack_reason_ok l in
  let? (se, l) := p_opt p_u32 l in
  let? (rm, l) := p_nz16 l in
  let? (mq, l) := p_num_if qos_ok l in
  let? (mp, l) := p_opt p_u32 l in
  let? (ac, l) := p_opt p_str l in
  let? (ta, l) := p_u16 l in
  let? (ra, l) := p_bool l in
  let? (ws, l) := p_bool l in
  let? (si, l) := p_bool l in
  let? (ss, l) := p_bool l in
  let? (sk, l) := p_opt p_u16 l in
  let? (ri, l) := p_opt p_str l in
  let? (sr, l) := p_opt p_str l in
  let? (am, l) := p_opt p_str l in
  let? (ad, l) := p_opt p_bytes l in
  let? (rs, l) := p_opt p_str l in
  let? (up, l) := p_uprops l in
  Some (mkConnectAck sp rc se rm mq mp ac ta ra ws si ss sk ri sr am ad rs up, l).

Definition p_ack (ok : N -> bool) : P (N * N * uprops * option bytes) :=
  fun l =>
  let? (id, l) := p_nz16 l in
  let? (rc, l) := p_num_if ok l in
  let? (up, l) := p_uprops l in
  let? (rs, l) := p_opt p_str l in
  Some ((id, rc, up, rs), l).

Definition p_sub_filter : P (bytes * subscription_options) :=
  fun l =>
  let? (f, l) := p_str l in
  let? (qos, l) := p_num_if qos_ok l in
  let? (nl, l) := p_bool l in
  let? (rap, l) := p_bool l in
  let? (rh, l) := p_num_if retain_handling_ok l in
  Some ((f, mkSubscriptionOptions qos nl rap rh), l).

Definition p_packet : P packet :=
  fun l =>
  match l with
  | [] => None
  | tag :: l =>
    if tag =? 1 then let? (c, l) := p_connect l in Some (Connect c, l)
    else if tag =? 2 then let? (c, l) := p_connect_ack l in Some (ConnectAck c, l)
    else if tag =? 4 then
      let? ((id, rc, up, rs), l) := p_ack publish_ack_reason_ok l in Some (PublishAck (mkPublishAck id rc up rs), l)
    else if tag =? 5 then
      let? ((id, rc, up, rs), l) := p_ack publish_ack_reason_ok l in
      Some (PublishReceived (mkPublishAck id rc up rs), l)
    else if tag =? 6 then
      let? ((id, rc, up, rs), l) := p_ack publish_ack2_reason_ok l in
      Some (PublishRelease (mkPublishAck2 id rc up rs), l)
    else if tag =? 7 then
      let? ((id, rc, up, rs), l) := p_ack publish_ack2_reason_ok l in
      Some (PublishComplete (mkPublishAck2 id rc up rs), l)
    else if tag =? 8 then
      let? (id, l) := p_nz16 l in
      let? (sid, l) := p_opt p_nz32 l in
      let? (up, l) := p_uprops l in
      let? (fs, l) := p_list p_sub_filter l in
      Some (Subscribe (mkSubscribe id sid up fs), l)
    else if tag =? 9 then
      let? (id, l) := p_nz16 l in
      let? (up, l) := p_uprops l in
      let? (rs, l) := p_opt p_str l in
      let? (st, l) := p_list (p_num_if subscribe_ack_reason_ok) l in
      Some (SubscribeAck (mkSubscribeAck id up rs st), l)
    else if tag =? 10 then
      let? (id, l) := p_nz16 l in
      let? (up, l) := p_uprops l in
      let? (fs, l) := p_list p_str l in
      Some (Unsubscribe (mkUnsubscribe id up fs), l)
    else if tag =? 11 then
      let? (id, l) := p_nz16 l in
      let? (up, l) := p_uprops l in
      let? (rs, l) := p_opt p_str l in
      let? (st, l) := p_list (p_num_if unsubscribe_ack_reason_ok) l in
      Some (UnsubscribeAck (mkUnsubscribeAck id up rs st), l)
    else if tag =? 12 then Some (PingRequest, l)
    else if tag =? 13 then Some (PingResponse, l)
    else if tag =? 14 then
      let? (rc, l) := p_num_if disconnect_reason_ok l in
      let? (se, l) := p_opt p_u32 l in
      let? (sr, l) := p_opt p_str l in
      let? (rs, l) := p_opt p_str l in
      let? (up, l) := p_uprops l in
      Some (Disconnect (mkDisconnect rc se sr rs up), l)
    else if tag =? 15 then
      let? (rc, l) := p_num_if auth_reason_ok l in
      let? (am, l) := p_opt p_str l in
      let? (ad, l) := p_opt p_bytes l in
      let? (rs, l) := p_opt p_str l in
      let? (up, l) := p_uprops l in
      Some (Auth (mkAuth rc am ad rs up), l)
    else None
  end.

(* ------------------------------------------------------------------ engine 20 "dec5"
   case: [max_in; min_chunk] ; [cut positions, increasing] ; [stream bytes]
   observation: one field per decoded item, then the final field (see below) *)
Definition d_item (i : decoded) : list N :=
  match i with
  | DPacket p rl => 1 :: rl :: d_packet p
  | DPublish p payload rl => 2 :: rl :: d_publish p ++ d_bytes payload
  | DPayloadChunk c eof => 3 :: b2n eof :: c
  end.

Definition state_tag (st : dstate) : N :=
  match st with
  | FrameHeader => 0
  | Frame _ _ => 1
  | PublishHeader _ _ => 2
  | PublishProperties _ _ _ => 3
  | PublishPayload _ => 4
  end.

Inductive drun :=
| DRun (items_rev : list (list N)) (st : dstate) (npi : bool) (buf : bytes)
| DErr (items_rev : list (list N)) (code : N)
| DPanic.

(* `while let Some(item) = codec.decode(&mut buf)?` ; every item consumes at least one byte *)
Fixpoint drain (fuel : nat) (max_in min_chunk : N) (acc : list (list N)) (st : dstate) (npi : bool)
         (buf : bytes) : drun :=
  match decode_step max_in min_chunk npi st buf with
  | (Ok None, st', npi', buf') => DRun acc st' npi' buf'
  | (Ok (Some i), st', npi', buf') =>
    match fuel with
    | O => DPanic
    | S f => drain f max_in min_chunk (d_item i :: acc) st' npi' buf'
    end
  | (Err e, _, _, _) => DErr acc e
  | (Panic _, _, _, _) => DPanic
  end.

Fixpoint feed (max_in min_chunk : N) (pieces : list bytes) (acc : list (list N)) (st : dstate)
         (npi : bool) (buf : bytes) : drun :=
  match pieces with
  | [] => DRun acc st npi buf
  | p :: rest =>
    let buf1 := buf ++ p in
    match drain (S (length buf1)) max_in min_chunk acc st npi buf1 with
    | DRun acc' st' npi' buf' => feed max_in min_chunk rest acc' st' npi' buf'
    | r => r
    end
  end.

(* pieces of the stream: cut c means "deliver everything before offset c, then call decode" *)
Fixpoint pieces (cur : N) (cuts : list N) (s : bytes) : list bytes :=
  match cuts with
  | [] => [s]
  | c :: r =>
    let k := N.min (c - cur) (len s) in
    let '(a, b) := split_to k s in
    a :: pieces (N.max cur c) r b
  end.

Definition run_dec5 (c : list (list N)) : list (list N) :=
  match c with
  | [[max_in; min_chunk]; cuts; stream] =>
    match feed max_in min_chunk (pieces 0 cuts stream) [] FrameHeader false [] with
    | DRun acc st npi buf => rev acc ++ [[5; len buf; state_tag st; b2n npi]]
    | DErr acc e => rev acc ++ [[4; e]]
    | DPanic => [[9999]]
    end
  | _ => [[99]]
  end.

(* ------------------------------------------------------------------ engine 21 "enc5"
   case: [peer_max_packet_size (0 = never set); no_problem_info] ; one field per op
     op  1, <packet dump>                      Encoded::Packet
         2, has_buf, <publish dump>, payload   Encoded::Publish(pkt, if has_buf then Some(payload) else None)
         3, chunk bytes                        Encoded::PayloadChunk
   observation per op: 0, content size, bytes appended | 1, EE code, bytes left appended | 9999 (stop) *)
Definition p_op (f : list N) : option encoded :=
  match f with
  | 1 :: r => match p_packet r with Some (p, []) => Some (EPacket p) | _ => None end
  | 2 :: hb :: r =>
    if 1 <? hb then None
    else match p_publish r with
         | Some (p, rest) =>
           if bytes_ok rest then
             if hb =? 1 then Some (EPublish p (Some rest))
             else match rest with [] => Some (EPublish p None) | _ => None end
           else None
         | None => None
         end
  | 3 :: r => if bytes_ok r then Some (EPayloadChunk r) else None
  | _ => None
  end.

Fixpoint p_ops (l : list (list N)) : option (list encoded) :=
  match l with
  | [] => Some []
  | f :: r => let? op := p_op f in let? ops := p_ops r in Some (op :: ops)
  end.

(* the content size the library computes for the item (what it writes as remaining length) *)
Definition reported_size (c : ecodec) (item0 : encoded) : N :=
  let item := if ec_no_problem_info c then strip_problem_info item0 else item0 in
  match item with
  | EPacket p => packet_encoded_size p (max_size_of c)
  | EPublish p _ => publish_encoded_size p (max_size_of c) mod TWO32
  | EPayloadChunk _ => 0
  end.

Fixpoint run_ops (c : ecodec) (ops : list encoded) : list (list N) :=
  match ops with
  | [] => []
  | op :: r =>
    match encodev c op with
    | ((w, Ok _), c') => (0 :: reported_size c op :: w) :: run_ops c' r
    | ((w, Err e), c') => (1 :: e :: w) :: run_ops c' r
    | ((_, Panic _), _) => [[9999]]
    end
  end.

Definition run_enc5_cfg (peer_max npi : N) (ops : list (list N)) : list (list N) :=
    if 1 <? npi then [[99]]
    else match p_ops ops with
         | None => [[97]]
         | Some items =>
           let c0 := if peer_max =? 0 then ecodec_new else set_max_outbound_size ecodec_new peer_max in
           let c1 := mkECodec (ec_max_out_size c0) (ec_max_out_frame c0) (npi =? 1) None in
           run_ops c1 items
         end.

(* the optional third configuration field lists the capability calls the server makes after the handshake
   (Codec::set_retain_available / set_sub_ids_available): they set or clear NO_RETAIN / NO_SUB_IDS, which the
   encoder does not read, and leave NO_PROBLEM_INFO alone -- the encoder's behaviour does not depend on them *)
Definition run_enc5 (c : list (list N)) : list (list N) :=
  match c with
  | [peer_max; npi] :: ops => run_enc5_cfg peer_max npi ops
  | [peer_max; npi; caps] :: ops => if 15 <? caps then [[99]] else run_enc5_cfg peer_max npi ops
  | _ => [[99]]
  end.

(* ------------------------------------------------------------------ engine 22 "sniff" *)
Definition run_sniff (c : list (list N)) : list (list N) :=
  match c with
  | [src] =>
    match sniff src with
    | Ok (Some v) => [[0; v]]
    | Ok None => [[1]]
    | Err e => [[2; e]]
    | Panic _ => [[9999]]
    end
  | _ => [[99]]
  end.

Definition run_v5 (e : N) (c : list (list N)) : list (list N) :=
  match e with
  | 20 => run_dec5 c
  | 21 => run_enc5 c
  | 22 => run_sniff c
  | _ => [[98]]
  end.

Definition oracle_v5 (e : N) (c o : list (list N)) : list (list N) := [[98]].
