(* Model/Sink.v -- the outbound bookkeeping ("sink") of a connection:
     /repo/src/v3/shared.rs, /repo/src/v5/shared.rs   (struct MqttShared and its methods)
     /repo/src/v3/sink.rs,   /repo/src/v5/sink.rs     (MqttSink, PublishBuilder, PublishReceived,
                                                        SubscribeBuilder, UnsubscribeBuilder, StreamingPayload)
   ONE model, parameterised by the protocol version [ver] (3 | 5) and the role [client].

   Execution model: all connection state is Rc<Cell>/RefCell on a single-threaded executor, the code between
   two `.await` points is atomic.  A *task* is one use of the sink API; one operation of the model is one
   atomic segment (call of the API + first poll, one further poll, a drop, an acknowledgement processed by
   the dispatcher, ...).  Tasks run only when an operation polls them: a task woken through its channel
   does not run before the schedule says so.

   One-shot channels (ntex_util::channel::pool) are a table [chans]: a channel is Open / Filled v /
   SenderDropped plus "receiver alive"; Sender::send succeeds iff the receiver is alive; dropping a queue
   entry drops its sender (the receiver then sees Canceled); dropping a task's future drops its receivers.

   The io: [io] = 0 open, 1 close() was called in this operation (IoRef::close = start_shutdown sets only
   IO_STOPPING_FILTERS: is_closed() is still false but with_write_buf refuses, i.e. IoRef::encode is a
   silent no-op returning Ok), 2 closed (is_closed()).  At the end of every operation the connection
   settles: 1 becomes 2.  The wire is a list of abstract packets (tag, id; a DISCONNECT: tag, reason code), not bytes.  The codec keeps its
   own "payload of a streamed PUBLISH still expected" counter [crem] (Codec::encoding_payload), only
   touched when an encode really reaches the codec.

   Definitions only. *)
From MV Require Import Base.Prelude.

Definition lenN {A} (l : list A) : N := N.of_nat (length l).
Definition U16 (n : N) : N := n mod 65536.

(* ---------------------------------------------------------------- channels *)
Inductive cst := COpen | CFilled | CSenderDropped.
Record chan := mkChan { c_st : cst; c_val : N; c_rx : bool }.

Inductive pollres := PPending | PVal (v : N) | PCanceled.

Fixpoint upd_nth {A} (n : nat) (f : A -> A) (l : list A) : list A :=
  match l, n with
  | [], _ => []
  | x :: t, O => f x :: t
  | x :: t, S k => x :: upd_nth k f t
  end.

Definition ch_get (chs : list chan) (c : nat) : chan := nth c chs (mkChan CSenderDropped 0 false).

(* Sender::send(self, v): Ok iff the receiver is alive; the sender is consumed *)
Definition ch_send (chs : list chan) (c : nat) (v : N) : list chan * bool :=
  if c_rx (ch_get chs c) then (upd_nth c (fun ch => mkChan CFilled v true) chs, true)
  else (chs, false).

(* Drop for Sender *)
Definition ch_drop_tx (chs : list chan) (c : nat) : list chan :=
  upd_nth c (fun ch => match c_st ch with COpen => mkChan CSenderDropped 0 (c_rx ch) | _ => ch end) chs.

(* Drop for Receiver *)
Definition ch_drop_rx (chs : list chan) (c : nat) : list chan :=
  upd_nth c (fun ch => mkChan (c_st ch) (c_val ch) false) chs.

(* Receiver::poll_recv *)
Definition ch_poll (chs : list chan) (c : nat) : pollres :=
  match c_st (ch_get chs c) with
  | CFilled => PVal (c_val (ch_get chs c))
  | COpen => PPending
  | CSenderDropped => PCanceled
  end.

(* ---------------------------------------------------------------- tasks *)
(* AckType / Ack kind: 1 Publish, 2 Receive, 3 Complete, 4 Subscribe, 5 Unsubscribe *)

(* task status numbers of the observation *)
Definition ST_DROPPED : N := 0.
Definition ST_PENDING : N := 1.
Definition ST_OK : N := 2.
Definition ST_DISCONNECTED : N := 3.
Definition ST_IDINUSE : N := 4.
Definition ST_ENCODE : N := 5.
Definition ST_UNEXPRELEASE : N := 6.
Definition ST_OTHER : N := 7.        (* StreamingCancelled *)
Definition ST_PANIC : N := 9.

Inductive tstate :=
| TParked (c : nat)              (* inside wait_window, awaiting c *)
| TAwaitAck (c : nat) (id : N)   (* packet written, awaiting the acknowledgement *)
| TReceipt (id : N)              (* QoS2 send completed Ok: holds PublishReceived { packet_id: Some(id) } *)
| TAwaitComp (c : nat)           (* release() wrote PUBREL, awaiting PUBCOMP *)
| TReadyW (c : nat)              (* MqttSink::ready() awaiting c *)
| TDone (status : N)
| TDropped
(* only reachable through the operation "create without polling" (OCreate) *)
| TNew                           (* the future of an `async fn` (subscribe/unsubscribe send) was created, never polled *)
| TDeferred (status : N).        (* the future was created; its first poll returns this result *)

(* pending StreamingPayload::send future *)
Inductive spend :=
| SNone
| SWaitSig (n : N)               (* holds the signal receiver taken out of self.rx, awaiting it *)
| SWaitWrb (c : nat) (n : N).    (* inside want_payload_stream, awaiting c *)

Record stream := mkStream {
  sg : nat;          (* the (tx, rx) pair created by stream_at_least_once: "PUBLISH is encoded" *)
  s_rx : bool;       (* StreamingPayload.rx is still Some *)
  inproc : bool;     (* StreamingPayload.inprocess *)
  s_alive : bool;    (* the StreamingPayload has not been dropped *)
  pend : spend;
  cstat : N          (* status of the last chunk send *)
}.

Record task := mkTask {
  tk : N;            (* kind 1..8 *)
  tid : N;           (* explicit packet id, 0 = automatic *)
  tsize : N;         (* kind 7: payload size *)
  tst : tstate;
  ttx : bool;        (* kind 7: the future still owns the signal sender *)
  tstream : option stream
}.

(* ---------------------------------------------------------------- connection state *)
Record sink := mkSink {
  ver : N;                                  (* 3 | 5 *)
  client : bool;                            (* v3: Flags::CLIENT *)
  cap : N;
  inflight : list (N * option nat * N);     (* (packet id, Option<Sender<Ack>>, AckType) *)
  ids : list N;                             (* inflight_ids *)
  waiters : list nat;                       (* VecDeque<Sender<()>> *)
  rxm : list (N * nat);                     (* rx: HashMap<id, Receiver<Ack>> *)
  idx : N;                                  (* inflight_idx *)
  wrb : bool;                               (* Flags::WRB_ENABLED *)
  disc : bool;                              (* Flags::DISCONNECT *)
  srem : N;                                 (* streaming_remaining, 0 = None *)
  swait : option nat;                       (* streaming_waiter *)
  io : N;
  crem : N;                                 (* Codec::encoding_payload, 0 = None *)
  chans : list chan;
  tasks : list (N * task);                  (* sorted by task number *)
  wire : list N                             (* packets written in the current operation: tag, id, ... *)
}.

Definition set_cap s v := mkSink (ver s) (client s) v (inflight s) (ids s) (waiters s) (rxm s) (idx s) (wrb s) (disc s) (srem s) (swait s) (io s) (crem s) (chans s) (tasks s) (wire s).
Definition set_inflight s v := mkSink (ver s) (client s) (cap s) v (ids s) (waiters s) (rxm s) (idx s) (wrb s) (disc s) (srem s) (swait s) (io s) (crem s) (chans s) (tasks s) (wire s).
Definition set_ids s v := mkSink (ver s) (client s) (cap s) (inflight s) v (waiters s) (rxm s) (idx s) (wrb s) (disc s) (srem s) (swait s) (io s) (crem s) (chans s) (tasks s) (wire s).
Definition set_waiters s v := mkSink (ver s) (client s) (cap s) (inflight s) (ids s) v (rxm s) (idx s) (wrb s) (disc s) (srem s) (swait s) (io s) (crem s) (chans s) (tasks s) (wire s).
Definition set_rxm s v := mkSink (ver s) (client s) (cap s) (inflight s) (ids s) (waiters s) v (idx s) (wrb s) (disc s) (srem s) (swait s) (io s) (crem s) (chans s) (tasks s) (wire s).
Definition set_idx s v := mkSink (ver s) (client s) (cap s) (inflight s) (ids s) (waiters s) (rxm s) v (wrb s) (disc s) (srem s) (swait s) (io s) (crem s) (chans s) (tasks s) (wire s).
Definition set_wrb s v := mkSink (ver s) (client s) (cap s) (inflight s) (ids s) (waiters s) (rxm s) (idx s) v (disc s) (srem s) (swait s) (io s) (crem s) (chans s) (tasks s) (wire s).
Definition set_disc s v := mkSink (ver s) (client s) (cap s) (inflight s) (ids s) (waiters s) (rxm s) (idx s) (wrb s) v (srem s) (swait s) (io s) (crem s) (chans s) (tasks s) (wire s).
Definition set_srem s v := mkSink (ver s) (client s) (cap s) (inflight s) (ids s) (waiters s) (rxm s) (idx s) (wrb s) (disc s) v (swait s) (io s) (crem s) (chans s) (tasks s) (wire s).
Definition set_swait s v := mkSink (ver s) (client s) (cap s) (inflight s) (ids s) (waiters s) (rxm s) (idx s) (wrb s) (disc s) (srem s) v (io s) (crem s) (chans s) (tasks s) (wire s).
Definition set_io s v := mkSink (ver s) (client s) (cap s) (inflight s) (ids s) (waiters s) (rxm s) (idx s) (wrb s) (disc s) (srem s) (swait s) v (crem s) (chans s) (tasks s) (wire s).
Definition set_crem s v := mkSink (ver s) (client s) (cap s) (inflight s) (ids s) (waiters s) (rxm s) (idx s) (wrb s) (disc s) (srem s) (swait s) (io s) v (chans s) (tasks s) (wire s).
Definition set_chans s v := mkSink (ver s) (client s) (cap s) (inflight s) (ids s) (waiters s) (rxm s) (idx s) (wrb s) (disc s) (srem s) (swait s) (io s) (crem s) v (tasks s) (wire s).
Definition set_tasks s v := mkSink (ver s) (client s) (cap s) (inflight s) (ids s) (waiters s) (rxm s) (idx s) (wrb s) (disc s) (srem s) (swait s) (io s) (crem s) (chans s) v (wire s).
Definition set_wire s v := mkSink (ver s) (client s) (cap s) (inflight s) (ids s) (waiters s) (rxm s) (idx s) (wrb s) (disc s) (srem s) (swait s) (io s) (crem s) (chans s) (tasks s) v.

Definition sink_init (v : N) (cl : bool) (c : N) : sink :=
  mkSink v cl c [] [] [] [] 0 false false 0 None 0 0 [] [] [].

(* channel operations lifted to the state *)
Definition new_chan (s : sink) : sink * nat :=
  (set_chans s (chans s ++ [mkChan COpen 0 true]), length (chans s)).
Definition send (s : sink) (c : nat) (v : N) : sink * bool :=
  let '(chs, ok) := ch_send (chans s) c v in (set_chans s chs, ok).
Definition drop_tx (s : sink) (c : nat) : sink := set_chans s (ch_drop_tx (chans s) c).
Definition drop_rx (s : sink) (c : nat) : sink := set_chans s (ch_drop_rx (chans s) c).
Definition poll (s : sink) (c : nat) : pollres := ch_poll (chans s) c.
Definition rx_alive (s : sink) (c : nat) : bool := c_rx (ch_get (chans s) c).
Definition drop_tx_opt (s : sink) (c : option nat) : sink :=
  match c with Some c => drop_tx s c | None => s end.

Definition add_wire (s : sink) (w : list N) : sink := set_wire s (wire s ++ w).

(* wire tags *)
Definition W_PUB1 : N := 1.
Definition W_PUB2 : N := 2.
Definition W_PUB0 : N := 3.
Definition W_PUBREL : N := 4.
Definition W_SUBSCRIBE : N := 5.
Definition W_UNSUBSCRIBE : N := 6.
Definition W_DISCONNECT : N := 7.
Definition W_CHUNK : N := 8.

(* ---------------------------------------------------------------- io + codec *)
(* MqttShared::is_closed = IoRef::is_closed *)
Definition is_closed (s : sink) : bool := io s =? 2.

(* io.encode(Encoded::Packet(pkt), codec): closed/closing io: no-op Ok; codec refuses while a streamed
   payload is expected (EncodeError::ExpectPayload) *)
Definition enc_packet (s : sink) (tag id : N) : sink * bool :=
  if io s =? 0 then
    if negb (crem s =? 0) then (s, false) else (add_wire s [tag; id], true)
  else (s, true).

(* io.encode(Encoded::Publish(pkt, payload), codec) of a packet within the size limits (the Ok branch): the
   codec records how much payload is still to be streamed *)
Definition enc_publish (s : sink) (tag id rem : N) : sink :=
  if io s =? 0 then set_crem (add_wire s [tag; id]) rem else s.

(* io.encode(Encoded::Publish(pkt, payload), codec) of a packet that may exceed the maximum outbound packet
   size ([big]): the codec compares the encoded size with its limit before it writes or records anything
   (EncodeError::OverMaxPacketSize, nothing is left in the write buffer); a closed/closing io never reaches the
   codec: no-op Ok.  false = Err *)
Definition enc_publish_chk (s : sink) (big : bool) (tag id rem : N) : sink * bool :=
  if big && (io s =? 0) then (s, false) else (enc_publish s tag id rem, true).

(* io.encode(Encoded::PayloadChunk(n bytes), codec) *)
Definition enc_chunk (s : sink) (n : N) : sink * bool :=
  if io s =? 0 then
    if crem s =? 0 then (s, false)                    (* UnexpectedPayload *)
    else if crem s <? n then (s, false)               (* OverPublishSize *)
    else (set_crem (if n =? 0 then s else add_wire s [W_CHUNK; n]) (crem s - n), true)
  else (s, true).

(* ---------------------------------------------------------------- MqttShared methods *)
Definition credit (s : sink) : N := cap s - lenN (inflight s).      (* saturating_sub *)
Definition shared_is_ready (s : sink) : bool := (0 <? credit s) && negb (wrb s).

(* next_id: None = `inflight_idx + 1` overflows u16 (debug build panic) *)
Definition next_id (s : sink) : option (sink * N) :=
  if 65535 <=? idx s then None
  else let i := idx s + 1 in
       if i =? 65535 then Some (set_idx s 0, 65535) else Some (set_idx s i, i).

Fixpoint memN (x : N) (l : list N) : bool :=
  match l with [] => false | y :: r => (x =? y) || memN x r end.
Fixpoint removeN (x : N) (l : list N) : list N :=
  match l with [] => [] | y :: r => if x =? y then removeN x r else y :: removeN x r end.

(* wait_readiness *)
Definition wait_readiness (s : sink) : sink * option nat :=
  if (cap s <=? lenN (inflight s)) || wrb s then
    let '(s1, c) := new_chan s in (set_waiters s1 (waiters s1 ++ [c]), Some c)
  else (s, None).

(* wake up to [num] live waiters from the front; waiters whose receiver is gone are popped and skipped.
     set_cap:                  'outer: for _ in 0..cap { while let Some(tx) = pop_front() { if send ok continue 'outer } break }
     disable_wr_backpressure:  while num > 0 { if let Some(tx) = pop_front() { if send ok { num -= 1 } } else break }
     pkt_ack_inner:            while let Some(tx) = pop_front() { if send ok break }     (num = 1) *)
Fixpoint wake_go (chs : list chan) (num : N) (ws : list nat) : list chan * list nat :=
  match ws with
  | [] => (chs, [])
  | c :: r =>
    if num =? 0 then (chs, ws)
    else let '(chs1, ok) := ch_send chs c 0 in
         if ok then wake_go chs1 (num - 1) r else wake_go chs1 num r
  end.
Definition wake (s : sink) (num : N) : sink :=
  let '(chs, ws) := wake_go (chans s) num (waiters s) in set_waiters (set_chans s chs) ws.

(* set_cap *)
Definition do_set_cap (s : sink) (n : N) : sink := set_cap (wake s n) n.

(* clear_queues: waiters.clear(); streaming_waiter.take(); inflight.clear()  (no on_publish_ack callback);
   inflight_ids and the rx map are NOT touched *)
Definition clear_queues (s : sink) : sink :=
  let s1 := fold_left drop_tx (waiters s) s in
  let s2 := set_waiters s1 [] in
  let s3 := set_swait (drop_tx_opt s2 (swait s2)) None in
  let s4 := fold_left (fun st e => drop_tx_opt st (snd (fst e))) (inflight s3) s3 in
  set_inflight s4 [].

(* IoRef::close (start_shutdown) / IoRef::terminate *)
Definition io_close (s : sink) : sink := if io s =? 0 then set_io s 1 else s.
Definition io_terminate (s : sink) : sink := set_io s 2.

(* is_disconnect_sent: returns the old flag, sets it *)
Definition disconnect_sent (s : sink) : sink * bool := (set_disc s true, disc s).

(* reason codes of the v5 DISCONNECT packets the sink layer writes (a v3 DISCONNECT carries none: 0) *)
Definition RC_NORMAL : N := 0.        (* DisconnectReasonCode::NormalDisconnection, Disconnect::default() *)
Definition RC_IMPL : N := 131.        (* DisconnectReasonCode::ImplementationSpecificError (0x83) *)

(* v3: MqttShared::close() -- only a client writes a DISCONNECT, it has no reason code;
   v5: MqttShared::close(Some(Disconnect { reason_code: reason, .. })).  The second slot of the DISCONNECT wire
   entry is the reason code *)
Definition do_close (s : sink) (reason : N) : sink :=
  if ver s =? 3 then
    let s1 :=
      if client s then
        let '(s0, sent) := disconnect_sent s in
        if sent then s0
        else (* encode_packet: check_streaming()?; io.encode *)
          if negb (srem s0 =? 0) then s0 else fst (enc_packet s0 W_DISCONNECT 0)
      else s in
    clear_queues (io_close s1)
  else
    let s1 :=
      if is_closed s then s
      else
        let '(s0, sent) := disconnect_sent s in
        let s0' := if sent then s0 else fst (enc_packet s0 W_DISCONNECT reason) in
        io_close s0' in
    clear_queues s1.

Definition do_force_close (s : sink) : sink := clear_queues (io_terminate s).

(* enable/disable_wr_backpressure *)
Definition do_wrb (s : sink) (on : bool) : sink :=
  if on then set_wrb s true
  else
    let s1 := set_wrb s false in
    let s2 := match swait s1 with
              | Some c => set_swait (fst (send s1 c 0)) None
              | None => s1
              end in
    if lenN (inflight s2) <? cap s2 then wake s2 (cap s2 - lenN (inflight s2)) else s2.

Fixpoint rxm_find (id : N) (l : list (N * nat)) : option nat :=
  match l with [] => None | (i, c) :: r => if i =? id then Some c else rxm_find id r end.
Fixpoint rxm_del (id : N) (l : list (N * nat)) : list (N * nat) :=
  match l with [] => [] | (i, c) :: r => if i =? id then rxm_del id r else (i, c) :: rxm_del id r end.

(* HashMap::remove: the removed receiver is returned (caller decides), HashMap::insert: an old one is dropped *)
Definition rxm_insert (s : sink) (id : N) (c : nat) : sink :=
  let s1 := match rxm_find id (rxm s) with Some old => drop_rx s old | None => s end in
  set_rxm s1 (rxm_del id (rxm s1) ++ [(id, c)]).

Definition send_opt (s : sink) (tx : option nat) (v : N) : sink :=
  match tx with Some c => fst (send s c v) | None => s end.

(* pkt_ack_inner: true = Ok, false = Err(ProtocolError) *)
Definition pkt_ack_inner (s : sink) (k id : N) : sink * bool :=
  match inflight s with
  | (i, tx, tp) :: rest =>
    let s0 := set_inflight s rest in                                  (* pop_front *)
    if negb (i =? id) then (drop_tx_opt s0 tx, false)                 (* packet_id_mismatch *)
    else if negb (k =? tp) then (drop_tx_opt s0 tx, false)            (* !pkt.is_match(tp) *)
    else if k =? 2 then
      let s1 := send_opt s0 tx k in
      let '(s2, c) := new_chan s1 in
      let s3 := rxm_insert s2 i c in
      (set_inflight s3 (inflight s3 ++ [(i, Some c, 3)]), true)
    else if k =? 3 then
      let s1 := set_ids s0 (removeN id (ids s0)) in
      let s2 := match rxm_find id (rxm s1) with
                | Some c => set_rxm (drop_rx s1 c) (rxm_del id (rxm s1))
                | None => s1
                end in
      let s3 := send_opt s2 tx k in
      (wake s3 1, true)
    else
      let s1 := set_ids s0 (removeN id (ids s0)) in
      let s2 := send_opt s1 tx k in
      (wake s2 1, true)
  | [] => (s, false)
  end.

(* pkt_ack = pkt_ack_inner(..).inspect_err(|_| self.close(..)); v5: close(Some(Disconnect { reason_code:
   ImplementationSpecificError, .. })) *)
Definition pkt_ack (s : sink) (k id : N) : sink :=
  let '(s1, ok) := pkt_ack_inner s k id in
  if ok then s1 else do_close s1 RC_IMPL.

(* the dispatcher receives one acknowledgement from the peer.  A server dispatcher ignores SUBACK/UNSUBACK
   (`Decoded::Packet(..) => Ok(None)`); once the io is closed nothing is read any more; packet id 0 does not
   decode (DecodeError::MalformedPacket): protocol error, the connection is closed by the control path (v5: with
   the DISCONNECT Disconnect::from_proto_error gives for it: ImplementationSpecificError) *)
Definition ack_one (s : sink) (k id : N) : sink :=
  if negb (io s =? 0) then s
  else if (k =? 0) || (5 <? k) then s
  else if id =? 0 then do_close s RC_IMPL
  else if ((k =? 4) || (k =? 5)) && negb (client s) then s
  else pkt_ack s k id.

Fixpoint ack_list (s : sink) (l : list (N * N)) : sink :=
  match l with
  | [] => s
  | (k, id) :: r => ack_list (ack_one s k id) r
  end.

(* wait_publish_response(id, ack, pkt, payload): inl c = Ok(rx), inr status = Err; [big]: the PUBLISH is
   larger than the maximum outbound packet size.  `Err(e) => Err(SendPacketError::Encode(e))`: nothing is
   registered -- no in-flight entry, the id is not reserved, the streaming state is not set *)
(* Flags::STOPPED is set by clear_queues(), which the model runs exactly when the io leaves the open state
   (do_close / do_force_close): stopped = the io is closing or closed.  check_stopped()? is the first statement of
   wait_publish_response / wait_response: nothing is registered once the queues have been cleared -- also while a
   graceful close is still in progress and is_closed() is false. *)
Definition stopped (s : sink) : bool := negb (io s =? 0).

Definition wait_publish_response (s : sink) (id ack rem tag : N) (big : bool) : sink * (nat + N) :=
  if stopped s then (s, inr ST_DISCONNECTED)                           (* check_stopped *)
  else if negb (srem s =? 0) then (s, inr ST_ENCODE)                   (* check_streaming: ExpectPayload *)
  else if memN id (ids s) then (s, inr ST_IDINUSE)
  else
    let '(s1, ok) := enc_publish_chk s big tag id rem in
    if ok then
      let s2 := set_srem s1 rem in
      let '(s3, c) := new_chan s2 in
      (set_ids (set_inflight s3 (inflight s3 ++ [(id, Some c, ack)])) (ids s3 ++ [id]), inl c)
    else (s1, inr ST_ENCODE).                                           (* OverMaxPacketSize *)

(* wait_response(id, ack, pkt) *)
Definition wait_response (s : sink) (id ack tag : N) : sink * (nat + N) :=
  if stopped s then (s, inr ST_DISCONNECTED)
  else if negb (srem s =? 0) then (s, inr ST_ENCODE)
  else if memN id (ids s) then (s, inr ST_IDINUSE)
  else
    let '(s1, ok) := enc_packet s tag id in
    if ok then
      let '(s2, c) := new_chan s1 in
      (set_ids (set_inflight s2 (inflight s2 ++ [(id, Some c, ack)])) (ids s2 ++ [id]), inl c)
    else (s1, inr ST_ENCODE).

(* release_publish(id): the receiver (if any) and the encode outcome *)
Definition release_publish (s : sink) (id : N) : sink * option (nat * bool) :=
  match rxm_find id (rxm s) with
  | None => (s, None)                                                  (* UnexpectedRelease *)
  | Some c =>
    let s1 := set_rxm s (rxm_del id (rxm s)) in
    let '(s2, ok) := enc_packet s1 W_PUBREL id in
    (s2, Some (c, ok))
  end.

(* encode_publish (QoS 0) *)
Definition encode_publish0 (s : sink) : sink * N :=
  if negb (srem s =? 0) then (s, ST_ENCODE)
  else (set_srem (enc_publish s W_PUB0 0 0) 0, ST_OK).

(* encode_publish_payload(n bytes): status of the chunk send, and whether more payload is expected *)
Definition encode_publish_payload (s : sink) (n : N) : sink * N * bool :=
  if srem s =? 0 then (s, ST_ENCODE, true)                             (* UnexpectedPayload *)
  else if srem s <? n then (do_force_close s, ST_ENCODE, true)         (* OverPublishSize *)
  else
    let '(s1, ok) := enc_chunk s n in
    if ok then
      let s2 := set_srem s1 (srem s1 - n) in
      (s2, ST_OK, negb (srem s2 =? 0))
    else (s1, ST_ENCODE, true).

(* ---------------------------------------------------------------- tasks: the builders *)
Fixpoint find_task (t : N) (l : list (N * task)) : option task :=
  match l with [] => None | (i, x) :: r => if i =? t then Some x else find_task t r end.
Fixpoint put_task (t : N) (x : task) (l : list (N * task)) : list (N * task) :=
  match l with
  | [] => [(t, x)]
  | (i, y) :: r => if i =? t then (t, x) :: r
                   else if t <? i then (t, x) :: (i, y) :: r
                   else (i, y) :: put_task t x r
  end.

Definition with_tst (x : task) (st : tstate) : task :=
  mkTask (tk x) (tid x) (tsize x) st (match st with TParked _ => ttx x | _ => false end) (tstream x).
Definition with_stream (x : task) (sm : stream) : task :=
  mkTask (tk x) (tid x) (tsize x) (tst x) (ttx x) (Some sm).

Definition sig_of (x : task) : option nat :=
  match tstream x with Some sm => Some (sg sm) | None => None end.

(* the future of a streamed send is dropped / finishes before the PUBLISH: its signal sender is dropped *)
Definition drop_sig (s : sink) (x : task) : sink :=
  if ttx x then drop_tx_opt s (sig_of x) else s.

Definition acktype_of (k : N) : N := if k =? 2 then 2 else 1.
Definition pubtag_of (k : N) : N := if k =? 2 then W_PUB2 else W_PUB1.

(* send_at_least_once_inner / send_exactly_once_inner / stream_at_least_once_inner, up to the first
   poll of the acknowledgement receiver.  Kind 8 is send_at_least_once with a payload that makes the PUBLISH
   larger than the maximum outbound packet size: set_publish_id has already advanced the id counter (automatic
   id) when the encode fails *)
Definition inner_publish (s : sink) (x : task) : sink * tstate :=
  let k := tk x in
  match (if tid x =? 0 then next_id s else Some (s, tid x)) with       (* set_publish_id *)
  | None => (drop_sig s x, TDone ST_PANIC)
  | Some (s1, id) =>
    if (k =? 7) && negb (match sig_of x with Some c => rx_alive s1 c | None => true end) then
      (s1, TDone ST_OTHER)                                             (* tx.is_canceled(): StreamingCancelled *)
    else
      let '(s2, r) := wait_publish_response s1 id (acktype_of k) (if k =? 7 then tsize x else 0) (pubtag_of k)
                                            (k =? 8) in
      let s3 := if k =? 7 then send_opt s2 (sig_of x) 0 else s2 in     (* let _ = tx.send(()) *)
      match r with
      | inl c => (s3, TAwaitAck c id)                                  (* fresh receiver: Pending *)
      | inr e => (s3, TDone e)
      end
  end.

(* SubscribeBuilder::send / UnsubscribeBuilder::send after the window check *)
Definition inner_subscribe (s : sink) (x : task) : sink * tstate :=
  match (if tid x =? 0 then next_id s else Some (s, tid x)) with
  | None => (s, TDone ST_PANIC)
  | Some (s1, id) =>
    let '(s2, r) := wait_response s1 id (if tk x =? 3 then 4 else 5)
                                  (if tk x =? 3 then W_SUBSCRIBE else W_UNSUBSCRIBE) in
    match r with
    | inl c => (s2, TAwaitAck c id)
    | inr e => (s2, TDone e)
    end
  end.

Definition proceed (s : sink) (x : task) : sink * tstate :=
  if (tk x =? 3) || (tk x =? 4) then inner_subscribe s x else inner_publish s x.

(* `if let Some(rx) = wait_readiness() { wait_window(rx).await } ; proceed`, from the window check on *)
Definition window_then_proceed (s : sink) (x : task) : sink * tstate :=
  (* once the queues have been cleared wait_readiness() parks nobody: it hands out a receiver whose sender is already
     dropped, wait_window(rx) fails at once with Disconnected *)
  if stopped s then (s, TDone ST_DISCONNECTED) else
  match wait_readiness s with
  | (s1, Some c) => (s1, TParked c)                                    (* first poll of rx: Pending *)
  | (s1, None) => proceed s1 x
  end.

(* stream_at_least_once panicked in the call itself (next_id overflow before anything was written): the
   StreamingPayload it was about to return is dropped during the unwinding, the caller never gets one *)
Definition no_stream_on_panic (x : task) (st : tstate) : task :=
  match st, tstream x with
  | TDone e, Some sm =>
    if e =? ST_PANIC then mkTask (tk x) (tid x) (tsize x) (tst x) (ttx x)
                                 (Some (mkStream (sg sm) false (inproc sm) false SNone ST_DROPPED))
    else x
  | _, _ => x
  end.

(* operation 1: call the API and poll the returned future once *)
Definition start_task (s : sink) (t k idq size : N) : sink :=
  match find_task t (tasks s) with
  | Some _ => s
  | None =>
    if (k =? 0) || (8 <? k) then s
    else if k =? 6 then
      let '(s1, st) := if is_closed s then (s, ST_DISCONNECTED) else encode_publish0 s in
      set_tasks s1 (put_task t (mkTask k 0 0 (TDone st) false None) (tasks s1))
    else if k =? 5 then
      let '(s1, st) :=
        if is_closed s then (s, TDone ST_DISCONNECTED)
        else match wait_readiness s with
             | (s1, Some c) => (s1, TReadyW c)
             | (s1, None) => (s1, TDone ST_OK)
             end in
      set_tasks s1 (put_task t (mkTask k 0 0 st false None) (tasks s1))
    else
      (* stream_at_least_once creates the signal channel first *)
      let '(s0, x) :=
        if k =? 7 then let '(s0, c) := new_chan s in
                       (s0, mkTask k idq size TDropped true (Some (mkStream c true false true SNone 0)))
        else (s, mkTask k idq 0 TDropped false None) in
      let '(s1, st) :=
        if is_closed s0 then (drop_sig s0 x, TDone ST_DISCONNECTED)
        else
          let '(s1, st) := window_then_proceed s0 x in
          (match st with TParked _ => s1 | TDone _ => drop_sig s1 x | _ => s1 end, st) in
      set_tasks s1 (put_task t (with_tst (no_stream_on_panic x st) st) (tasks s1))
  end.

(* operation 2: poll the task's future once *)
Definition poll_task (s : sink) (t : N) : sink :=
  match find_task t (tasks s) with
  | None => s
  | Some x =>
    let '(s1, st) :=
      match tst x with
      | TParked c =>
        (* wait_window: loop { if rx.await.is_err() || is_closed() { Disconnected }; match wait_readiness() .. } *)
        match poll s c with
        | PPending => (s, TParked c)
        | PCanceled => (drop_sig s x, TDone ST_DISCONNECTED)
        | PVal _ =>
          if is_closed s then (drop_sig s x, TDone ST_DISCONNECTED)
          else let '(s1, st) := window_then_proceed s x in
               (match st with TDone _ => drop_sig s1 x | _ => s1 end, st)
        end
      | TAwaitAck c id =>
        match poll s c with
        | PPending => (s, TAwaitAck c id)
        | PCanceled => (s, TDone ST_DISCONNECTED)
        | PVal _ => (s, if tk x =? 2 then TReceipt id else TDone ST_OK)
        end
      | TAwaitComp c =>
        match poll s c with
        | PPending => (s, TAwaitComp c)
        | PCanceled => (s, TDone ST_DISCONNECTED)
        | PVal _ => (s, TDone ST_OK)
        end
      | TReadyW c =>
        match poll s c with
        | PPending => (s, TReadyW c)
        | PCanceled => (s, TDone ST_DISCONNECTED)
        | PVal _ => (s, TDone ST_OK)
        end
      | TNew =>
        (* first poll of SubscribeBuilder::send / UnsubscribeBuilder::send: everything happens now *)
        if is_closed s then (drop_sig s x, TDone ST_DISCONNECTED)
        else let '(s1, st) := window_then_proceed s x in
             (match st with TDone _ => drop_sig s1 x | _ => s1 end, st)
      | TDeferred e => (s, TDone e)
      | st => (s, st)
      end in
    set_tasks s1 (put_task t (with_tst x st) (tasks s1))
  end.

(* operation 3: the task's pending future is dropped: its receivers go away *)
Definition drop_task (s : sink) (t : N) : sink :=
  match find_task t (tasks s) with
  | None => s
  | Some x =>
    match tst x with
    | TParked c => let s1 := drop_sig (drop_rx s c) x in set_tasks s1 (put_task t (with_tst x TDropped) (tasks s1))
    | TAwaitAck c _ | TAwaitComp c | TReadyW c =>
      let s1 := drop_rx s c in set_tasks s1 (put_task t (with_tst x TDropped) (tasks s1))
    | TNew | TDeferred _ => set_tasks s (put_task t (with_tst x TDropped) (tasks s))
    | _ => s
    end
  end.

(* operation 16: call the API for task t, do NOT poll the returned future.
     kinds 1, 2, 7, 8 (send_at_least_once / send_exactly_once / stream_at_least_once are plain fns and so are their
       *_inner helpers): the closed check, wait_readiness and -- when not parked -- packet id, write and
       registration all happen in the call; an error of that synchronous part is returned by the first poll;
       a panic in the call (next_id overflow) leaves no future;
     kind 5 (MqttSink::ready): closed check and wait_readiness in the call;
     kinds 3, 4 (`async fn send`): nothing happens before the first poll;
     kind 6 (send_at_most_once) is synchronous.
   For a fresh task number [start_task s t k id size = poll_task (create_task s t k id size) t]. *)
Definition defer (st : tstate) : tstate :=
  match st with
  | TDone e => if e =? ST_PANIC then TDone e else TDeferred e
  | st => st
  end.

Definition create_task (s : sink) (t k idq size : N) : sink :=
  match find_task t (tasks s) with
  | Some _ => s
  | None =>
    if (k =? 0) || (8 <? k) then s
    else if k =? 6 then start_task s t k idq size
    else if k =? 5 then
      let '(s1, st) :=
        if is_closed s then (s, TDeferred ST_DISCONNECTED)
        else match wait_readiness s with
             | (s1, Some c) => (s1, TReadyW c)
             | (s1, None) => (s1, TDeferred ST_OK)
             end in
      set_tasks s1 (put_task t (mkTask k 0 0 st false None) (tasks s1))
    else if (k =? 3) || (k =? 4) then
      set_tasks s (put_task t (mkTask k idq 0 TNew false None) (tasks s))
    else
      let '(s0, x) :=
        if k =? 7 then let '(s0, c) := new_chan s in
                       (s0, mkTask k idq size TDropped true (Some (mkStream c true false true SNone 0)))
        else (s, mkTask k idq 0 TDropped false None) in
      let '(s1, st) :=
        if is_closed s0 then (drop_sig s0 x, TDone ST_DISCONNECTED)
        else
          let '(s1, st) := window_then_proceed s0 x in
          (match st with TParked _ => s1 | TDone _ => drop_sig s1 x | _ => s1 end, st) in
      set_tasks s1 (put_task t (with_tst (no_stream_on_panic x st) (defer st)) (tasks s1))
  end.

(* operation 6: PublishReceived::release(), polled once *)
Definition release_task (s : sink) (t : N) : sink :=
  match find_task t (tasks s) with
  | None => s
  | Some x =>
    match tst x with
    | TReceipt id =>
      let '(s1, st) :=
        match release_publish s id with
        | (s1, None) => (s1, TDone ST_UNEXPRELEASE)
        | (s1, Some (c, false)) => (drop_rx s1 c, TDone ST_ENCODE)
        | (s1, Some (c, true)) =>
          match poll s1 c with
          | PPending => (s1, TAwaitComp c)
          | PCanceled => (s1, TDone ST_DISCONNECTED)
          | PVal _ => (s1, TDone ST_OK)
          end
        end in
      set_tasks s1 (put_task t (with_tst x st) (tasks s1))
    | _ => s
    end
  end.

(* operation 7: Drop for PublishReceived: `let _ = release_publish(id)` *)
Definition drop_receipt (s : sink) (t : N) : sink :=
  match find_task t (tasks s) with
  | None => s
  | Some x =>
    match tst x with
    | TReceipt id =>
      let s1 := match release_publish s id with
                | (s1, None) => s1
                | (s1, Some (c, _)) => drop_rx s1 c
                end in
      set_tasks s1 (put_task t (with_tst x TDropped) (tasks s1))
    | _ => s
    end
  end.

(* ---------------------------------------------------------------- StreamingPayload *)
Definition sm_set (sm : stream) (srx inp : bool) (p : spend) (st : N) : stream :=
  mkStream (sg sm) srx inp (s_alive sm) p st.

(* StreamingPayload::send from `if self.inprocess.get()` on, [inp] = inprocess *)
Definition chunk_payload (s : sink) (sm : stream) (srx : bool) (n : N) : sink * stream :=
  let '(s1, st, more) := encode_publish_payload s n in
  (s1, sm_set sm srx (if N.eqb st ST_OK then more else true) SNone st).

Definition chunk_inprocess (s : sink) (sm : stream) (srx inp : bool) (n : N) : sink * stream :=
  if inp then
    (* want_payload_stream *)
    if is_closed s then (s, sm_set sm srx inp SNone ST_DISCONNECTED)
    else if wrb s then
      let '(s1, c) := new_chan s in
      let s2 := set_swait (drop_tx_opt s1 (swait s1)) (Some c) in
      (s2, sm_set sm srx inp (SWaitWrb c n) ST_PENDING)
    else chunk_payload s sm srx n
  else (s, sm_set sm srx inp SNone ST_ENCODE).                         (* UnexpectedPayload *)

(* awaiting the signal receiver taken out of self.rx *)
Definition chunk_signal (s : sink) (sm : stream) (n : N) : sink * stream :=
  match poll s (sg sm) with
  | PPending => (s, sm_set sm false (inproc sm) (SWaitSig n) ST_PENDING)
  | PCanceled => (s, sm_set sm false (inproc sm) SNone ST_OTHER)       (* StreamingCancelled *)
  | PVal _ => chunk_inprocess s sm false true n
  end.

(* operation 13 *)
Definition chunk_task (s : sink) (t n : N) : sink :=
  match find_task t (tasks s) with
  | None => s
  | Some x =>
    match tstream x with
    | None => s
    | Some sm =>
      if negb (s_alive sm) then s
      else
        let '(s1, sm1) :=
          match pend sm with
          | SNone => if s_rx sm then chunk_signal s sm n else chunk_inprocess s sm false (inproc sm) n
          | SWaitSig m => chunk_signal s sm m
          | SWaitWrb c m =>
            match poll s c with
            | PPending => (s, sm)
            | PCanceled => (s, sm_set sm (s_rx sm) (inproc sm) SNone ST_DISCONNECTED)
            | PVal _ => chunk_payload s sm (s_rx sm) m
            end
          end in
        set_tasks s1 (put_task t (with_stream x sm1) (tasks s1))
    end
  end.

(* the pending chunk send future is dropped *)
Definition drop_pending (s : sink) (sm : stream) : sink * stream :=
  match pend sm with
  | SNone => (s, sm)
  | SWaitSig _ => (drop_rx s (sg sm), sm_set sm (s_rx sm) (inproc sm) SNone ST_DROPPED)
  | SWaitWrb c _ => (drop_rx s c, sm_set sm (s_rx sm) (inproc sm) SNone ST_DROPPED)
  end.

(* operation 15 *)
Definition drop_chunk (s : sink) (t : N) : sink :=
  match find_task t (tasks s) with
  | None => s
  | Some x =>
    match tstream x with
    | None => s
    | Some sm =>
      if negb (s_alive sm) then s
      else match pend sm with
           | SNone => s
           | _ => let '(s1, sm1) := drop_pending s sm in
                  set_tasks s1 (put_task t (with_stream x sm1) (tasks s1))
           end
    end
  end.

(* operation 14: Drop for StreamingPayload (after its pending send future, which borrows it) *)
Definition drop_stream (s : sink) (t : N) : sink :=
  match find_task t (tasks s) with
  | None => s
  | Some x =>
    match tstream x with
    | None => s
    | Some sm =>
      if negb (s_alive sm) then s
      else
        let '(s1, sm1) := drop_pending s sm in
        let s2 := if s_rx sm1 then drop_rx s1 (sg sm1) else s1 in
        (* if inprocess && is_streaming() { streaming_dropped() = force_close() + encode_error } *)
        let s3 := if inproc sm1 && negb (srem s2 =? 0) then do_force_close s2 else s2 in
        let sm2 := mkStream (sg sm1) false (inproc sm1) false SNone ST_DROPPED in
        set_tasks s3 (put_task t (with_stream x sm2) (tasks s3))
    end
  end.

(* ---------------------------------------------------------------- operations, observation, engines *)
(* one operation = one atomic segment of the schedule *)
Inductive op :=
| OStart (t k id size : N)      (* call the API for task t and poll the returned future once *)
| OPoll (t : N)                 (* poll task t once *)
| ODrop (t : N)                 (* drop task t's pending future *)
| OAcks (l : list (N * N))      (* the peer's acknowledgements (kind, packet id) arriving in one write *)
| ORelease (t : N)              (* PublishReceived::release(), polled once *)
| ODropReceipt (t : N)          (* drop the PublishReceived *)
| OWrb (on : bool)              (* Control::WrBackpressure *)
| OSetCap (n : N)
| OClose                        (* MqttSink::close() *)
| OForceClose                   (* MqttSink::force_close() *)
| OSetIdx (n : N)               (* verification hook: preset inflight_idx *)
| OChunk (t n : N)              (* StreamingPayload::send(n bytes) polled once / resume the pending one *)
| ODropStream (t : N)           (* drop the StreamingPayload *)
| ODropChunk (t : N)            (* drop the pending StreamingPayload::send future *)
| ONop
| OCreate (t k id size : N)     (* call the API for task t WITHOUT polling the returned future; OStart = OCreate; OPoll *)
| OInPub (id : N).              (* the peer writes a QoS 1 PUBLISH with packet id [id]: an inbound request *)

(* operation 17: the peer writes a well-formed QoS 1 PUBLISH (topic "a", payload "x", packet id [id]) on the
   connection.  The publish handler of the harness' server answers at once with Ok, the dispatcher returns the
   PUBACK as the response of the request and io.rs encodes it (`io.encode`, not MqttShared::encode_packet: the
   send window, write back-pressure and check_streaming play no role).  Wire entry: 104 = 100 + packet type 4,
   id.  Ignored -- by the harness and by the model -- when the connection is not open, when the id is 0, while a
   streamed payload is owed (the codec would refuse the PUBACK and io.rs would end the connection with the encode
   error), and on a client connection (role 1: `start_default` hands an inbound PUBLISH to the default control
   service, which answers every message with a disconnect). *)
Definition W_IN_PUBACK : N := 104.
Definition in_publish (s : sink) (id : N) : sink :=
  if (io s =? 0) && (srem s =? 0) && negb (id =? 0) && negb (client s) then add_wire s [W_IN_PUBACK; id] else s.

Definition sink_step (s : sink) (o : op) : sink :=
  match o with
  | OStart t k id size => start_task s t k id size
  | OPoll t => poll_task s t
  | ODrop t => drop_task s t
  | OAcks l => ack_list s l
  | ORelease t => release_task s t
  | ODropReceipt t => drop_receipt s t
  | OWrb on => do_wrb s on
  | OSetCap n => do_set_cap s n
  | OClose => do_close s RC_NORMAL                 (* v5: close(Some(Disconnect::default())) *)
  | OForceClose => do_force_close s
  | OSetIdx n => set_idx s n
  | OChunk t n => chunk_task s t n
  | ODropStream t => drop_stream s t
  | ODropChunk t => drop_chunk s t
  | ONop => s
  | OCreate t k id size => create_task s t k id size
  | OInPub id => in_publish s id
  end.

(* numeric form of the operations (see harness/src/engines/sink.rs) *)
(* acknowledgement kind 6 of the case syntax = a PUBREC that carries a failure reason code (MQTT 5; the same bytes
   as kind 2 on MQTT 3.1.1): the sink layer does not look at the reason, it is a PUBREC *)
Definition ack_kind (k : N) : N := if k =? 6 then 2 else k.

Fixpoint pairs_of (l : list N) : list (N * N) :=
  match l with
  | k :: id :: r => (ack_kind k, U16 id) :: pairs_of r
  | _ => []
  end.

Definition parse_op (f : list N) : op :=
  match f with
  | 1 :: t :: k :: id :: rest => OStart t k (U16 id) (match rest with sz :: _ => sz | [] => 0 end)
  | [1; t; k] => OStart t k 0 0
  | 2 :: t :: _ => OPoll t
  | 3 :: t :: _ => ODrop t
  | 4 :: l => OAcks (pairs_of l)
  | 5 :: l => OAcks (pairs_of l)
  | 6 :: t :: _ => ORelease t
  | 7 :: t :: _ => ODropReceipt t
  | 8 :: b :: _ => OWrb (negb (b =? 0))
  | 9 :: n :: _ => OSetCap n
  | 10 :: _ => OClose
  | 11 :: _ => OForceClose
  | 12 :: n :: _ => OSetIdx (U16 n)
  | 13 :: t :: n :: _ => OChunk t n
  | [13; t] => OChunk t 0
  | 14 :: t :: _ => ODropStream t
  | 15 :: t :: _ => ODropChunk t
  | 16 :: t :: k :: id :: rest => OCreate t k (U16 id) (match rest with sz :: _ => sz | [] => 0 end)
  | [16; t; k] => OCreate t k 0 0
  | 17 :: id :: _ => OInPub (U16 id)
  | _ => ONop
  end.

(* the connection settles after every operation: a close() in progress completes *)
Definition settle (s : sink) : sink := if io s =? 1 then set_io s 2 else s.

Definition status_of (st : tstate) : N :=
  match st with
  | TParked _ | TAwaitAck _ _ | TAwaitComp _ | TReadyW _ | TNew | TDeferred _ => ST_PENDING
  | TReceipt _ => ST_OK
  | TDone c => c
  | TDropped => ST_DROPPED
  end.

Fixpoint obs_tasks (l : list (N * task)) : list N :=
  match l with
  | [] => []
  | (t, x) :: r =>
    [t; status_of (tst x)]
      ++ (match tstream x with Some sm => [100 + t; cstat sm] | None => [] end)
      ++ obs_tasks r
  end.

Definition observe (s : sink) : list N :=
  [lenN (inflight s); lenN (waiters s); cap s; b2n (wrb s); b2n (negb (srem s =? 0)); credit s;
   b2n (negb (is_closed s) && shared_is_ready s); b2n (negb (is_closed s))]
    ++ obs_tasks (tasks s) ++ [255] ++ wire s.

(* one operation of a case: the wire log is per operation; the connection settles afterwards *)
Definition sink_op (s : sink) (o : op) : sink := settle (sink_step (set_wire s []) o).

Definition run_from (s : sink) (ops : list op) : sink := fold_left sink_op ops s.

(* operation 18,t of the engines: a graceful close and, IN THE SAME TURN, a poll of task t -- the connection does not
   settle in between, the poll sees the closing state (io = 1: is_closed() is still false, the queues have been
   cleared).  This is what an executor does with a sender that was woken just before the teardown. *)
Definition close_then_poll (s : sink) (t : N) : sink :=
  (* when the io has stopped the connection's dispatcher shuts down and clears the queues once more
     (Dispatcher::shutdown -> MqttShared::close): whatever a poll in the closing state parked is released *)
  clear_queues (settle (sink_step (sink_step (set_wire s []) OClose) (OPoll t))).

(* operation 19,t,k,id of the engines: the send future of task t (kind 1, 3 or 4) is handed to the EXECUTOR
   (spawned) instead of being polled by the case: from then on it is polled whenever it has been woken, right after
   the operation that woke it and before the connection settles.  Polling a task that has not been woken changes
   nothing ([poll_task] on an open channel), so the model polls the spawned task after every operation.  At most one
   task per case is spawned ([a] = its number); operations 2 / 3 on it are ignored. *)
Definition auto_poll (a : option N) (s : sink) : sink :=
  match a with Some t => poll_task s t | None => s end.

Definition is_auto (a : option N) (t : N) : bool :=
  match a with Some u => u =? t | None => false end.

Definition spawn_ok (a : option N) (s : sink) (f : list N) : bool :=
  match a, f with
  | None, 19 :: t :: k :: _ =>
    ((k =? 1) || (k =? 3) || (k =? 4)) && match find_task t (tasks s) with None => true | Some _ => false end
  | _, _ => false
  end.

Definition engine_op (a : option N) (s : sink) (f : list N) : sink :=
  let plain := settle (auto_poll a (sink_step (set_wire s []) (parse_op f))) in
  match f with
  | x :: t :: rest =>
    if x =? 18 then
      (* the spawned task is polled in the closing state as well, before the dispatcher's shutdown *)
      clear_queues (settle (auto_poll a (sink_step (sink_step (set_wire s []) OClose) (OPoll t))))
    else if x =? 19 then
      match rest with
      | k :: id :: _ =>
        if spawn_ok a s f then settle (sink_step (set_wire s []) (OStart t k (U16 id) 0))
        else settle (auto_poll a (set_wire s []))
      | _ => plain
      end
    else if ((x =? 2) || (x =? 3)) && is_auto a t then settle (auto_poll a (set_wire s []))
    else plain
  | _ => plain
  end.

Definition next_auto (a : option N) (s : sink) (f : list N) : option N :=
  if spawn_ok a s f then match f with _ :: t :: _ => Some t | _ => a end else a.

Fixpoint run_ops_a (a : option N) (s : sink) (ops : list (list N)) : list (list N) :=
  match ops with
  | [] => []
  | f :: r =>
    let s1 := engine_op a s f in
    observe s1 :: run_ops_a (next_auto a s f) s1 r
  end.

Definition run_ops (s : sink) (ops : list (list N)) : list (list N) := run_ops_a None s ops.

Definition run_sink (v : N) (c : list (list N)) : list (list N) :=
  match c with
  | [] => []
  | cfg :: ops =>
    let cp := match cfg with x :: _ => x | [] => 1 end in
    let role := match cfg with _ :: r :: _ => r | _ => 0 end in
    run_ops (sink_init v (negb (role =? 0)) (U16 cp)) ops
  end.

Definition run_sink3 (c : list (list N)) : list (list N) := run_sink 3 c.
Definition run_sink5 (c : list (list N)) : list (list N) := run_sink 5 c.
