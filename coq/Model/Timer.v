(* Model/Timer.v -- the timer flag machine of /repo/src/io.rs over discrete time:
     DispatcherInner::{update_timer, handle_timeout}, the timer part of poll_service and stop,
     flags KA_ENABLED / KA_TIMEOUT / READ_TIMEOUT, read_remains, read_remains_prev, read_max_timeout;
   the keep-alive rule of Handshake::ack (v3/handshake.rs, v5/handshake.rs), the connect timeout
   (v3/server.rs, v5/server.rs) and the client keep-alive loop (v3|v5/client/connection.rs).

   Assumption about ntex-io (not modelled further): ONE restartable timer slot per connection:
   `start_timer(d)` replaces any pending timer with one that is due d seconds later (d = 0 cancels;
   a pending timer due at that second or the next one is kept),
   `stop_timer` cancels, the timer wheel calls `notify_timeout` when a timer is due (that sets the
   DSP_TIMEOUT flag; the flag is handed to the dispatcher as RecvError::KeepAlive by the next
   poll_recv_decode that decodes no item, or as IoStatusUpdate::KeepAlive by poll_read_pause).
   One Tick = one second.  Definitions only. *)
From MV Require Import Base.Prelude Base.Res.

Record rr_cfg := mkRr { rr_timeout : N; rr_max : N; rr_rate : N }.   (* FrameReadRate *)
Record tcfg := mkTcfg { cfg_ka : N; cfg_rr : option rr_cfg }.

Record tstate := mkT {
  ka_enabled : bool;           (* Flags::KA_ENABLED *)
  ka_timeout : bool;           (* Flags::KA_TIMEOUT *)
  read_timeout : bool;         (* Flags::READ_TIMEOUT *)
  read_remains : N;            (* u32 *)
  read_remains_prev : N;       (* u32 *)
  read_max_timeout : N;        (* Seconds (u16) *)
  timer : option N;            (* deadline of the pending ntex-io timer *)
  dsp_timeout : bool;          (* ntex-io DSP_TIMEOUT: an expiry not yet handed to the dispatcher *)
  now : N;
  stopped : bool               (* DispatcherInner::stop was called *)
}.

Definition t_init (c : tcfg) : tstate :=
  mkT (negb (cfg_ka c =? 0)) false false 0 0 0 None false 0 false.

Inductive tout := StopKeepAlive | StopRead.

Inductive tevent :=
| Recv (item : bool) (remains : N)
    (* io.poll_recv_decode in Processing: a frame was decoded (remains bytes stay buffered), or none
       was; when none was and an expiry is pending it is RecvError::KeepAlive -> handle_timeout, and if
       that says Ok the loop of Dispatcher::poll calls poll_recv_decode again at once (same buffer) *)
| Timeout
    (* RecvError::KeepAlive -> handle_timeout where the loop does NOT come back to poll_recv_decode:
       the next poll_recv_decode says WriteBackpressure, or the service is not ready (then Paused follows) *)
| Paused                       (* poll_service: service.poll_ready is Pending *)
| Halt                         (* DispatcherInner::stop for a reason outside this machine *)
| Tick                         (* one second passes *)
| TimerFired                   (* the timer wheel finds the pending timer due *)
| Inject.                      (* IoRef::notify_timeout() called by anyone *)

Definition U32 : N := 4294967296.

Definition set_timer (s : tstate) (t : option N) : tstate :=
  mkT (ka_enabled s) (ka_timeout s) (read_timeout s) (read_remains s) (read_remains_prev s)
      (read_max_timeout s) t (dsp_timeout s) (now s) (stopped s).

(* IoRef::start_timer: zero cancels; a pending timer that is due at the requested second or one second
   later is kept (TimerHandle::update: `self.0 == new_hnd || self.0 == new_hnd + 1`), otherwise replaced *)
Definition start_timer (s : tstate) (d : N) : tstate :=
  set_timer s (if d =? 0 then None
               else match timer s with
                    | Some dl => if (dl =? now s + d) || (dl =? now s + d + 1) then Some dl else Some (now s + d)
                    | None => Some (now s + d)
                    end).

(* DispatcherInner::stop: io.stop_timer() *)
Definition halt (s : tstate) : tstate :=
  mkT (ka_enabled s) (ka_timeout s) (read_timeout s) (read_remains s) (read_remains_prev s)
      (read_max_timeout s) None (dsp_timeout s) (now s) true.

(* DispatcherInner::update_timer(decoded) *)
Definition update_timer (c : tcfg) (s : tstate) (item : bool) (remains : N) : tstate :=
  if item then
    mkT (ka_enabled s) false false 0 (read_remains_prev s) (read_max_timeout s) (timer s)
        (dsp_timeout s) (now s) (stopped s)
  else if read_timeout s then
    mkT (ka_enabled s) (ka_timeout s) true (remains mod U32) (read_remains_prev s) (read_max_timeout s)
        (timer s) (dsp_timeout s) (now s) (stopped s)
  else if ((read_remains s =? 0) && (remains =? 0)) || (match cfg_rr c with None => true | Some _ => false end) then
    if ka_enabled s && negb (ka_timeout s) then
      start_timer (mkT (ka_enabled s) true (read_timeout s) (read_remains s) (read_remains_prev s)
                       (read_max_timeout s) (timer s) (dsp_timeout s) (now s) (stopped s)) (cfg_ka c)
    else s
  else
    match cfg_rr c with
    | Some p =>
      start_timer (mkT (ka_enabled s) (ka_timeout s) true (remains mod U32) 0 (rr_max p) (timer s)
                       (dsp_timeout s) (now s) (stopped s)) (rr_timeout p)
    | None => s
    end.

(* DispatcherInner::handle_timeout: Ok(()) = no output *)
Definition handle_timeout (c : tcfg) (s : tstate) : res (tstate * list tout) :=
  if read_timeout s then
    match cfg_rr c with
    | Some p =>
      (* saturating_sub: N subtraction truncates at 0 *)
      let total := read_remains s - read_remains_prev s in
      if rr_rate p <? total then
        let mx := if rr_max p =? 0 then read_max_timeout s else read_max_timeout s - rr_timeout p in
        let s1 := mkT (ka_enabled s) (ka_timeout s) (read_timeout s) 0 (read_remains s) mx (timer s)
                      (dsp_timeout s) (now s) (stopped s) in
        if (rr_max p =? 0) || negb (mx =? 0) then Ok (start_timer s1 (rr_timeout p), [])
        else Ok (halt s1, [StopRead])
      else Ok (halt s, [StopRead])
    | None => Ok (s, [])
    end
  else if ka_timeout s then Ok (halt s, [StopKeepAlive])
  else Ok (s, []).

Definition clear_dsp (s : tstate) : tstate :=
  mkT (ka_enabled s) (ka_timeout s) (read_timeout s) (read_remains s) (read_remains_prev s)
      (read_max_timeout s) (timer s) false (now s) (stopped s).

(* poll_service, service not ready: flags.remove(KA_TIMEOUT | READ_TIMEOUT); io.stop_timer();
   poll_read_pause: IoStatusUpdate::KeepAlive -> stop(KeepAliveTimeout) *)
Definition pause (s : tstate) : tstate * list tout :=
  let s1 := mkT (ka_enabled s) false false (read_remains s) (read_remains_prev s) (read_max_timeout s)
                None (dsp_timeout s) (now s) (stopped s) in
  if dsp_timeout s1 then (halt (clear_dsp s1), [StopKeepAlive]) else (s1, []).

Definition timer_step (c : tcfg) (s : tstate) (e : tevent) : res (tstate * list tout) :=
  match e with
  | Tick =>
    Ok (mkT (ka_enabled s) (ka_timeout s) (read_timeout s) (read_remains s) (read_remains_prev s)
            (read_max_timeout s) (timer s) (dsp_timeout s) (now s + 1) (stopped s), [])
  | TimerFired =>
    match timer s with
    | Some dl =>
      if dl <=? now s then
        Ok (mkT (ka_enabled s) (ka_timeout s) (read_timeout s) (read_remains s) (read_remains_prev s)
                (read_max_timeout s) None true (now s) (stopped s), [])
      else Ok (s, [])
    | None => Ok (s, [])
    end
  | Inject =>
    Ok (mkT (ka_enabled s) (ka_timeout s) (read_timeout s) (read_remains s) (read_remains_prev s)
            (read_max_timeout s) (timer s) true (now s) (stopped s), [])
  | Halt => Ok (halt s, [])
  | Paused => if stopped s then Ok (s, []) else Ok (pause s)
  | Timeout =>
    if stopped s then Ok (s, [])
    else if dsp_timeout s then handle_timeout c (clear_dsp s) else Ok (s, [])
  | Recv item remains =>
    if stopped s then Ok (s, [])
    else if item then Ok (update_timer c s true remains, [])
    else if dsp_timeout s then
      let* (s1, o1) := handle_timeout c (clear_dsp s) in
      if stopped s1 then Ok (s1, o1) else Ok (update_timer c s1 false remains, o1)
    else Ok (update_timer c s false remains, [])
  end.

Fixpoint t_run (c : tcfg) (s : tstate) (evs : list tevent) : res (tstate * list tout) :=
  match evs with
  | [] => Ok (s, [])
  | e :: r =>
    let* (s1, o1) := timer_step c s e in
    let* (s2, o2) := t_run c s1 r in
    Ok (s2, o1 ++ o2)
  end.

(* ---- hypotheses about event sequences used by the C20 statements ---- *)
Definition is_paused (e : tevent) : bool := match e with Paused => true | _ => false end.
Definition is_inject (e : tevent) : bool := match e with Inject => true | _ => false end.
Definition is_timeout_ev (e : tevent) : bool := match e with Timeout => true | _ => false end.

(* fewer than ka seconds ever pass without a complete frame; c = seconds since the last frame *)
Fixpoint gaps_ok (ka c : N) (evs : list tevent) : bool :=
  match evs with
  | [] => true
  | Tick :: r => (c + 1 <? ka) && gaps_ok ka (c + 1) r
  | Recv true _ :: r => gaps_ok ka 0 r
  | _ :: r => gaps_ok ka c r
  end.

(* ---- Handshake::ack ---- *)
Definition U16MAX : N := 65535.
Definition sat_add16 (a b : N) : N := if a + b <=? U16MAX then a + b else U16MAX.
Definition DEFAULT_KEEPALIVE : N := 30.
(* v3: Seconds((ka >> 1).saturating_add(ka)) or DEFAULT_KEEPALIVE; v5: the same with 30 *)
Definition ack_keepalive (ka : N) : N :=
  if ka =? 0 then DEFAULT_KEEPALIVE else sat_add16 (N.shiftr ka 1) ka.

(* ---- connect timeout: timeout_checked(cfg.connect_timeout, io.recv(..)); 0 disables ---- *)
Inductive cevent := CTick | CConnect | CPeerGone.
Inductive cout := CAccepted | CDropped.
(* waited = seconds waited so far; the first of: CONNECT decoded / peer gone / timeout *)
Fixpoint connect_phase (ct waited : N) (evs : list cevent) : option cout :=
  match evs with
  | [] => None
  | CConnect :: _ => Some CAccepted
  | CPeerGone :: _ => Some CDropped
  | CTick :: r =>
    if negb (ct =? 0) && (ct <=? waited + 1) then Some CDropped else connect_phase ct (waited + 1) r
  end.

(* ---- client keep-alive loop: loop { sleep(ka); if !sink.is_open() || !sink.ping() { break } } ---- *)
Inductive kevent := KTick | KClose.
Record kstate := mkK { k_running : bool; k_open : bool; k_slept : N }.
Definition k_init (ka : N) : kstate := mkK (negb (ka =? 0)) true 0.
(* output: true = a PINGREQ is written at this second *)
Definition k_step (ka : N) (s : kstate) (e : kevent) : kstate * bool :=
  match e with
  | KClose => (mkK (k_running s) false (k_slept s), false)
  | KTick =>
    if k_running s then
      if k_slept s + 1 <? ka then (mkK true (k_open s) (k_slept s + 1), false)
      else if k_open s then (mkK true true 0, true)
      else (mkK false false 0, false)
    else (s, false)
  end.
Fixpoint k_run (ka : N) (s : kstate) (evs : list kevent) : kstate * list bool :=
  match evs with
  | [] => (s, [])
  | e :: r => let '(s1, p) := k_step ka s e in let '(s2, ps) := k_run ka s1 r in (s2, p :: ps)
  end.
